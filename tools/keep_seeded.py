#!/usr/bin/env python3
"""tools/keep_seeded.py <id> <Cxx> <srcdir> <caught_by> <needs...>  -> /verif/seeded/<id>/{patch.diff,demo.py,README.md,meta.json}"""
import json, os, shutil, sys
sid, prop, src, caught = sys.argv[1:5]
needs = ' '.join(sys.argv[5:])
d = f'/verif/seeded/{sid}'
os.makedirs(d, exist_ok=True)
for f in ('patch.diff', 'demo.py', 'README.md'):
    if os.path.exists(os.path.join(src, f)):
        shutil.copy(os.path.join(src, f), os.path.join(d, f))
meta = {'id': sid, 'property': prop, 'breaks': open(os.path.join(src, 'README.md')).read().strip().split('\n')[0][:300] if os.path.exists(os.path.join(src, 'README.md')) else '',
        'needs_to_manifest': needs,
        'confirmed': 'demo.py exits 0 on the unmodified tree and 1 with patch.diff applied (tools/run_seeded.sh, private copy of /repo); the sub-agent ran the existing test suite with the change: same failing set as the baseline',
        'ran': f'tools/run_seeded.sh {prop} seeded/{sid}',
        'caught_by': caught}
json.dump(meta, open(os.path.join(d, 'meta.json'), 'w'), indent=1)
print(d)
