#!/bin/sh
# tools/new_worktree.sh <dir>: scratch git worktree of /repo HEAD for seeded-change experiments
set -e
D="$1"
git -C /repo worktree add --detach "$D" HEAD >/dev/null 2>&1
cp /repo/nibabel/_version.py "$D/nibabel/_version.py"
echo "$D"
