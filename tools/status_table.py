#!/usr/bin/env python3
"""tools/status_table.py -> markdown table of what each check proves and covers (from evidence/*.json,
coq/Cxx/Props.v, known_findings.json, seeded/*/meta.json). Used to refresh DESIGN.md section 9.2."""
import glob, json, os, re
V = '/verif'
kf = json.load(open(f'{V}/known_findings.json'))['findings']
seeded = [json.load(open(f)) for f in sorted(glob.glob(f'{V}/seeded/*/meta.json'))]
print('| prop | theorems in Props.v (proved / `_partial` / `_refuted`) | axioms | quick: evaluations / distinct non-trivial / wall s | findings (known; fixed) | seeded changes (caught by) |')
print('|---|---|---|---|---|---|')
for p in sorted(os.listdir(f'{V}/coq')):
    if not re.fullmatch(r'C\d\d', p) or not os.path.exists(f'{V}/coq/{p}/Props.v'):
        continue
    src = re.sub(r'\(\*.*?\*\)', '', open(f'{V}/coq/{p}/Props.v').read(), flags=re.S)
    names = re.findall(r'^\s*(?:Theorem|Corollary)\s+([A-Za-z0-9_\']+)', src, flags=re.M)
    part = [n for n in names if n.endswith('_partial')]
    ref = [n for n in names if n.endswith('_refuted')]
    ev = {}
    try:
        ev = json.load(open(f'{V}/evidence/{p}.json'))
    except Exception:
        pass
    cov = ev.get('coverage', {})
    ax = sorted({a for t in cov.get('theorems', []) for a in t.get('axioms', []) if not a.startswith('<')})
    known = [f['id'] for f in kf if f['property'] == p and f['status'] == 'known']
    fixed = [f['id'] for f in kf if f['property'] == p and f['status'] == 'fixed']
    sd = ['%s (%s)' % (m['id'], 'caught' if not m['caught_by'].upper().startswith('MISSED') else 'missed at first') for m in seeded if m['property'] == p]
    print(f"| {p} | {len(names)} ({len(names)-len(part)-len(ref)} / {len(part)} / {len(ref)}) | {', '.join(ax) if ax else 'none'} | "
          f"{cov.get('evaluations','?')} / {cov.get('distinct_nontrivial','?')} / {ev.get('wall_s','?')} | {', '.join(known) or '-'}; {', '.join(fixed) or '-'} | {', '.join(sd) or '-'} |")
