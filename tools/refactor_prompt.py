#!/usr/bin/env python3
"""tools/refactor_prompt.py Cxx [n] [prefix] -> prompt for an independent sub-agent that produces HARMLESS,
behaviour-preserving changes (the property still holds): used to look for false alarms of the checks."""
import json
import sys

pid = sys.argv[1]
n = int(sys.argv[2]) if len(sys.argv) > 2 else 3
pref = sys.argv[3] if len(sys.argv) > 3 else 'rf'
p = [json.loads(l) for l in open('/verif/properties.jsonl') if json.loads(l)['id'] == pid][0]
low = pid.lower()
wt = f'/tmp/{pref}_{low}'
base = open('/verif/tools/baseline_failures.txt').read().strip()
print(f"""You are helping test a verification effort for the Python library nibabel. You have a scratch git worktree of the library at {wt} (run code with `cd {wt} && PYTHONPATH={wt} /venv/bin/python ...`; check that `import nibabel; nibabel.__file__` points into {wt}). Work ONLY inside {wt} and {wt}_out (create it). Do not look at or touch /verif or /repo. Never use `git stash`.

Here is a semantic property that the library satisfies and must KEEP satisfying:

TITLE: {p['title']}
STATEMENT: {p['statement']}
QUANTIFIER: {p['quantifier']['text']}
ANCHORS (where the behaviour lives): {', '.join(p['anchors']['files'])}

YOUR TASK: produce {n} different, independent HARMLESS changes to the anchored source files — realistic refactors or optimisations a maintainer could merge — that change how the code is written but NOT what it does as far as the property and the public API are concerned. Make them substantial enough to matter to tooling that watches the code closely, and different in kind, for example: rename a private helper, private attribute or local variables; split or merge private functions; restructure a loop (comprehension <-> explicit loop, vectorise, reverse an iteration whose order does not matter); reorder independent statements or independent validation checks that raise the same exception type; replace one NumPy/stdlib idiom by an equivalent one (np.prod vs reduce, slice.indices vs explicit arithmetic that is REALLY equivalent for all ints, np.asarray vs np.array(copy=False) semantics-preserving); cache a value in a local; change the wording of an exception or log MESSAGE (not its type); change an internal data representation (list <-> tuple, dict <-> two lists) behind an unchanged interface; add an internal fast path that provably returns the same result; reorder file operations only where the observable file content and final file position are identical. Do NOT change: public names and signatures, exception types, return values/dtypes/shapes, bytes written to files, the order and arguments of seek/read/write calls on user-supplied file objects, locking behaviour, documented attributes.
For each change:
 (a) the library imports and the EXISTING test suite gives exactly the baseline result: run the relevant test modules while iterating and the whole suite once per change: `cd {wt} && PYTHONPATH={wt} /venv/bin/python -m pytest -q -p no:cacheprovider --timeout=900 nibabel 2>&1 | grep -E "^(FAILED|ERROR)|passed|failed"` (about 2 minutes). The failing set must be exactly this baseline set (environmental failures of the unmodified tree):
{base}
 (b) argue in README.md why behaviour is preserved for ALL inputs in the property's quantifier (not only the tested ones), and write `equiv.py`, a randomized differential test that imports the function/class from BOTH trees (unmodified copy: create it once with `git -C {wt} worktree list` — no: simply `cp -r {wt}/nibabel {wt}_out/orig_nibabel` BEFORE your first edit and import it under another package name via importlib with that path) and checks identical results on many random inputs including edge cases; it must pass.
Write to {wt}_out/<k>/ (k = 1..{n}): `patch.diff` (output of `git diff` in the worktree), `README.md`, `equiv.py`. After finishing one change restore the worktree with `git -C {wt} checkout -- .` before starting the next. Leave the worktree clean at the end. Report briefly what the changes are.""")
