#!/bin/sh
# tools/run_seeded.sh <Cxx> <dir with patch.diff [demo.py]> [tier]
# Applies the seeded change to a private copy of /repo (never to /repo itself while other checks
# run), confirms the demonstration (passes without, fails with), runs ./check against the copy,
# prints a one-line verdict, removes the copy.
P="$1"; D="$2"; TIER="${3:-quick}"
W=/tmp/seed_$$_$(basename "$D")
rm -rf "$W"; cp -r /repo "$W"
R="DEMO:none"
if [ -f "$D/demo.py" ]; then
  (cd /tmp && PYTHONPATH="$W" timeout 600 /venv/bin/python "$D/demo.py" >/dev/null 2>&1); A=$?
fi
if ! git -C "$W" apply "$D/patch.diff" 2>/tmp/seed_apply_err_$$; then echo "$P $(basename $D): PATCH-DOES-NOT-APPLY $(head -c 200 /tmp/seed_apply_err_$$)"; rm -rf "$W" /tmp/seed_apply_err_$$; exit 2; fi
rm -f /tmp/seed_apply_err_$$
if [ -f "$D/demo.py" ]; then
  (cd /tmp && PYTHONPATH="$W" timeout 600 /venv/bin/python "$D/demo.py" >/dev/null 2>&1); B=$?
  R="DEMO:clean=$A,seeded=$B"
fi
OUT=$(cd /verif && VERIF_REPO="$W" timeout 3000 ./check "$P" --tier "$TIER" 2>&1)
RC=$?
V=$(echo "$OUT" | grep -c '^VIOLATION')
echo "$P $(basename $(dirname $D))/$(basename $D): rc=$RC violations=$V $R :: $(echo "$OUT" | grep '^VIOLATION' | head -1)"
rm -rf "$W"
