#!/bin/sh
# tools/full_pass.sh [seed...]: run every claimed check (quick tier) on /repo for each seed; print any VIOLATION
cd /verif
for s in "${@:-0}"; do
  for p in $(python3 -c "import json; print(' '.join(c['property_id'] for c in json.load(open('MANIFEST.json'))['checks']))"); do
    out=$(VERIF_SEED=$s timeout 1200 ./check $p 2>&1); rc=$?
    n=$(echo "$out" | grep -c '^VIOLATION')
    [ "$rc" != "0" -o "$n" != "0" ] && echo "seed=$s $p rc=$rc violations=$n: $(echo "$out" | grep '^VIOLATION' | head -2)"
  done
done
echo full-pass-done
