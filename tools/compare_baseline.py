#!/usr/bin/env python3
"""compare_baseline.py <junit.xml>: every BASELINE stable_pass test must pass in the junit file."""
import json, sys, xml.etree.ElementTree as ET
b = json.load(open('/root/.vp/BASELINE.json'))
sp = set(b['stable_pass'])
res = {}
for tc in ET.parse(sys.argv[1]).iter('testcase'):
    name = tc.get('classname') + '::' + tc.get('name')
    res[name] = not any(c.tag in ('failure', 'error', 'skipped') for c in tc)
missing = sorted(n for n in sp if n not in res)
failed = sorted(n for n in sp if n in res and not res[n])
print('stable_pass=%d passing=%d missing=%d failed=%d' % (len(sp), len(sp) - len(missing) - len(failed), len(missing), len(failed)))
for n in (missing + failed)[:40]:
    print(' ', n)
sys.exit(1 if missing or failed else 0)
