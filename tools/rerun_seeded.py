#!/usr/bin/env python3
"""tools/rerun_seeded.py [ids...] : run every kept seeded change against the check of its property (private copy),
update seeded/<id>/meta.json (last_run: verdict, detected_by) and print a summary table."""
import glob, json, os, subprocess, sys
from concurrent.futures import ThreadPoolExecutor
V = '/verif'
ids = sys.argv[1:] or sorted(os.path.basename(os.path.dirname(p)) for p in glob.glob(f'{V}/seeded/*/meta.json'))
EXTRA = {'C03-6': ['C14'], 'C05-4': ['C06'], 'C07-3': ['C09'], 'C01-1': ['C09'], 'C01-2': ['C07'], 'C01-3': ['C14'], 'C12-1': ['C09'], 'C09-2': ['C04'], 'C09-3': ['C07'], 'C03-8': ['C14'], 'C01-8': ['C07'], 'C01-9': ['C14'], 'C07-9': ['C09'], 'C19-9': ['C09'], 'C12-9': ['C18'], 'C02-5': ['C07'], 'C01-10': ['C11'], 'C01-11': ['C07']}

def run(sid):
    m = json.load(open(f'{V}/seeded/{sid}/meta.json'))
    props = [m['property']] + EXTRA.get(sid, [])
    res = {}
    for p in dict.fromkeys(props):
        r = subprocess.run([f'{V}/tools/run_seeded.sh', p, f'{V}/seeded/{sid}'], capture_output=True, text=True, timeout=4000)
        line = r.stdout.strip().splitlines()[-1] if r.stdout.strip() else r.stderr[-200:]
        if 'PATCH-DOES-NOT-APPLY' in line:
            res[p] = 'PATCH DOES NOT APPLY'; res[p + '_line'] = line[:300]; continue
        viol = 'violations=0' not in line and 'rc=1' in line
        nofind = 'no-failing-input-found' in line
        res[p] = ('VIOLATION (no failing input found)' if nofind else 'VIOLATION with failing input') if viol else 'not detected'
        res[p + '_line'] = line[:300]
    m['last_run'] = res
    m['detected_by'] = [p for p in dict.fromkeys(props) if res[p].startswith('VIOLATION')]
    json.dump(m, open(f'{V}/seeded/{sid}/meta.json', 'w'), indent=1)
    return sid, res

with ThreadPoolExecutor(int(os.environ.get('JOBS', '3'))) as ex:
    for sid, res in ex.map(run, ids):
        print(sid, {k: v for k, v in res.items() if not k.endswith('_line')}, flush=True)
