#!/usr/bin/env python3
"""tools/run_harmless.py <id> ...: run, for each harmless change /verif/harmless/<id>/patch.diff, every check whose
property is anchored in a file the patch touches (plus the owning property), on a private copy; expected rc=0.
Writes the outcome into harmless/<id>/meta.json."""
import json, os, re, subprocess, sys
from concurrent.futures import ThreadPoolExecutor
V = '/verif'
props = [json.loads(l) for l in open(f'{V}/properties.jsonl')]
anch = {p['id']: set(p['anchors']['files']) for p in props}

def checks_for(hid):
    d = f'{V}/harmless/{hid}'
    files = set(re.findall(r'^\+\+\+ b/(\S+)', open(f'{d}/patch.diff').read(), flags=re.M))
    own = hid.split('-')[0]
    ps = [own] + sorted(p for p, a in anch.items() if p != own and a & files)
    only = os.environ.get('ONLY')
    if only:
        ps = [p for p in ps if p in only.split(',')]
    return files, ps

def run(job):
    hid, p = job
    r = subprocess.run([f'{V}/tools/run_seeded.sh', p, f'{V}/harmless/{hid}'], capture_output=True, text=True, timeout=4000)
    line = r.stdout.strip().splitlines()[-1] if r.stdout.strip() else r.stderr[-200:]
    return hid, p, line

jobs = []
meta = {}
for hid in sys.argv[1:]:
    files, ps = checks_for(hid)
    meta[hid] = {'id': hid, 'files': sorted(files), 'results': {}}
    if not os.environ.get('ONLY'):
        meta[hid]['checks_run'] = ps
    jobs += [(hid, p) for p in ps]
with ThreadPoolExecutor(int(os.environ.get('JOBS', '3'))) as ex:
    for hid, p, line in ex.map(run, jobs):
        ok = ' rc=0 violations=0' in line
        meta[hid]['results'][p] = 'quiet (rc=0)' if ok else 'ALARM: ' + line[:300]
        print(hid, p, 'quiet' if ok else 'ALARM ' + line[:200], flush=True)
for hid, m in meta.items():
    f = f'{V}/harmless/{hid}/meta.json'
    old = json.load(open(f)) if os.path.exists(f) else {}
    res = dict(old.get('results', {})); res.update(m.pop('results'))
    old.update(m); old['results'] = res
    json.dump(old, open(f, 'w'), indent=1)
