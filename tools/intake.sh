#!/bin/sh
# tools/intake.sh Cxx <outdir> <first-number> [round]: keep the changes <outdir>/{1,2,3} as seeded/Cxx-N.. and run the check
P="$1"; OUT="$2"; N="$3"; R="${4:-3}"
for k in 1 2 3; do
  [ -f "$OUT/$k/patch.diff" ] || continue
  ID="$P-$N"
  python3 /verif/tools/keep_seeded.py "$ID" "$P" "$OUT/$k" "pending" "(round $R) see README.md" >/dev/null
  python3 - "$ID" "$R" <<'PY'
import json,sys
p='/verif/seeded/%s/meta.json'%sys.argv[1]; m=json.load(open(p)); m['round']=int(sys.argv[2]); json.dump(m,open(p,'w'),indent=1)
PY
  /verif/tools/run_seeded.sh "$P" "/verif/seeded/$ID" 2>&1 | tail -1
  N=$((N+1))
done
