#!/usr/bin/env python3
"""tools/refresh_design.py: regenerate the generated tables of DESIGN.md section 9.2/9.3 (between the
BEGIN/END GENERATED markers) from evidence/, coq/*/Props.v, known_findings.json and seeded/*/meta.json."""
import glob, json, os, re, subprocess
V = '/verif'
tab = subprocess.run([f'{V}/tools/status_table.py'], capture_output=True, text=True).stdout
seeded = [json.load(open(f)) for f in sorted(glob.glob(f'{V}/seeded/*/meta.json'))]
rows = ['| seeded change | property | what it needs to manifest | detected by (last consolidated run) | first version of the check |', '|---|---|---|---|---|']
for m in seeded:
    det = ', '.join(f"./check {p}: {m['last_run'][p]}" for p in m.get('detected_by', [])) if m.get('last_run') else m['caught_by']
    first = 'missed; check strengthened' if m['caught_by'].upper().startswith('MISSED') or 'missed by' in m['caught_by'].lower() else 'caught'
    rows.append(f"| {m['id']} | {m['property']} | {m['needs_to_manifest']} | {det or 'NOT DETECTED'} | {first} |")
def harmless_table():
    hs = [json.load(open(f)) for f in sorted(glob.glob(f'{V}/harmless/*/meta.json'))]
    if not hs:
        return '(none yet)'
    r = ['| harmless change | files touched | checks run | outcome |', '|---|---|---|---|']
    for h in hs:
        res = h.get('results', {})
        bad = {p: v for p, v in res.items() if not v.startswith('quiet')}
        out = 'all quiet' if not bad else '; '.join(f'{p}: {v[:120]}' for p, v in bad.items())
        if h.get('note'):
            out += ' — ' + h['note']
        r.append(f"| {h['id']} | {', '.join(h.get('files', []))} | {', '.join(h.get('checks_run', []))} | {out} |")
    return '\n'.join(r)

# theorem lists
thm = []
for p in sorted(os.listdir(f'{V}/coq')):
    f = f'{V}/coq/{p}/Props.v'
    if not re.fullmatch(r'C\d\d', p) or not os.path.exists(f):
        continue
    src = re.sub(r'\(\*.*?\*\)', '', open(f).read(), flags=re.S)
    names = re.findall(r'^\s*(?:Theorem|Corollary)\s+([A-Za-z0-9_\']+)', src, flags=re.M)
    thm.append(f"* **{p}**: " + ', '.join(f'`{n}`' for n in names))
metas = []
for f in sorted(glob.glob(f'{V}/harness/meta/C*.json')):
    m = json.load(open(f))
    metas.append(f"#### {m['property_id']} — {m['technique']}\n\n{m['level_text']}\n\n*Trusted base / not verified:* {m['level_note']}\n")
block = ('<!-- BEGIN GENERATED (tools/refresh_design.py) -->\n\n### 9.2 What each check proves and covers (generated)\n\n' + tab +
         '\nTheorems per property (statements in `coq/Cxx/Props.v`, each closed by `exact` with `Print Assumptions` beneath):\n\n' + '\n'.join(thm) +
         '\n\n### 9.2a What is claimed per property (from harness/meta/Cxx.json, the source of MANIFEST.json)\n\n' + '\n'.join(metas) +
         '\n### 9.3 Seeded changes: which checks catch which changes (generated)\n\nEach change was written by an independent sub-agent that saw only the property text and a scratch worktree; '
         'kept only after confirming that its demonstration passes on the unmodified tree and fails with the change, and that the existing test suite gives the baseline result. '
         '`tools/run_seeded.sh Cxx seeded/<id>` applies it to a private copy and runs the check; `tools/rerun_seeded.py` re-runs all of them.\n\n' + '\n'.join(rows) +
         '\n\n### 9.4 Harmless changes: false-alarm testing (generated)\n\nIndependent sub-agents, given only the property text and a scratch worktree, wrote behaviour-preserving '
         'refactors of the anchored files (private renames, split/merged helpers, restructured loops, equivalent idioms, reworded messages, changed internal '
         'representations), each with an argument and a differential test against the unmodified tree and the baseline test-suite result. '
         '`tools/run_harmless.py` applies each to a private copy and runs every check anchored in a touched file; the expected outcome is rc=0 with no VIOLATION '
         '(an alarm here is a false alarm to be removed from the check, unless the change turns out not to be harmless).\n\n' + harmless_table() +
         '\n\n<!-- END GENERATED -->\n')
s = open(f'{V}/DESIGN.md').read()
if '<!-- BEGIN GENERATED' in s:
    s = re.sub(r'<!-- BEGIN GENERATED.*?<!-- END GENERATED -->\n', lambda m: block, s, flags=re.S)
else:
    s = s.replace('## Appendix A — formats fixed now', block + '\n## Appendix A — formats fixed now')
# ---- generated findings table (6.1) and fix list (9.1)
kf = json.load(open(f'{V}/known_findings.json'))
ents = kf if isinstance(kf, list) else kf['findings']
frows = ['| id | property | what fails (replayed on the implementation) | disposition |', '|---|---|---|---|']
for e in ents:
    disp = ('**fixed** ' + e.get('commit', '?') + ' (regression probe `' + e.get('probe_fn', '-') + '`)') if e['status'] == 'fixed' else 'known finding; signature: ' + e.get('signature', {}).get('when', '')[:160]
    frows.append('| %s | %s | %s | %s |' % (e['id'], e['property'], e['what'].replace('|', '\\|')[:260], disp.replace('|', '\\|')))
fixes = subprocess.run(['git', '-C', '/repo', 'log', '--author=builder', '--grep=^fix:', '--format=* `%h %s`'], capture_output=True, text=True).stdout.strip()
nfix = len(fixes.splitlines())
b61 = ('<!-- BEGIN FINDINGS -->\n\nAll findings, from `known_findings.json` (%d fixed, %d known):\n\n' % (sum(e['status'] == 'fixed' for e in ents), sum(e['status'] == 'known' for e in ents))
       + '\n'.join(frows) + '\n\n<!-- END FINDINGS -->\n')
b91 = '<!-- BEGIN FIXLIST -->\n\nThe %d `fix:` commits in /repo, newest first:\n\n%s\n\n<!-- END FIXLIST -->\n' % (nfix, fixes)
arows = ['| property | theorems | closed under the global context | theorems depending on axioms (all declared by the Coq standard library) |', '|---|---|---|---|']
for f in sorted(glob.glob(f'{V}/evidence/C*.json')):
    ev = json.load(open(f))
    th = ev.get('coverage', {}).get('theorems', [])
    withax = [t for t in th if t.get('axioms')]
    allax = sorted({a for t in withax for a in t['axioms']})
    arows.append('| %s | %d | %d | %s |' % (ev['property_id'], len(th), len(th) - len(withax),
                 ('%d: %s — axioms: %s' % (len(withax), ', '.join('`%s`' % t['name'] for t in withax), ', '.join('`%s`' % a for a in allax))) if withax else 'none'))
b7 = ('<!-- BEGIN AXIOMS -->\n\nAs built, per property (from the `Print Assumptions` output captured into `evidence/Cxx.json` on every run):\n\n'
      + '\n'.join(arows) + '\n\n<!-- END AXIOMS -->\n')
for tag, blk in (('FINDINGS', b61), ('FIXLIST', b91), ('AXIOMS', b7)):
    if f'<!-- BEGIN {tag} -->' in s:
        s = re.sub(r'<!-- BEGIN %s -->.*?<!-- END %s -->\n' % (tag, tag), lambda m: blk, s, flags=re.S)
    else:
        print('marker missing:', tag)
open(f'{V}/DESIGN.md', 'w').write(s)
print('DESIGN.md refreshed:', len(seeded), 'seeded changes')
