#!/usr/bin/env python3
"""tools/mutant_prompt.py Cxx [n] -> prompt text for an independent sub-agent that is given only
the property text and a scratch worktree (nothing from /verif)."""
import json
import sys

pid = sys.argv[1]
n = int(sys.argv[2]) if len(sys.argv) > 2 else 3
p = [json.loads(l) for l in open('/verif/properties.jsonl') if json.loads(l)['id'] == pid][0]
low = pid.lower()
pref = sys.argv[3] if len(sys.argv) > 3 else 'mut'
wt = f'/tmp/{pref}_{low}'
base = open('/verif/tools/baseline_failures.txt').read().strip()
print(f"""You are helping test a verification effort for the Python library nibabel. You have a scratch git worktree of the library at {wt} (run code with `cd {wt} && PYTHONPATH={wt} /venv/bin/python ...`; check that `import nibabel; nibabel.__file__` points into {wt}). Work ONLY inside {wt} and {wt}_out (create it). Do not look at or touch /verif or /repo.

Here is a semantic property that the library is supposed to satisfy:

TITLE: {p['title']}
STATEMENT: {p['statement']}
QUANTIFIER: {p['quantifier']['text']}
ANCHORS (where the behaviour lives): {', '.join(p['anchors']['files'])}

YOUR TASK: produce {n} different, independent changes to the library source (each a small realistic edit of the kind a developer could make by mistake or as a well-meant "optimisation"/refactor) such that for each change:
 (a) the library still imports and the EXISTING test suite still passes: run the test modules that cover the files you touch while iterating, and before you finalise a change run the whole suite once: `cd {wt} && PYTHONPATH={wt} /venv/bin/python -m pytest -q -p no:cacheprovider --timeout=900 nibabel 2>&1 | grep -E "^(FAILED|ERROR)|passed|failed"` (about 2 minutes). The set of failing tests must be exactly the baseline set, which fails for environmental reasons on the unmodified tree too:
{base}
 (b) the property above is violated on some input / history / schedule;
 (c) the violation needs something SPECIFIC to manifest — a particular interleaving, a crash or fault at a particular point, a multi-step sequence of operations, an unusual input or combination of parameters, or two cooperating sites that each look fine alone — NOT something ordinary use or the obvious tests would expose at once. Prefer subtle over blatant; make the changes different in kind and location, and spread them over different clauses of the property statement.
For each change write to {wt}_out/<k>/ (k = 1..{n}): `patch.diff` (output of `git diff` in the worktree), `demo.py` (a small standalone program, run as `PYTHONPATH=<tree> /venv/bin/python demo.py`, that exits 0 when the property holds and exits 1 printing what differs when it is violated; it must pass on the unmodified worktree and fail with the change applied — verify both), and `README.md` (which clause of the property breaks, what is needed for it to manifest, which tests you ran and their result). After finishing one change, restore the worktree with `git -C {wt} checkout -- .` before starting the next. NEVER use `git stash` (the stash is shared between all worktrees of the repository and other agents work in sibling worktrees): save a change with `git diff > file` and restore it with `git apply`. Leave the worktree clean at the end. Report briefly what the changes are.""")
