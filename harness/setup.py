"""make -C /verif setup: full .vo build of every Coq file and every extracted model runner."""
import os
import sys
import time

sys.path.insert(0, os.path.dirname(os.path.abspath(__file__)))
import common  # noqa: E402


def main():
    t0 = time.time()
    failures = []
    with common.BuildLock():
        for mod in sorted(os.listdir(os.path.join(common.VERIF, 'harness'))):
            pass
        # tables first (they are imported by some models)
        try:
            import gen_tables
            gen_tables.generate()
        except ImportError:
            pass
        except Exception as e:  # noqa
            failures.append(f'gen_tables: {e!r}')
        srcs = common.write_coqproject()
        rc, log = common.make_targets([s + 'o' for s in srcs])
        if rc:
            failures.append('coq build: ' + log[-3000:])
        props = sorted(d for d in os.listdir(common.COQ) if os.path.isdir(os.path.join(common.COQ, d))
                       and os.path.exists(os.path.join(common.COQ, d, 'Extract.v')))
        from concurrent.futures import ThreadPoolExecutor
        with ThreadPoolExecutor(8) as ex:
            for p, (ok, blog) in zip(props, ex.map(common.build_binary, props)):
                if not ok:
                    failures.append(f'{p}: {blog[-1500:]}')
    print(f'setup: {len(srcs)} Coq files, {len(props)} model runners, {time.time() - t0:.0f}s')
    # a failure only counts when it concerns a property claimed in MANIFEST.json (or Base);
    # work in progress for an unclaimed property must not break the claimed checks
    import json
    try:
        claimed = {c['property_id'] for c in json.load(open(os.path.join(common.VERIF, 'MANIFEST.json')))['checks']}
    except Exception:
        claimed = set()
    fatal = []
    for f in failures:
        hit = [p for p in claimed if (p + '/') in f or f.startswith(p + ':')] or (['Base'] if 'Base/' in f else [])
        unclaimed_only = not hit and any((d + '/') in f for d in props if d not in claimed)
        print('SETUP-FAILURE' if not unclaimed_only else 'SETUP-WARNING (unclaimed property)', f[:3000])
        if not unclaimed_only:
            fatal.append(f)
    # every claimed property must have its .vo files and runner
    for pid in sorted(claimed):
        d = os.path.join(common.COQ, pid)
        if not os.path.isdir(d):
            fatal.append(f'{pid}: no coq directory')
            continue
        for v in common.prop_vfiles(pid):
            if v != 'Extract.v' and not os.path.exists(os.path.join(d, v + 'o')):
                fatal.append(f'{pid}/{v} not compiled')
                print('SETUP-FAILURE', f'{pid}/{v} not compiled')
    return 1 if fatal else 0


if __name__ == '__main__':
    sys.exit(main())
