"""make -C /verif setup: full .vo build of every Coq file and every extracted model runner."""
import os
import sys
import time

sys.path.insert(0, os.path.dirname(os.path.abspath(__file__)))
import common  # noqa: E402


def main():
    t0 = time.time()
    failures = []
    with common.BuildLock():
        for mod in sorted(os.listdir(os.path.join(common.VERIF, 'harness'))):
            pass
        # tables first (they are imported by some models)
        try:
            import gen_tables
            gen_tables.generate()
        except ImportError:
            pass
        except Exception as e:  # noqa
            failures.append(f'gen_tables: {e!r}')
        srcs = common.write_coqproject()
        rc, log = common.make_targets([s + 'o' for s in srcs])
        missing = [s for s in srcs if not os.path.exists(os.path.join(common.COQ, s + 'o'))]
        props = sorted(d for d in os.listdir(common.COQ) if os.path.isdir(os.path.join(common.COQ, d))
                       and os.path.exists(os.path.join(common.COQ, d, 'Extract.v')))
        from concurrent.futures import ThreadPoolExecutor
        binfail = {}
        with ThreadPoolExecutor(8) as ex:
            for p, (ok, blog) in zip(props, ex.map(common.build_binary, props)):
                if not ok:
                    binfail[p] = blog[-1500:]
    print(f'setup: {len(srcs)} Coq files ({len(missing)} not compiled), {len(props)} model runners '
          f'({len(binfail)} failed), {time.time() - t0:.0f}s')
    # a failure only counts when it concerns Base or a property claimed in MANIFEST.json; work in
    # progress for an unclaimed property must not break the claimed checks
    import json
    import re
    try:
        claimed = {c['property_id'] for c in json.load(open(os.path.join(common.VERIF, 'MANIFEST.json')))['checks']}
    except Exception:
        claimed = set()
    fatal = list(failures)
    for m in missing:
        d = m.split('/')[0]
        err = re.search(r'File "\./%s".*?(?=\nmake|\Z)' % re.escape(m), log, flags=re.S)
        msg = f'{m} not compiled: ' + (err.group(0)[:600] if err else '(dependency failed)')
        if d == 'Base' or d in claimed:
            print('SETUP-FAILURE', msg)
            fatal.append(msg)
        else:
            print('SETUP-WARNING (unclaimed property)', msg)
    for p, blog in binfail.items():
        if p in claimed:
            print('SETUP-FAILURE', p, blog)
            fatal.append(p)
        else:
            print('SETUP-WARNING (unclaimed property)', p, blog[-300:])
    return 1 if fatal else 0


if __name__ == '__main__':
    sys.exit(main())
