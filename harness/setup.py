"""make -C /verif setup: full .vo build of every Coq file and every extracted model runner."""
import os
import sys
import time

sys.path.insert(0, os.path.dirname(os.path.abspath(__file__)))
import common  # noqa: E402


def main():
    t0 = time.time()
    failures = []
    with common.BuildLock():
        for mod in sorted(os.listdir(os.path.join(common.VERIF, 'harness'))):
            pass
        # tables first (they are imported by some models)
        try:
            import gen_tables
            gen_tables.generate()
        except ImportError:
            pass
        except Exception as e:  # noqa
            failures.append(f'gen_tables: {e!r}')
        srcs = common.write_coqproject()
        rc, log = common.make_targets([s + 'o' for s in srcs])
        if rc:
            failures.append('coq build: ' + log[-3000:])
        props = sorted(d for d in os.listdir(common.COQ) if os.path.isdir(os.path.join(common.COQ, d))
                       and os.path.exists(os.path.join(common.COQ, d, 'Extract.v')))
        from concurrent.futures import ThreadPoolExecutor
        with ThreadPoolExecutor(8) as ex:
            for p, (ok, blog) in zip(props, ex.map(common.build_binary, props)):
                if not ok:
                    failures.append(f'{p}: {blog[-1500:]}')
    print(f'setup: {len(srcs)} Coq files, {len(props)} model runners, {time.time() - t0:.0f}s')
    for f in failures:
        print('SETUP-FAILURE', f)
    return 1 if failures else 0


if __name__ == '__main__':
    sys.exit(main())
