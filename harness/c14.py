"""C14 — concurrent reads through a shared file handle never mix up data.

Model: coq/C14/Model.v (mstep programs, segs_prog / whole_prog / outer_locked / strip_lock,
well_locked, solo, the interleaving machine step/run/run_trace).  Theorems: coq/C14/Props.v.

Case lines sent to bin/modelrun_c14 (see coq/C14/driver.ml).  A program is a comma-separated
list of calls A R S<o> E T r<n> i<n> ("-" = empty):
  segs <nbytes> [o1,n1,...] | whole <probe> <offset> <nbytes> <ri> | outer <prog> | strip <prog>
  wl <prog> | probeok <prog> | solo <filehex> <p0> <prog>
  run <filehex> <p0> [sched] <prog>...  -> eff bits, final pos/owner/depth, per-thread records

The implementation is observed from outside only: the proxy's file object is a recording
BytesIO subclass (or a recording delegate placed in proxy._opener.fobj for keep_file_open
proxies) and proxy._lock is replaced after construction by a recording wrapper around a real
threading.RLock.  (a) single-threaded: the recorded call list of a read must equal the
model's program for the same (shape, index); (b) scheduled: worker threads are gated at
every wrapped call and a scheduler decides which thread makes its next call; the recorded
schedule is replayed on the extracted model and both are compared with the single-threaded
results.
"""
import io
import itertools
import json
import os
import queue
import threading
import time
import warnings

import numpy as np

from common import Check, ensure_impl_path, run_model, vm_crosscheck

PROP = 'C14'
GATE_TIMEOUT = 6.0
MAX_REPLAYS_PER_KIND = 6


def report(chk, kind, **kw):
    """chk.violation with a cap on the number of replay files per (kind, part) — all are counted."""
    case = kw.get('case')
    part = 'schedule' if isinstance(case, dict) and 'schedule' in case else 'other'
    pred = kw.get('predicate') or ''
    part += ':' + ('wrong-data' if 'different from' in pred else 'lock-not-shared' if 'but not the lock' in pred else 'raised' if ' raised ' in pred else
                   'unlocked-call' if 'without holding' in pred else 'other')
    cnt = chk.extra.setdefault('violations_by_kind', {})
    key = f'{kind}/{part}'
    cnt[key] = cnt.get(key, 0) + 1
    if cnt[key] <= MAX_REPLAYS_PER_KIND:
        chk.violation(kind, **kw)


# ------------------------------------------------------------------ instrumentation
class SchedTimeout(Exception):
    pass


class Recorder:
    """Per-thread event lists + (optionally) the gates of the deterministic scheduler."""

    def __init__(self):
        self.local = threading.local()
        self.reset(0)

    def reset(self, nthreads, scheduled=False):
        self.n = nthreads
        self.scheduled = scheduled
        self.abort = False
        self.q = queue.Queue()
        self.go = [threading.Semaphore(0) for _ in range(nthreads)]
        self.tokens = {i: [] for i in range(nthreads)}
        self.unheld = {i: [] for i in range(nthreads)}
        self.data = {i: [] for i in range(nthreads)}
        self.tokens[None], self.unheld[None], self.data[None] = [], [], []
        self.seq = []                 # global order of completed calls: (thread, token)
        self.jitter = None

    def tid(self):
        return getattr(self.local, 'tid', None)

    def gated(self):
        return self.scheduled and self.tid() is not None and not self.abort

    def gate(self):
        if self.gated():
            t = self.tid()
            self.q.put(('gate', t))
            if not self.go[t].acquire(timeout=GATE_TIMEOUT):
                self.abort = True
                raise SchedTimeout(f'thread {t} never granted')
        elif self.jitter is not None and self.tid() is not None:
            time.sleep(self.jitter())

    def after(self, blocked=False):
        if self.gated():
            self.q.put(('done', self.tid(), blocked))

    def event(self, tok, held=None, data=None):
        t = self.tid()
        self.tokens[t].append(tok)
        self.seq.append((t, tok))
        if held is False:
            self.unheld[t].append(tok)
        if data is not None:
            self.data[t].append(bytes(data))


class WLock:
    """Recording wrapper around a real RLock.  null=True: no lock at all (canary)."""

    def __init__(self, rec, null=False, real=None):
        self.rec = rec
        self.real = real if real is not None else threading.RLock()
        self.null = null
        self.owner = None
        self.depth = 0

    def held(self):
        return self.owner == threading.get_ident() and self.depth > 0

    def acquire(self, blocking=True, timeout=-1):
        if self.null:
            return True
        rec = self.rec
        while True:
            rec.gate()
            ok = self.real.acquire(False) if rec.gated() else self.real.acquire()
            if ok:
                self.owner = threading.get_ident()
                self.depth += 1
                rec.event('A')
                rec.after(False)
                return True
            rec.after(True)

    def release(self):
        if self.null:
            return
        rec = self.rec
        rec.gate()
        rec.event('R')
        self.depth -= 1
        if self.depth == 0:
            self.owner = None
        try:
            self.real.release()
        finally:
            rec.after(False)

    def __enter__(self):
        self.acquire()
        return self

    def __exit__(self, *a):
        self.release()
        return False


# ---- the only places where private proxy state is reached.  The lock and the persisted opener ARE what the property is
# about and have no public accessor; they are looked up under several plausible names and, failing that, by what they
# are (a lock-like object / an Opener instance in the instance dict).  When nothing is found the scenario is skipped
# and recorded as degraded (the behavioural observations — results, recorded file events — still run elsewhere).
LOCK_NAMES = ('_lock', 'lock', '_rlock', '_file_lock', '_read_lock', '_io_lock', '_fileobj_lock')
OPENER_NAMES = ('_opener', 'opener', '_image_opener', '_persistent_opener', '_fileobj')


def _locklike(v):
    return hasattr(v, 'acquire') and hasattr(v, 'release') and hasattr(v, '__enter__') and hasattr(v, '__exit__')


def lock_attr(p):
    for n in LOCK_NAMES:
        try:
            v = getattr(p, n)
        except Exception:  # noqa
            continue
        if _locklike(v):
            return n
    for n, v in list(getattr(p, '__dict__', {}).items()):
        if _locklike(v):
            return n
    return None


def get_lock(p):
    n = lock_attr(p)
    if n is None:
        raise SkipScenario("the proxy's lock is not reachable under any known name")
    return getattr(p, n)


def set_lock(p, lk):
    n = lock_attr(p)
    if n is None:
        raise SkipScenario("the proxy's lock is not reachable under any known name")
    setattr(p, n, lk)


def get_opener(p):
    """The opener a path-based proxy keeps for its lifetime, or None."""
    from nibabel.openers import Opener
    for n in OPENER_NAMES:
        v = getattr(p, n, None)
        if isinstance(v, Opener):
            return v
    for v in list(getattr(p, '__dict__', {}).values()):
        if isinstance(v, Opener):
            return v
    return None


def patch_rlock_factory(factory):
    """Make the RLock constructor as seen from nibabel.arrayproxy a factory; returns an undo function.  Found by what it
    is, not by its name: any module global bound to threading.RLock, or the threading module itself (replaced by a shim)."""
    import types
    import nibabel.arrayproxy as _ap
    real = threading.RLock
    saved = {}
    for n, v in list(vars(_ap).items()):
        if v is real:
            saved[n] = v
            setattr(_ap, n, factory)
        elif v is threading:
            shim = types.ModuleType('threading_shim')
            shim.__dict__.update(vars(threading))
            shim.RLock = factory
            saved[n] = v
            setattr(_ap, n, shim)
    if not saved:
        raise SkipScenario('nibabel.arrayproxy has no visible reference to threading.RLock: lock creation cannot be observed')

    def undo():
        for n, v in saved.items():
            setattr(_ap, n, v)
    return undo


class SkipScenario(Exception):
    pass


class AnyLock:
    """'is the calling thread inside ANY of the wrapped locks' — used when the harness does not know (and must not
    ask) which lock object a fresh proxy uses."""
    null = False

    def __init__(self, locks):
        self.locks = locks

    def held(self):
        if not self.locks:
            return None               # no lock creation was observed: unknown, not 'unheld'
        return any(l.held() for l in self.locks)


def overlapping_sections(seq):
    """Mutual exclusion read off the recorded events (not off lock identities): a file call made by one thread while
    another thread is between an acquire and its release.  Returns the first offending (thread, call, other) or None."""
    depth = {}
    for t, tok in seq:
        if t is None:
            continue
        if tok == 'A':
            depth[t] = depth.get(t, 0) + 1
        elif tok == 'R':
            depth[t] = depth.get(t, 0) - 1
        elif tok != 'N':
            for u, d in depth.items():
                if u != t and d > 0:
                    return (t, tok, u)
    return None


def _seek_tok(o, w):
    if w == 0:
        return f'S{int(o)}'
    if w == 2 and o == 0:
        return 'E'
    return f'X{int(o)}/{int(w)}'


class WFile(io.BytesIO):
    """Recording in-memory file; `wlock` is the lock whose possession is noted per call."""
    rec = None
    wlock = None

    def _held(self):
        return self.wlock.held() if self.wlock is not None and not self.wlock.null else None

    def seek(self, o, w=0):
        self.rec.gate()
        try:
            self.rec.event(_seek_tok(o, w), held=self._held())
            return super().seek(o, w)
        finally:
            self.rec.after()

    def tell(self):
        self.rec.gate()
        try:
            self.rec.event('T', held=self._held())
            return super().tell()
        finally:
            self.rec.after()

    def read(self, n=-1):
        self.rec.gate()
        try:
            r = super().read(n)
            self.rec.event(f'r{-1 if n is None else int(n)}', held=self._held(), data=r)
            return r
        finally:
            self.rec.after()

    def readinto(self, b):
        self.rec.gate()
        try:
            k = super().readinto(b)
            self.rec.event(f'i{len(b)}', held=self._held(), data=bytes(b[:k]))
            return k
        finally:
            self.rec.after()


class WDelegate:
    """Recording delegate around a real file object (placed in proxy._opener.fobj); also used as a hand-written
    duck-typed handle: it is NOT an io.IOBase, it just has read / readinto / seek / tell / write."""

    def write(self, b):
        raise OSError('read-only test handle')

    def __init__(self, inner, rec, wlock):
        self.inner, self.rec, self.wlock = inner, rec, wlock

    def _held(self):
        return self.wlock.held() if not self.wlock.null else None

    @property
    def closed(self):
        return self.inner.closed

    def close(self):
        return self.inner.close()

    def seek(self, o, w=0):
        self.rec.gate()
        try:
            self.rec.event(_seek_tok(o, w), held=self._held())
            return self.inner.seek(o, w)
        finally:
            self.rec.after()

    def tell(self):
        self.rec.gate()
        try:
            self.rec.event('T', held=self._held())
            return self.inner.tell()
        finally:
            self.rec.after()

    def read(self, n=-1):
        self.rec.gate()
        try:
            r = self.inner.read(n)
            self.rec.event(f'r{-1 if n is None else int(n)}', held=self._held(), data=r)
            return r
        finally:
            self.rec.after()

    def readinto(self, b):
        self.rec.gate()
        try:
            k = self.inner.readinto(b)
            self.rec.event(f'i{len(b)}', held=self._held(), data=bytes(b[:k]))
            return k
        finally:
            self.rec.after()


# ------------------------------------------------------------------ indices and programs
def ix_to_json(ix):
    if ix == 'W':
        return 'W'
    out = []
    for s in ix:
        if s is Ellipsis:
            out.append('E')
        elif s is None:
            out.append('N')
        elif isinstance(s, slice):
            out.append(['s', s.start, s.stop, s.step])
        else:
            out.append(int(s))
    return out


def ix_from_json(j):
    if j == 'W':
        return 'W'
    out = []
    for s in j:
        if s == 'E':
            out.append(Ellipsis)
        elif s == 'N':
            out.append(None)
        elif isinstance(s, list):
            out.append(slice(s[1], s[2], s[3]))
        else:
            out.append(int(s))
    return tuple(out)


def is_whole(ix, shape):
    """The branch of ArrayProxy._get_unscaled taken for this index (harness twin of
    `canonical_slicers(ix) == canonical_slicers(())`): whole-array read iff every axis is
    sliced in full — slice(None) or slice(None|0, dim_len, None|1) — with no int / newaxis."""
    if ix == 'W':
        return True
    if any(s is None for s in ix):
        return False
    n_real = sum(1 for s in ix if s is not Ellipsis)
    full = []
    for s in ix:
        if s is Ellipsis:
            full.extend([slice(None)] * (len(shape) - n_real))
        else:
            full.append(s)
    full.extend([slice(None)] * (len(shape) - len(full)))
    for s, n in zip(full, shape):
        if not isinstance(s, slice):
            return False
        if s == slice(None):
            continue
        if not (s.stop == n and s.start in (None, 0) and s.step in (None, 1)):
            return False
    return True


def gen_index(rng, shape):
    out = []
    for n in shape:
        r = rng.random()
        if r < 0.30:
            out.append(slice(None))
        elif r < 0.50 and n > 0:
            out.append(rng.randrange(-n, n))
        elif r < 0.65:
            out.append(slice(None, None, rng.choice([2, 3, -1, -2])))
        elif r < 0.85:
            a, b = sorted((rng.randrange(0, n + 1), rng.randrange(0, n + 1)))
            out.append(slice(a, b, rng.choice([None, 1, 2])))
        elif r < 0.92:
            out.append(slice(rng.randrange(-n - 2, n + 3), rng.randrange(-n - 2, n + 3), rng.choice([None, -1, 2])))
        else:
            out.append(slice(0, n, rng.choice([None, 1])))
    k = rng.random()
    if k < 0.15:
        cut = rng.randrange(0, len(out) + 1)
        out = out[:cut]
    elif k < 0.30:
        i, j = sorted((rng.randrange(0, len(out) + 1), rng.randrange(0, len(out) + 1)))
        out = out[:i] + [Ellipsis] + out[j:]
    if rng.random() < 0.08:
        out.insert(rng.randrange(0, len(out) + 1), None)
    return tuple(out)


class FileSpec:
    """One array on disk: header padding + array bytes; slope/inter for the proxy."""

    def __init__(self, shape, dtype, offset, order='F', slope=1.0, inter=0.0, fill=0):
        self.shape, self.dtype, self.offset, self.order = tuple(shape), np.dtype(dtype), offset, order
        self.slope, self.inter = slope, inter
        n = int(np.prod(shape))
        base = (np.arange(n, dtype=np.int64) * 7 + fill) % 251
        self.arr = base.astype(self.dtype).reshape(shape, order=order)
        self.bytes = bytes((i * 13 + 5) % 256 for i in range(offset)) + self.arr.tobytes(order)

    def par(self):
        return (self.shape, self.dtype, self.offset, self.slope, self.inter)

    def desc(self):
        return {'shape': list(self.shape), 'dtype': self.dtype.str, 'offset': self.offset, 'order': self.order,
                'slope': self.slope, 'inter': self.inter}

    @staticmethod
    def from_desc(d):
        return FileSpec(d['shape'], d['dtype'], d['offset'], d['order'], d['slope'], d['inter'])


def proxy_order(fs, name):
    """Memory order a proxy of this kind reads with (ArrayProxy.copy() does not pass `order`
    on, so copies of a C-order proxy read in the class default order — outside C14, recorded
    as an observation; the programs are computed for the order the proxy really uses)."""
    from nibabel.arrayproxy import ArrayProxy
    p = ArrayProxy(io.BytesIO(b''), fs.par(), order=fs.order)
    for _ in range({'orig': 0, 'copy': 1, 'copy2': 2}[name]):
        p = p.copy()
    return p.order


def read_request(fs, ix, mmap, probe, outer, order=None):
    """Model request lines (op + args) whose outputs concatenate to the program of one read."""
    from nibabel.fileslice import calc_slicedefs
    order = order or fs.order
    if is_whole(ix, fs.shape):
        nbytes = int(np.prod(fs.shape)) * fs.dtype.itemsize if len(fs.shape) else 0
        line = f"whole {probe if mmap else '-'} {fs.offset} {nbytes} 1"
    else:
        segs, sshape, _ = calc_slicedefs(ix, fs.shape, fs.dtype.itemsize, fs.offset, order)
        nbytes = int(np.prod(sshape, dtype=object)) * fs.dtype.itemsize if len(sshape) else fs.dtype.itemsize
        flat = ','.join(f'{int(o)},{int(n)}' for o, n in segs)
        line = f'segs {nbytes} [{flat}]'
    return line, outer


def do_read(proxy, ix):
    with warnings.catch_warnings():
        warnings.simplefilter('ignore')
        return np.asarray(proxy) if ix == 'W' else proxy[ix]


def arr_sig(a):
    a = np.asarray(a)
    return (a.shape, a.dtype.str, a.tobytes())


def join_progs(ps):
    toks = [p for p in ps if p != '-']
    return ','.join(toks) if toks else '-'


# ------------------------------------------------------------------ a scenario on one shared handle
# path-based proxies with a persisted opener: kind -> (gzip file?, keep_file_open argument).  For a .gz path with
# indexed_gzip installed the ImageOpener is persisted (one IndexedGzipFile for the proxy's lifetime) whatever
# keep_file_open says — what nib.load('x.nii.gz').dataobj gives
PATH_KINDS = {'kfo': (False, True), 'kfo_gz': (True, True), 'gz_def': (True, None), 'gz_false': (True, False)}


class Scenario:
    """Threads reading through proxies that share one file handle.
    threads: list of dict(proxy='orig'|'copy'|'copy2', reads=[ix...], outer=bool)
    kind: 'handle' (recording BytesIO passed as file_like) | 'kfo' | 'kfo_gz' (path +
    keep_file_open=True, recording delegate in _opener.fobj); mmap per proxy name."""

    def __init__(self, fs, threads, kind='handle', mmap=None, nolock=False, p0=3, name='', flavour='bytesio'):
        self.fs, self.threads, self.kind, self.nolock, self.p0, self.name = fs, threads, kind, nolock, p0, name
        # what the open handle IS (kind 'handle'): 'bytesio' (io.IOBase), 'duck' (hand-written class with read/seek/tell,
        # not an io.IOBase), 'tempfile' (tempfile.NamedTemporaryFile wrapper), 'opener' (an ImageOpener instance)
        self.flavour = flavour
        self.big = len(fs.bytes) > 200000       # too large to ship to the model runner as hex
        self.mmap = {'orig': True, 'copy': True, 'copy2': True}
        if mmap:
            self.mmap.update(mmap)
        if kind not in ('handle', 'fresh'):
            self.mmap = {'orig': False, 'copy': False, 'copy2': False}
        if flavour == 'tempfile':
            self.mmap['orig'] = False            # a real file would be memory-mapped: no file position involved
        self.mmap['copy'] = self.mmap['copy2'] = self.mmap['orig']      # copy() passes the original's setting on

    def desc(self):
        return {'file': self.fs.desc(), 'kind': self.kind, 'flavour': self.flavour, 'mmap': self.mmap, 'nolock': self.nolock, 'p0': self.p0,
                'threads': [{'proxy': t['proxy'], 'outer': t.get('outer', False),
                             'reads': [ix_to_json(ix) for ix in t['reads']]} for t in self.threads]}

    @staticmethod
    def from_desc(d):
        return Scenario(FileSpec.from_desc(d['file']),
                        [{'proxy': t['proxy'], 'outer': t['outer'], 'reads': [ix_from_json(j) for j in t['reads']]}
                         for t in d['threads']], kind=d['kind'], mmap=d['mmap'], nolock=d['nolock'], p0=d['p0'],
                        flavour=d.get('flavour', 'bytesio'))

    def build(self, rec, workdir):
        """Fresh handle, lock and proxies."""
        from nibabel.arrayproxy import ArrayProxy
        fs = self.fs
        self.wlock = WLock(rec, null=self.nolock)
        self.close = lambda: None
        if self.kind == 'fresh':
            # A proxy nobody has touched: the harness neither replaces nor looks at proxy._lock.  Locks are observed
            # by making `RLock` as seen from nibabel.arrayproxy a factory of recording wrappers around real RLocks;
            # a creation made by a worker thread is itself a scheduling point (event N).
            self.factory_locks = []
            real_rlock = threading.RLock

            def factory():
                rec.gate()
                try:
                    lk = WLock(rec, real=real_rlock())
                    self.factory_locks.append(lk)
                    if rec.tid() is not None:
                        rec.event('N')
                    return lk
                finally:
                    rec.after()
            self.close = patch_rlock_factory(factory)
            f = WFile(fs.bytes)
            f.rec, f.wlock = rec, AnyLock(self.factory_locks)
            self.fobj = f
            orig = ArrayProxy(f, fs.par(), mmap=self.mmap['orig'], order=fs.order)
            self.proxies = {'orig': orig}
            return self
        if self.kind == 'handle':
            if self.flavour == 'bytesio':
                f = WFile(fs.bytes)
                f.rec, f.wlock = rec, self.wlock
                handle = f
                self.tell_raw = lambda: io.BytesIO.tell(f)
            elif self.flavour == 'duck':
                inner = io.BytesIO(fs.bytes)
                handle = WDelegate(inner, rec, self.wlock)
                self.tell_raw = inner.tell
            elif self.flavour == 'opener':
                from nibabel.openers import ImageOpener
                f = WFile(fs.bytes)
                f.rec, f.wlock = rec, self.wlock
                handle = ImageOpener(f)
                self.tell_raw = lambda: io.BytesIO.tell(f)
            elif self.flavour == 'tempfile':
                import tempfile
                tf = tempfile.NamedTemporaryFile(dir=workdir)
                tf.write(fs.bytes)
                tf.flush()
                raw = tf.file
                d = WDelegate(raw, rec, self.wlock)
                # instance attributes of the wrapper take precedence over its delegation: the object handed to
                # nibabel stays a tempfile._TemporaryFileWrapper, its file calls are recorded and gated
                tf.seek, tf.tell, tf.read, tf.readinto = d.seek, d.tell, d.read, d.readinto
                handle = tf
                self.tell_raw = raw.tell
                self.close = tf.close
            else:
                raise ValueError(self.flavour)
            self.fobj = handle
            orig = ArrayProxy(handle, fs.par(), mmap=self.mmap['orig'], order=fs.order)
            set_lock(orig, self.wlock)
        else:
            path = os.path.join(workdir, 'kfo_%s_%d.dat%s' % (fs.dtype.str[1:], fs.offset,
                                                               '.gz' if PATH_KINDS[self.kind][0] else ''))
            if not os.path.exists(path):
                if PATH_KINDS[self.kind][0]:
                    import gzip
                    with gzip.open(path, 'wb') as g:
                        g.write(fs.bytes)
                else:
                    with open(path, 'wb') as g:
                        g.write(fs.bytes)
            kfo_arg = PATH_KINDS[self.kind][1]
            orig = ArrayProxy(path, fs.par(), mmap=False, order=fs.order, **({} if kfo_arg is None else {'keep_file_open': kfo_arg}))
            set_lock(orig, self.wlock)
            first = (0,) * len(fs.shape)
            do_read(orig, first)                 # lazily creates the persistent ImageOpener
            opener = get_opener(orig)
            if opener is None:
                raise SkipScenario(f'{self.kind}: no persisted opener reachable on this proxy')
            self.fobj = WDelegate(opener.fobj, rec, self.wlock)
            opener.fobj = self.fobj
            self.closers = [opener.close_if_mine]
            self.close = lambda: [c() for c in self.closers]
        self.proxies = {'orig': orig}
        used = {t['proxy'] for t in self.threads}
        if self.kind == 'handle' or used - {'orig'}:
            # copies are taken AFTER the original has done a read (kfo: after its opener exists)
            c = orig.copy()                       # (copies inherit the original's mmap setting)
            self._instrument(c, rec)
            c2 = c.copy()
            self._instrument(c2, rec)
            self.proxies.update(copy=c, copy2=c2)
            if self.nolock:                       # canary: every proxy without a lock
                for p in self.proxies.values():
                    set_lock(p, self.wlock)
        return self

    def _instrument(self, p, rec):
        """Wrap whatever lock / file object nibabel gave this proxy — WITHOUT changing what is
        shared with what: a lock or file object that is already a wrapper stays as it is."""
        lk = get_lock(p)
        if not isinstance(lk, WLock):
            lk = WLock(rec, real=lk)
            set_lock(p, lk)
        if self.kind != 'handle':
            do_read(p, (0,) * len(self.fs.shape))      # its own first read (creates an opener if it has none)
            op = get_opener(p)
            if op is None:
                raise SkipScenario(f'{self.kind}: no persisted opener reachable on a copy')
            if not isinstance(op.fobj, WDelegate):
                op.fobj = WDelegate(op.fobj, rec, lk)
                self.closers.append(op.close_if_mine)

    def handle_of(self, name):
        p = self.proxies[name]
        return self.fobj if self.kind in ('handle', 'fresh') else get_opener(p).fobj

    def sharing(self):
        """groups of threads by underlying file object, and pairs of proxies that share a file
        object but not the lock"""
        if self.kind == 'fresh':                 # do not look at proxy._lock
            return [list(range(len(self.threads)))], []
        groups = {}
        for i, t in enumerate(self.threads):
            groups.setdefault(id(self.handle_of(t['proxy'])), []).append(i)
        bad = []
        names = sorted(self.proxies)
        for a in names:
            for b in names:
                if a < b and self.handle_of(a) is self.handle_of(b) and get_lock(self.proxies[a]) is not get_lock(self.proxies[b]):
                    bad.append((a, b))
        return list(groups.values()), bad

    def model_requests(self, probe):
        """[(thread, [(line, outer)...])]"""
        out = []
        for t in self.threads:
            out.append([read_request(self.fs, ix, self.mmap[t['proxy']], probe, False,
                                     proxy_order(self.fs, t['proxy'])) for ix in t['reads']])
        return out


class Runner:
    """Runs the threads of a scenario under a schedule policy; returns the recorded run."""

    def __init__(self, rec, workdir):
        self.rec, self.workdir = rec, workdir

    def single(self, sc):
        """Single-threaded results of every read of every thread (fresh handle each time)."""
        rec = self.rec
        rec.reset(len(sc.threads), scheduled=False)
        sc.build(rec, self.workdir)
        res = []
        try:
            for t in sc.threads:
                p = sc.proxies[t['proxy']]
                res.append([arr_sig(do_read(p, ix)) for ix in t['reads']])
        finally:
            sc.close()
        return res

    def run(self, sc, policy, max_steps=400):
        rec = self.rec
        n = len(sc.threads)
        rec.reset(n, scheduled=True)
        sc.build(rec, self.workdir)
        seen_h = []
        for name in sorted(sc.proxies):
            h = sc.handle_of(name)
            if not any(h is x for x in seen_h):
                seen_h.append(h)
                h.seek(sc.p0)
        groups, bad_sharing = sc.sharing()
        for k_ in (None,):
            rec.tokens[k_].clear()
            rec.unheld[k_].clear()
            rec.data[k_].clear()
        results = [None] * n
        errors = [None] * n

        def work(i):
            rec.local.tid = i
            t = sc.threads[i]
            p = sc.proxies[t['proxy']]
            out = []
            try:
                if t.get('outer'):
                    with get_lock(p):
                        for ix in t['reads']:
                            out.append(arr_sig(do_read(p, ix)))
                else:
                    for ix in t['reads']:
                        out.append(arr_sig(do_read(p, ix)))
            except SchedTimeout:
                errors[i] = 'sched-timeout'
            except BaseException as e:  # noqa
                errors[i] = f'{type(e).__name__}: {e}'[:200]
            results[i] = out
            rec.q.put(('fin', i))

        ths = [threading.Thread(target=work, args=(i,), daemon=True) for i in range(n)]
        for th in ths:
            th.start()
        state = {}          # tid -> 'gate' | 'fin'
        trace, eff = [], []
        ok = True
        try:
            def wait_for(tid=None):
                """consume messages until thread tid (or every thread) is at a gate / finished"""
                blocked = None
                while True:
                    if tid is None and len(state) == n:
                        return None
                    m = rec.q.get(timeout=GATE_TIMEOUT)
                    if m[0] == 'done':
                        blocked = m[2]
                        continue
                    state[m[1]] = m[0]
                    if tid is not None and m[1] == tid:
                        return blocked
            wait_for(None)
            k = 0
            cur = None
            while any(state[i] != 'fin' for i in range(n)):
                if k >= max_steps:
                    raise SchedTimeout('step budget exhausted')
                live = [i for i in range(n) if state[i] != 'fin']
                cur = policy(k, cur, live, eff[-1] if eff else True)
                assert cur in live
                del state[cur]
                rec.go[cur].release()
                b = wait_for(cur)
                trace.append(cur)
                eff.append(not b)
                k += 1
        except (queue.Empty, SchedTimeout, AssertionError) as e:
            ok = False
            errors.append(f'scheduler: {type(e).__name__} {e}')
        finally:
            if not ok:
                rec.abort = True
                for s in rec.go:
                    for _ in range(1000):
                        s.release()
            for th in ths:
                th.join(timeout=GATE_TIMEOUT if ok else 2.0)
            alive = [th for th in ths if th.is_alive()]
            if alive:
                ok = False
                rec.abort = True
                for s in rec.go:
                    for _ in range(1000):
                        s.release()
                for th in alive:
                    th.join(timeout=2.0)
        rec.scheduled = False
        try:
            endpos = None
            if sc.kind == 'handle':
                endpos = sc.tell_raw()
            elif sc.kind == 'fresh':
                endpos = io.BytesIO.tell(sc.fobj)
            if sc.kind == 'fresh':
                lock_free = all(l.depth == 0 for l in sc.factory_locks)
            else:
                lock_free = all(get_lock(p).depth == 0 for p in sc.proxies.values() if isinstance(get_lock(p), WLock))
        finally:
            sc.close()
        return {'ok': ok, 'trace': trace, 'eff': eff, 'results': results, 'errors': errors,
                'tokens': [list(rec.tokens[i]) for i in range(n)], 'unheld': [list(rec.unheld[i]) for i in range(n)],
                'data': [list(rec.data[i]) for i in range(n)], 'endpos': endpos, 'lock_free': lock_free,
                'groups': groups, 'bad_sharing': bad_sharing, 'seq': list(rec.seq),
                'locks_created': len(sc.factory_locks) if sc.kind == 'fresh' else None}


# ---- schedule policies
def policy_preempt(preempts):
    """Run the current thread until it finishes or blocks; switch at the given global step
    numbers k to the r-th next live thread (a pre-emption); forced switches go to the next
    live thread in cyclic order."""
    def pol(k, cur, live, last_eff):
        def nxt(c, r=1):
            later = [i for i in live if c is None or i > c] + [i for i in live if c is not None and i < c]
            if not later:
                return c
            return later[(r - 1) % len(later)]
        if cur is None:
            cur = live[0]
        elif cur not in live or not last_eff:
            cur = nxt(cur)
        if k in preempts and len(live) > 1:
            cur = nxt(cur, preempts[k])
        return cur
    return pol


def policy_quantum(q, first):
    """round robin with a quantum of q granted calls, starting with live thread number `first`"""
    box = {'left': q}

    def pol(k, cur, live, last_eff):
        if cur is None:
            box['left'] = q
            return live[first % len(live)]
        if cur in live and last_eff and box['left'] > 1:
            box['left'] -= 1
            return cur
        box['left'] = q
        later = [i for i in live if i > cur] + [i for i in live if i <= cur]
        return later[0]
    return pol


def policy_trace(trace, fallback):
    def pol(k, cur, live, last_eff):
        if k < len(trace) and trace[k] in live:
            return trace[k]
        return fallback(k, cur, live, last_eff)
    return pol


def policy_random(rng, stickiness):
    def pol(k, cur, live, last_eff):
        if cur in live and last_eff and rng.random() < stickiness:
            return cur
        return rng.choice(live)
    return pol


def enum_preempts(total, nthreads, maxp):
    """every set of <= maxp pre-emption points (global step number -> switch to the r-th next
    live thread)"""
    rs = list(range(1, nthreads))
    for m in range(0, maxp + 1):
        for ks in itertools.combinations(range(0, total + 2), m):
            for tr in itertools.product(rs, repeat=m):
                yield dict(zip(ks, tr))


# ------------------------------------------------------------------ the check
S = slice


def core_scenarios(thorough=False):
    """Seed-independent scenarios (exhaustive <= 2 pre-emptions each)."""
    A = FileSpec((33, 3, 2), '<f8', 16)
    B = FileSpec((130, 3, 2), '<i2', 32, slope=2.0, inter=1.0, fill=3)
    C = FileSpec((2, 3, 33), '>f8', 8, order='C', fill=9)
    M2, M2b, S1, S1b, M2c = (S(None), S(None, None, 2), 1), (S(None), S(None, None, 2), 0), \
        (S(None), S(None), 1), (S(None), 1, 0), (S(None), 2)
    out = [
        Scenario(A, [dict(proxy='orig', reads=[M2]), dict(proxy='orig', reads=['W'])], name='same-proxy sliced+whole(memmap probe)'),
        Scenario(A, [dict(proxy='orig', reads=[S1, M2]), dict(proxy='copy', reads=[M2b])], name='proxy+copy 2 reads/1 read'),
        Scenario(B, [dict(proxy='orig', reads=[M2]), dict(proxy='copy', reads=['W']), dict(proxy='copy2', reads=[S1b])],
                 mmap={'copy': False}, name='3 threads proxy/copy/copy-of-copy scaled int16'),
        Scenario(A, [dict(proxy='copy', reads=[M2c], outer=True), dict(proxy='orig', reads=[S1b, (Ellipsis,)])],
                 mmap={'orig': False}, name='caller holds the RLock (re-entrant) + whole'),
        Scenario(A, [dict(proxy='orig', reads=[M2]), dict(proxy='orig', reads=['W'])], kind='kfo', name='keep_file_open=True plain file'),
        Scenario(A, [dict(proxy='orig', reads=[S1]), dict(proxy='orig', reads=[M2b])], kind='kfo_gz', name='keep_file_open=True .gz'),
        Scenario(C, [dict(proxy='orig', reads=[(1, S(None, None, 2)), (0, 1)]), dict(proxy='copy', reads=['W']),
                     dict(proxy='copy2', reads=[(S(None), 2)])], name='3 threads C order big endian, 2+1+1 reads'),
        Scenario(A, [dict(proxy='orig', reads=[M2]), dict(proxy='orig', reads=['W'])], kind='gz_def',
                 name='.gz path, keep_file_open default (persisted IndexedGzipFile): one proxy, 2 threads'),
        Scenario(A, [dict(proxy='orig', reads=[S1]), dict(proxy='orig', reads=[M2b]), dict(proxy='orig', reads=['W'])],
                 kind='gz_false', name='.gz path, keep_file_open=False (persisted IndexedGzipFile): one proxy, 3 threads'),
        Scenario(big_files()[1], [dict(proxy='orig', reads=[(S(None), S(None), 1)]), dict(proxy='copy', reads=[(S(0, 4), 0, 0)])],
                 mmap={'orig': False, 'copy': False}, name='2 MiB segment racing a small read (proxy + copy)'),
        Scenario(big_files()[1], [dict(proxy='orig', reads=[(S(None), S(None), S(None, None, 2))]),
                                  dict(proxy='orig', reads=[(5, 5, 1), (S(0, 8), 3, 2)])],
                 mmap={'orig': False}, name='two 2 MiB segments racing two small reads (same proxy)'),
        Scenario(A, [dict(proxy='orig', reads=[M2]), dict(proxy='copy', reads=[S1b])], flavour='duck',
                 name='duck-typed handle (hand-written class, not io.IOBase): proxy + copy()'),
        Scenario(A, [dict(proxy='orig', reads=[M2]), dict(proxy='copy', reads=['W'])], flavour='tempfile',
                 name='tempfile.NamedTemporaryFile handle: proxy + copy()'),
        Scenario(A, [dict(proxy='orig', reads=[S1]), dict(proxy='copy', reads=[M2b]), dict(proxy='copy2', reads=['W'])],
                 flavour='opener', name='ImageOpener instance as file_like: proxy + copy() + copy of copy'),
        Scenario(A, [dict(proxy='orig', reads=[S1]), dict(proxy='orig', reads=[S1b])], kind='fresh',
                 name='FRESH proxy (never read, copied or inspected): first reads of 2 threads, single segments'),
        Scenario(A, [dict(proxy='orig', reads=[M2]), dict(proxy='orig', reads=['W']), dict(proxy='orig', reads=[S1b])],
                 kind='fresh', name='FRESH proxy: first reads of 3 threads, multi-segment / whole / single segment'),
    ] + ([
        Scenario(B, [dict(proxy='orig', reads=[M2, S1b]), dict(proxy='copy', reads=['W', M2b]),
                     dict(proxy='copy2', reads=[S1, (Ellipsis, 0)], outer=True)], mmap={'copy': False},
                 name='3 threads x 2 reads, one holding the RLock across both')] if thorough else []) + [
        Scenario(A, [dict(proxy='orig', reads=[M2, 'W']), dict(proxy='copy', reads=[S1, M2b])], kind='kfo',
                 name='keep_file_open=True path proxy and its copy() taken after a first read'),
        Scenario(A, [dict(proxy='orig', reads=['W']), dict(proxy='copy', reads=[M2]), dict(proxy='copy2', reads=[S1b])],
                 kind='kfo_gz', name='keep_file_open=True .gz path proxy, copy and copy of copy taken after reads'),
    ]
    return out


def canary_scenario():
    A = FileSpec((33, 3, 2), '<f8', 16)
    return Scenario(A, [dict(proxy='orig', reads=[(S(None), 1, 0)]), dict(proxy='copy', reads=[(S(None), 0, 1)])],
                    nolock=True, name='canary: same reads with the lock disabled')


def measure_probe(rec):
    """What np.memmap does to a handle it cannot map (external code, measured)."""
    rec.reset(0)
    f = WFile(b'\0' * 64)
    f.rec = rec
    try:
        np.memmap(f, np.uint8, mode='c', shape=(4,), offset=0)
        return None
    except (AttributeError, TypeError, ValueError):
        pass
    return join_progs(rec.tokens[None])


def model_programs(chk, scs, probe):
    """Programs of every thread of every scenario from the extracted model."""
    lines, idx = [], []
    for si, sc in enumerate(scs):
        for ti, reqs in enumerate(sc.model_requests(probe)):
            for ri, (line, _) in enumerate(reqs):
                lines.append(f'{si}.{ti}.{ri} {line}')
    out = run_model(PROP, lines)
    progs = []
    lines2 = []
    for si, sc in enumerate(scs):
        tp = []
        for ti, t in enumerate(sc.threads):
            ps = []
            for ri in range(len(t['reads'])):
                r = out.get(f'{si}.{ti}.{ri}', 'err missing')
                if not r.startswith('ok '):
                    raise RuntimeError(f'model program failed: {r}')
                ps.append(r[3:])
            p = join_progs(ps)
            tp.append(p)
        progs.append(tp)
    # outer lock and (canary) stripping are model functions too
    for si, sc in enumerate(scs):
        for ti, t in enumerate(sc.threads):
            if t.get('outer'):
                lines2.append(f'{si}.{ti}.o outer {progs[si][ti]}')
    out2 = run_model(PROP, lines2)
    for si, sc in enumerate(scs):
        for ti, t in enumerate(sc.threads):
            if t.get('outer'):
                progs[si][ti] = out2[f'{si}.{ti}.o'][3:]
    lines3 = []
    for si, sc in enumerate(scs):
        for ti in range(len(sc.threads)):
            lines3.append(f'{si}.{ti}.w wl {progs[si][ti]}')
            if sc.nolock:
                lines3.append(f'{si}.{ti}.s strip {progs[si][ti]}')
    out3 = run_model(PROP, lines3)
    wl = [[out3[f'{si}.{ti}.w'] == 'ok 1' for ti in range(len(sc.threads))] for si, sc in enumerate(scs)]
    for si, sc in enumerate(scs):
        if sc.nolock:
            for ti in range(len(sc.threads)):
                progs[si][ti] = out3[f'{si}.{ti}.s'][3:]
    return progs, wl


def json_dumps(o):
    return json.dumps(o, default=str)


def hx(b):
    return 'x' + bytes(b).hex()


def impl_line(run, n):
    eff = ''.join('1' if e else '0' for e in run['eff'])
    parts = []
    for i in range(n):
        fin = '1'
        failed = '1' if run['errors'][i] else '0'
        parts.append(f"{fin}{failed}:" + ';'.join(hx(d) for d in run['data'][i]))
    return eff, parts


def evaluate(chk, sc, progs, wl_ok, single, run, mout, tag):
    """Compare one scheduled run with the model and with the single-threaded results."""
    n = len(sc.threads)
    case = {'scenario': sc.desc(), 'schedule': run['trace']}
    pred = None
    if not run['ok']:
        report(chk, 'harness_error', case=case, predicate='scheduler timeout / stuck thread: ' + str(run['errors'][-1:]),
                      found_input=False)
        return
    # ---- property predicate, directly on the implementation
    if not sc.nolock:
        for i in range(n):
            if run['errors'][i]:
                pred = f'thread {i} raised {run["errors"][i]} (single-threaded read succeeds)'
                break
            if run['results'][i] != single[i]:
                pred = f'thread {i} returned data different from its single-threaded read'
                break
            if run['unheld'][i]:
                pred = f'thread {i} touched the shared handle without holding the shared lock: {run["unheld"][i][:4]}'
                break
        if pred is None and not run['lock_free']:
            pred = 'lock still held after all threads finished'
        if len(run['groups']) == 1:
            ov = overlapping_sections(run['seq'])
            if ov:
                msg = (f'no mutual exclusion: thread {ov[0]} made file call {ov[1]} while thread {ov[2]} was inside its '
                       'critical section (read off the recorded acquire/release/file events)')
                pred = msg if pred is None else pred + '; ' + msg
        if pred is None and run.get('locks_created') not in (None, 1):
            pred = f"{run['locks_created']} lock objects were created for one fresh proxy"
        elif pred and run.get('locks_created') not in (None, 1):
            pred += f"; {run['locks_created']} lock objects were created for one fresh proxy"
    if not sc.nolock and pred is None and run['bad_sharing']:
        pred = ('proxies share one underlying file object but not the lock: ' +
                ', '.join(f'{a}/{b}' for a, b in run['bad_sharing']))
    elif not sc.nolock and run['bad_sharing'] and 'sharing' not in pred:
        pred += '; proxies share one underlying file object but not the lock: ' + \
                ', '.join(f'{a}/{b}' for a, b in run['bad_sharing'])
    # ---- correspondence with the model on the same schedule: one model world per underlying
    # file object (threads on other handles have the empty program there)
    dis = []
    eff, parts = impl_line(run, n)
    for gi, members in enumerate(run['groups']):
        if sc.big:
            break
        mo = mout.get(gi) if isinstance(mout, dict) else None
        if mo is None or not mo.startswith('ok '):
            dis.append(('model-run', str(mo)[:120], ''))
            continue
        f = mo[3:].split(' | ')
        head = dict(x.split('=') for x in f[0].split())
        pos_in = [j for j, t in enumerate(run['trace']) if t in members]
        me = ''.join(head['eff'][j] for j in pos_in)
        ie = ''.join(eff[j] for j in pos_in)
        if me != ie:
            dis.append(('blocked/effective pattern', me, ie))
        for i in members:
            if f[1 + i] != parts[i]:
                dis.append((f'thread {i} read records', f[1 + i][:160], parts[i][:160]))
        if head['owner'] != '-' or head['depth'] != '0':
            dis.append(('model lock not free at the end', f[0], ''))
        if run['endpos'] is not None and len(run['groups']) == 1 and str(run['endpos']) != head['pos']:
            dis.append(('final position', head['pos'], run['endpos']))
    for i in range(n):
        if join_progs(run['tokens'][i]) != progs[i]:
            dis.append((f'thread {i} call sequence', progs[i][:160], join_progs(run['tokens'][i])[:160]))
        if not sc.nolock and not wl_ok[i]:
            dis.append((f'thread {i} program not well-locked per model', progs[i][:160], ''))
    if pred:
        report(chk, 'property_violation', case=case, predicate=pred, model_output=str(mout)[:300] if mout else None,
                      impl_output={'errors': run['errors'], 'tokens': [join_progs(t) for t in run['tokens']]},
                      theorem='C14_reads_correct')
    if dis:
        chk.disagreements += 1
        if not pred:
            report(chk, 'correspondence', case=case, model_output=str(dis[0][1]), impl_output=str(dis[0][2]),
                          predicate='model and implementation disagree at ' + dis[0][0] +
                          '; every thread still returned its single-threaded data', found_input=False,
                          theorem='correspondence C14/Model.v <-> arrayproxy.py/fileslice.py/volumeutils.py')
    return pred, dis


def run(chk: Check):
    ensure_impl_path()
    from nibabel.arrayproxy import ArrayProxy
    chk.rule = ('(a) single-threaded call sequences: exhaustive index families + random basic indices (ints, '
                'steps of either sign, empty / out-of-range / full slices, Ellipsis, newaxis) on F/C-order arrays of '
                '4 dtypes x {proxy, copy, copy of copy, keep_file_open plain, keep_file_open .gz} x mmap on/off x '
                'caller-held lock; (b) gated scheduler: ALL schedules with <= 2 pre-emptions of the fixed scenarios (13 quick, 14 thorough) '
                '(2-3 threads x 1-2 reads: multi-segment, single-segment, whole-array with and without the memmap '
                'probe; same proxy, copy, copy of copy, re-entrant caller lock, keep_file_open plain and .gz, and '
                'keep_file_open path proxies with copy() / copy of copy taken AFTER a first read, .gz path proxies with '
                'keep_file_open default / False whose IndexedGzipFile opener is persisted, 2 MiB segments racing small reads) plus '
                'random schedules of random scenarios; FRESH proxies (never read, copied or inspected; locks observed through an RLock factory seen by nibabel.arrayproxy, creation is a scheduling point; mutual exclusion read off the recorded events); a case is non-trivial when it performs at least one file '
                'call; schedules are distinct by their recorded thread-id sequence, call sequences by '
                '(file, variant, index)')
    chk.assumptions = ['the OS scheduler and the GIL are replaced by a gate at every wrapped lock / file call; '
                       'pre-emption inside a single file call is not modelled',
                       'np.memmap paths that succeed do not use the file position and are out of scope; the failing '
                       'probe on an unmappable handle is measured (seek(0,2); tell()) and passed to the model',
                       'file content is immutable during the reads']
    chk.trusted.append('threading.RLock is modelled (owner + depth, non-owner release raises); its wrapper records '
                       'acquire/release and, under the scheduler, turns a blocking acquire into retry-on-grant')
    chk.trusted.append('oracle: the calls np.memmap makes on an unmappable handle (measured each run; the theorem '
                       'needs only probe_ok: position calls, no read)')
    chk.build()
    chk.run_probes()
    if not chk.model_ok:
        return
    rec = Recorder()
    probe = measure_probe(rec)
    chk.extra['memmap_probe_calls'] = probe
    pk = run_model(PROP, [f'p probeok {probe}'])['p'] if probe is not None else 'ok 0'
    if pk != 'ok 1':
        chk.disagreements += 1
        report(chk, 'correspondence', case={'probe': probe}, predicate='np.memmap probe on an unmappable handle is '
                      'not a list of position calls (C14_programs_well_locked premise probe_ok fails)', found_input=False,
                      theorem='C14_programs_well_locked')
        return
    runner = Runner(rec, chk.workdir)

    # ================= (a) single-threaded call sequences
    part_a(chk, rec, probe)

    # ================= (b) scheduled runs
    scs = core_scenarios(chk.tier == 'thorough')
    canary = canary_scenario()
    maxp = 2
    rng = chk.rng
    # random scenarios (seeded tail)
    files = [FileSpec((33, 3, 2), '<f8', 16), FileSpec((130, 3, 2), '<i2', 32, slope=2.0, inter=1.0, fill=3),
             FileSpec((2, 3, 33), '>f8', 8, order='C', fill=9), FileSpec((17, 2, 2, 2), '<c16', 0, fill=4)]
    rand_scs = []
    for _ in range(chk.n(12, 160)):
        fs = rng.choice(files)
        nt = rng.choice([2, 2, 3])
        kind = rng.choice(['handle', 'handle', 'handle', 'fresh', 'kfo', 'kfo_gz', 'gz_def', 'gz_false'])
        ths = []
        for _ in range(nt):
            reads = []
            for _ in range(rng.choice([1, 1, 2])):
                for _try in range(20):
                    ix = 'W' if rng.random() < 0.25 else gen_index(rng, fs.shape)
                    line, _ = read_request(fs, ix, True, probe, False, 'F')
                    nseg = line.count(',') // 2 + 1 if line.startswith('segs') else 1
                    if nseg <= 6:
                        break
                else:
                    ix = 'W'
                reads.append(ix)
            ths.append(dict(proxy='orig' if kind == 'fresh' else rng.choice(['orig', 'copy', 'copy2'] if kind == 'handle' else ['orig', 'orig', 'copy', 'copy2']), reads=reads,
                            outer=(rng.random() < 0.2) and kind != 'fresh'))
        rand_scs.append(Scenario(fs, ths, kind=kind, mmap={'orig': rng.random() < 0.5, 'copy': rng.random() < 0.5}
                                 if kind in ('handle', 'fresh') else None, p0=rng.randrange(0, 64), name='random',
                                 flavour=rng.choice(['bytesio', 'bytesio', 'duck', 'tempfile', 'opener']) if kind == 'handle' else 'bytesio'))
    all_scs = [canary] + scs + rand_scs
    import nibabel.openers as _op
    if not _op.HAVE_INDEXED_GZIP:       # without indexed_gzip a .gz path proxy opens a private handle per read
        all_scs = [sc for sc in all_scs if sc.kind not in ('gz_def', 'gz_false')]
        scs = [sc for sc in scs if sc.kind not in ('gz_def', 'gz_false')]
    # scenarios whose private state (lock, persisted opener, lock creation) cannot be reached are skipped, recorded
    usable_scs = []
    for sc in all_scs:
        try:
            rec.reset(0)
            sc.build(rec, chk.workdir)
            sc.close()
            usable_scs.append(sc)
        except SkipScenario as e:
            chk.extra.setdefault('degraded', []).append(f'scenario skipped ({sc.name}): {e}')
    have_canary = bool(usable_scs) and usable_scs[0] is canary
    n_core = sum(1 for sc in usable_scs if sc is canary or any(sc is x for x in scs))
    all_scs = usable_scs
    progs, wl = model_programs(chk, all_scs, probe)
    singles = [runner.single(sc) for sc in all_scs]

    runs = []     # (scenario index, run)
    stuck = wrong = 0
    t_sched = time.time()
    budget = chk.n(45, 600)
    for si, sc in enumerate(all_scs):
        total = sum(0 if p == '-' else p.count(',') + 1 for p in progs[si])
        seen = set()
        is_core = si < n_core
        if is_core:
            it = enum_preempts(total, len(sc.threads), 3 if len(sc.threads) == 2 and chk.tier == 'thorough' else maxp)
            pols = itertools.chain((policy_preempt(pre) for pre in it),
                                   (policy_quantum(q, f) for q in range(1, 8) for f in range(len(sc.threads))))
        else:
            nrand = chk.n(30, 150)
            pols = itertools.chain([policy_preempt({})],
                                   (policy_random(rng, rng.choice([0.0, 0.5, 0.8, 0.9])) for _ in range(nrand)))
        for pol in pols:
            r = runner.run(sc, pol)
            key = tuple(r['trace'])
            if key in seen and r['ok']:
                continue
            seen.add(key)
            runs.append((si, r))
            if not r['ok']:
                stuck += 1
                break
            if r['results'] != singles[si] and not sc.nolock:
                wrong += 1
                if wrong >= 30:
                    break
        if stuck >= 2 or wrong >= 30:
            chk.extra['schedule_enumeration_stopped_early'] = {'stuck_runs': stuck, 'runs_with_wrong_data': wrong}
            break
        if time.time() - t_sched > budget and not is_core:
            chk.extra['random_scenarios_skipped_for_time'] = len(all_scs) - si - 1
            break
    chk.extra['schedule_wall_s'] = round(time.time() - t_sched, 2)

    # the extracted model on the same schedules
    lines = []
    for j, (si, r) in enumerate(runs):
        sc = all_scs[si]
        sched = '[' + ','.join(str(t) for t in r['trace']) + ']'
        for gi, members in enumerate(r['groups']):
            if sc.big:
                continue          # compared through call sequences and results only
            pg = [p if i in members else '-' for i, p in enumerate(progs[si])]
            lines.append(f"{j}.{gi} run {hx(sc.fs.bytes)} {sc.p0} {sched} " + ' '.join(pg))
    mout_all = run_model(PROP, lines)
    mout = {}
    for key, v in mout_all.items():
        j, gi = key.split('.')
        mout.setdefault(j, {})[int(gi)] = v

    mixing_seen = 0
    per_sc = {}
    for j, (si, r) in enumerate(runs):
        sc = all_scs[si]
        nontriv = any(p != '-' for p in progs[si])
        npre = sum(1 for a, b, e in zip(r['trace'], r['trace'][1:], r['eff']) if a != b and e)
        chk.count(key=('sched', si, tuple(r['trace'])) if nontriv else None,
                  tag=('canary_nolock' if sc.nolock else f'sched:{sc.kind}:{len(sc.threads)}thr'),
                  sample={'scenario': sc.name, 'programs': progs[si], 'schedule': r['trace']}
                  if j in (0, 700, 1500) else None)
        chk.tagc(f'blocked_acquires={min(3, r["eff"].count(False))}{"+" if r["eff"].count(False) >= 3 else ""}')
        chk.tagc(f'context_switches={min(6, npre)}{"+" if npre >= 6 else ""}')
        per_sc[sc.name] = per_sc.get(sc.name, 0) + 1
        res = evaluate(chk, sc, progs[si], wl[si], singles[si], r, mout.get(str(j)), 'sched')
        if sc.nolock and r['ok']:
            if any(r['results'][i] != singles[si][i] or r['errors'][i] for i in range(len(sc.threads))):
                mixing_seen += 1
    chk.extra['schedules_per_scenario'] = per_sc
    chk.extra['canary_mixing_schedules'] = mixing_seen
    if mixing_seen == 0 and have_canary:
        report(chk, 'harness_error', case={'scenario': canary.desc()}, found_input=False,
                      predicate='canary: with the lock disabled no enumerated schedule mixed up data — the scheduler '
                                'is not exercising interleavings')
    # the model's refuting schedule on the implementation (C14_without_lock_refuted): seek0 seek1 read0 read1
    if have_canary:
        r = runner.run(canary, policy_trace([0, 1, 0, 1], policy_preempt({})))
        ci = 0
        wit = r['ok'] and r['results'][0] != singles[ci][0]
        chk.count(key=('witness', tuple(r['trace'])), tag='canary_nolock')
        chk.extra['without_lock_witness_reproduced_on_implementation'] = bool(wit)
        if not wit:
            report(chk, 'harness_error', case={'scenario': canary.desc(), 'schedule': r['trace']}, found_input=False,
                   predicate='C14_without_lock_refuted witness schedule does not mix data on the implementation '
                             'with the lock disabled')

    # ================= (c) free-running real threads (smoke; lazily created persistent opener)
    part_c(chk, rec)

    # ================= the proxies' own lock objects (before the harness replaces them) are re-entrant
    part_lock_kind(chk)

    # observation outside the statement
    try:
        f = WFile(files[0].bytes)
        f.rec = rec
        rec.reset(0)
        p = ArrayProxy(f, files[0].par())
        chk.extra['observation_reshape_shares_lock'] = bool(get_lock(p.reshape((33, 6))) is get_lock(p))
        chk.extra['observation_copy_shares_lock'] = bool(get_lock(p.copy()) is get_lock(p))
        chk.extra['observation_copy_keeps_order'] = bool(proxy_order(files[2], 'copy') == files[2].order)
    except Exception as e:  # noqa
        chk.extra['observation_reshape_shares_lock'] = f'error {e!r}'

    # ================= vm_compute cross-check of extraction + driver (tiny synthetic cases)
    part_vm(chk)
    chk.extra['unproved_statements'] = []


# ---------------------------------------------------------------------------------------------
def variants_for(fs, rec, workdir, which):
    """(name, proxy, wlock, fobj, close) for one variant of a file."""
    kind = which if which in PATH_KINDS else 'handle'
    flavour = which.split('_')[0] if which.split('_')[0] in ('duck', 'tempfile', 'opener') else 'bytesio'
    sc = Scenario(fs, [], kind=kind, mmap={'orig': which not in ('orig_nommap', 'copy_nommap')} if kind == 'handle' else None,
                  flavour=flavour)
    sc.build(rec, workdir)
    name = {'copy': 'copy', 'copy_nommap': 'copy', 'copy2': 'copy2', 'duck_copy': 'copy', 'tempfile_copy': 'copy',
            'opener_copy': 'copy2'}.get(which, 'orig')
    return sc, sc.proxies[name], sc.mmap[name]


def fixed_indices(shape):
    n0 = shape[0]
    out = ['W', (), (Ellipsis,), (S(None),), (S(0, n0),), (S(0, None),), (S(None), S(None), S(None)) if len(shape) == 3 else (S(None),) * len(shape),
           (0,), (-1,), (n0 // 2,), (S(None), 0), (S(None), -1), (S(None), S(None, None, 2)), (S(None), S(None, None, -1)),
           (S(None), S(1, None)), (S(None), S(0, 0)), (S(0, 0),), (S(None), S(None), 0) if len(shape) > 2 else (S(None), 0),
           (S(None, None, 2),), (S(None, None, -1),), (S(2, 9),), (Ellipsis, 0), (Ellipsis, S(None, None, 2)),
           (None, S(None)), (S(None), None, 1), (1, 1), (S(None), 1, S(None)) if len(shape) > 2 else (S(None), 1),
           (S(-5, None),), (S(None), S(-100, 100)), (S(3, 1),)]
    return out


def big_files():
    return [FileSpec((1048577, 2), '|u1', 7, fill=1),            # segments of 1 MiB + 1
            FileSpec((1024, 1024, 3), '<i2', 352, fill=2),       # 2 MiB planes
            FileSpec((786432, 2), '<f4', 0, fill=3)]             # 3 MiB columns


BIG_INDICES = [[(S(None), 1), (S(None), 0), (S(1, None), 1)],
               [(S(None), S(None), 1), (S(None), S(None), S(None, None, 2)), (S(None), S(None), S(0, 2))],
               [(S(None), 0), (S(None), 1)]]


def part_a(chk, rec, probe):
    """Single-threaded: recorded call list == model program, every file call under the shared lock."""
    rng = chk.rng
    files = [FileSpec((33, 3, 2), '<f8', 16), FileSpec((130, 3, 2), '<i2', 32, slope=2.0, inter=1.0, fill=3),
             FileSpec((2, 3, 33), '>f8', 8, order='C', fill=9), FileSpec((17, 2, 2, 2), '<c16', 0, fill=4),
             FileSpec((40, 7), '<u1', 5, fill=1), FileSpec((300,), '<f4', 12, fill=2), FileSpec((4, 0, 3), '<i4', 4)]
    import nibabel.openers as _op
    variants = ['orig', 'orig_nommap', 'copy', 'copy_nommap', 'copy2', 'kfo', 'kfo_gz',
                'duck_copy', 'tempfile_copy', 'opener_copy', 'duck_orig']
    if _op.HAVE_INDEXED_GZIP:
        variants += ['gz_def', 'gz_false']
    chk.extra['have_indexed_gzip'] = bool(_op.HAVE_INDEXED_GZIP)
    cases = []
    for fi, fs in enumerate(files):
        idxs = [ix for ix in fixed_indices(fs.shape) if ix == 'W' or sum(1 for s in ix if s is not None and s is not Ellipsis) <= len(fs.shape)]
        for vi, v in enumerate(variants):
            if fs.arr.size == 0 and v in PATH_KINDS:
                continue
            for k, ix in enumerate(idxs):
                cases.append((fi, v, ix, (k + vi) % 5 == 4))
    nrand = chk.n(500, 6000)
    for _ in range(nrand):
        fi = rng.randrange(len(files))
        v = rng.choice(variants)
        if files[fi].arr.size == 0 and v in PATH_KINDS:
            v = 'orig'
        cases.append((fi, v, gen_index(rng, files[fi].shape), rng.random() < 0.15))
    # LARGE segments (> 1 MiB): still acquire; seek; ONE read of the full segment length; release per segment
    nsmall = len(files)
    files += big_files()
    for fi in range(nsmall, len(files)):
        for v in ('orig', 'copy_nommap', 'kfo'):
            for ix in BIG_INDICES[fi - nsmall]:
                cases.append((fi, v, ix, False))
    # model programs
    lines = []
    built = {}
    obs = []
    for ci, (fi, v, ix, outer) in enumerate(cases):
        fs = files[fi]
        if (fi, v) not in built:
            rec.reset(0)
            try:
                built[(fi, v)] = variants_for(fs, rec, chk.workdir, v)
            except SkipScenario as e:
                built[(fi, v)] = None
                chk.extra.setdefault('degraded', []).append(f'call-sequence variant {v} skipped: {e}')
        if built[(fi, v)] is None:
            obs.append(None)
            continue
        sc, proxy, mm = built[(fi, v)]
        try:
            line, _ = read_request(fs, ix, mm, probe, outer, proxy.order)
        except (IndexError, ValueError) as e:
            chk.refusal('index_rejected')
            obs.append(None)
            continue
        lines.append(f'{ci} {line}')
        rec.reset(0)
        sc.wlock.depth, sc.wlock.owner = 0, None
        err = None
        try:
            want = fs.arr if ix == 'W' else fs.arr[ix]
        except IndexError:
            chk.refusal('index_rejected')
            obs.append(None)
            lines.pop()
            continue
        try:
            if outer:
                with get_lock(proxy):
                    got = do_read(proxy, ix)
            else:
                got = do_read(proxy, ix)
        except Exception as e:  # noqa
            err = f'{type(e).__name__}: {e}'[:160]
            got = None
        obs.append({'tokens': join_progs(rec.tokens[None]), 'unheld': list(rec.unheld[None]), 'err': err,
                    'data': b''.join(rec.data[None]), 'lock_free': sc.wlock.depth == 0,
                    'value_ok': err is None and got.shape == want.shape and np.array_equal(
                        got, want * fs.slope + fs.inter if (fs.slope, fs.inter) != (1.0, 0.0) else want)})
    for (fi, v), b in built.items():
        if b is not None:
            b[0].close()
    out = run_model(PROP, lines)
    lines2 = []
    for ci, (fi, v, ix, outer) in enumerate(cases):
        if obs[ci] is None:
            continue
        p = out[str(ci)][3:]
        if outer:
            lines2.append(f'{ci}.o outer {p}')
    out2 = run_model(PROP, lines2)
    lines3 = []
    exp = {}
    for ci, (fi, v, ix, outer) in enumerate(cases):
        if obs[ci] is None:
            continue
        p = out2[f'{ci}.o'][3:] if outer else out[str(ci)][3:]
        exp[ci] = p
        lines3.append(f'{ci}.w wl {p}')
        if len(files[fi].bytes) <= 200000:
            lines3.append(f'{ci}.s solo {hx(files[fi].bytes)} 0 {p}')
    out3 = run_model(PROP, lines3)
    for ci, (fi, v, ix, outer) in enumerate(cases):
        o = obs[ci]
        if o is None:
            continue
        fs = files[fi]
        case = {'file': fs.desc(), 'variant': v, 'index': ix_to_json(ix), 'outer': outer}
        p = exp[ci]
        nontriv = p != '-'
        path = 'whole' if is_whole(ix, fs.shape) else 'sliced'
        nseg = p.count('S')
        chk.count(key=('seq', fi, v, repr(ix), outer) if nontriv else None, tag=f'seq:{v}',
                  sample={'file': fs.desc(), 'variant': v, 'index': repr(ix), 'program': p} if ci in (5, 333) else None)
        chk.tagc(f'path:{path}')
        chk.tagc('segments:' + ('0' if nseg == 0 else '1' if nseg == 1 else '2-4' if nseg <= 4 else '5+'))
        pred = None
        if o['err']:
            pred = 'single-threaded read raised ' + o['err']
        elif o['unheld']:
            pred = f"file calls made without holding the shared lock: {o['unheld'][:4]}"
        elif not o['lock_free']:
            pred = 'lock still held after the read'
        dis = []
        if o['tokens'] != p:
            dis.append(('call sequence', p[:200], o['tokens'][:200]))
        if out3.get(f'{ci}.w') != 'ok 1':
            dis.append(('program not well-locked per model', p[:200], out3.get(f'{ci}.w')))
        solo = out3.get(f'{ci}.s', '')
        if len(fs.bytes) > 200000 and not o['err']:
            # too large for the model runner: harness twin of `solo` (bytes at the program's seek/read positions)
            pos, want_b = 0, []
            for t in p.split(','):
                if t[0] == 'S':
                    pos = int(t[1:])
                elif t[0] == 'E':
                    pos = len(fs.bytes)
                elif t[0] in 'ri':
                    want_b.append(fs.bytes[pos:pos + int(t[1:])])
                    pos += len(want_b[-1])
            if b''.join(want_b) != o['data']:
                dis.append(('bytes read (large file)', f'{sum(map(len, want_b))} bytes at the program positions', f"{len(o['data'])} bytes, different"))
            chk.tagc('large_segment_case')
        if solo.startswith('ok') and bytes.fromhex(solo[3:].replace(';', '').replace('x', '')) != o['data'] and not o['err']:
            dis.append(('bytes read', solo[:120], hx(o['data'])[:120]))
        if pred:
            report(chk, 'property_violation', case=case, predicate=pred, model_output=p, impl_output=o['tokens'],
                          theorem='C14_lock_discipline_inv')
        if dis:
            chk.disagreements += 1
            if not pred:
                report(chk, 'correspondence', case=case, model_output=str(dis[0][1]), impl_output=str(dis[0][2]),
                              predicate='model and implementation disagree at ' + dis[0][0] +
                              '; all file calls were made under the lock', found_input=False,
                              theorem='correspondence C14/Model.v segs_prog/whole_prog <-> read_segments/array_from_file')
        if not o['value_ok'] and not o['err'] and (v in ('orig', 'orig_nommap') or v in PATH_KINDS or fs.order == 'F'):
            nv = chk.extra.setdefault('note_values', {'what': 'single-threaded read differs from NumPy indexing '
                                                              '(C03/C06 subject, not C14)',
                                                      'count': 0, 'first': case})
            nv['count'] += 1


def part_lock_kind(chk, workdir=None):
    """The model's lock is an RLock: the lock every kind of proxy is born with must be
    re-entrant (non-blocking double acquire by one thread succeeds) and shared by copy() of a
    handle proxy; probed without blocking so that nothing can hang."""
    import pickle
    from nibabel.arrayproxy import ArrayProxy
    fs = FileSpec((33, 3, 2), '<f8', 16)
    path = os.path.join(workdir or chk.workdir, 'lockkind.dat')
    bad = []
    with open(path, 'wb') as g:
        g.write(fs.bytes)
    h = ArrayProxy(io.BytesIO(fs.bytes), fs.par())
    pth = ArrayProxy(path, fs.par(), keep_file_open=True)
    cands = {'handle proxy': h, 'copy of handle proxy': h.copy(), 'path proxy keep_file_open': pth,
             'copy of path proxy': pth.copy(), 'unpickled path proxy': pickle.loads(pickle.dumps(pth)),
             'reshaped handle proxy': h.reshape((33, 6))}
    if lock_attr(h) is None:
        if chk is not None:
            chk.extra.setdefault('degraded', []).append("lock-kind probes skipped: the proxy's lock is not reachable under any known name")
        return bad
    for name, p in cands.items():
        lk = get_lock(p)
        a = lk.acquire(False)
        b = lk.acquire(False) if a else False
        if b:
            lk.release()
        if a:
            lk.release()
        if chk is not None:
            chk.count(key=('lock_kind', name), tag='lock_kind')
        if not (a and b):
            bad.append((name, f'{name}: proxy._lock is not re-entrant (second non-blocking acquire by the same thread '
                        'failed): a caller that holds the proxy lock around a read would deadlock; the model '
                        'and C14_programs_well_locked (outer_locked) assume threading.RLock'))
    if get_lock(h.copy()) is not get_lock(h):
        bad.append(('copy shares lock', 'copy() of a proxy over an open handle does not share its lock'))
    # copy() at every point of a history: whatever shares one OS-level file object shares the lock
    gzp = os.path.join(workdir or chk.workdir, 'lockkind.dat.gz')
    import gzip as _gz
    with _gz.open(gzp, 'wb') as g:
        g.write(fs.bytes)
    for hname, mk in [('open file object', lambda: ArrayProxy(io.BytesIO(fs.bytes), fs.par(), mmap=False)),
                      ('path keep_file_open=True', lambda: ArrayProxy(path, fs.par(), mmap=False, keep_file_open=True)),
                      ('.gz path keep_file_open=True', lambda: ArrayProxy(gzp, fs.par(), mmap=False, keep_file_open=True)),
                      ('.gz path keep_file_open=False', lambda: ArrayProxy(gzp, fs.par(), mmap=False, keep_file_open=False)),
                      ('.gz path keep_file_open default', lambda: ArrayProxy(gzp, fs.par(), mmap=False)),
                      ('path keep_file_open=False', lambda: ArrayProxy(path, fs.par(), mmap=False, keep_file_open=False))]:
        p0 = mk()
        fam = {'original': p0, 'copy before any read': p0.copy()}
        do_read(p0, (S(None), S(None, None, 2), 1))
        fam['copy after a sliced read'] = p0.copy()
        do_read(p0, 'W')
        fam['copy after a whole read'] = p0.copy()
        fam['copy of copy'] = fam['copy after a sliced read'].copy()
        for q in list(fam.values()):
            do_read(q, (S(None), 1, 0))
        fam['copy of (copy before any read) after its read'] = fam['copy before any read'].copy()
        do_read(fam['copy of (copy before any read) after its read'], 'W')

        def os_file(q):
            fl = q.file_like                       # public attribute
            if hasattr(fl, 'read') and hasattr(fl, 'seek'):
                return fl
            op = get_opener(q)
            return None if op is None else op.fobj
        names = list(fam)
        for i, a in enumerate(names):
            for b in names[i + 1:]:
                fa, fb = os_file(fam[a]), os_file(fam[b])
                if chk is not None:
                    chk.count(key=('sharing', hname, a, b), tag='lock_sharing_pair')
                if fa is not None and fa is fb and get_lock(fam[a]) is not get_lock(fam[b]):
                    bad.append((f'{hname}: {a} / {b}', f'{hname}: "{a}" and "{b}" use one underlying file object (one file '
                                'position) but different locks — concurrent reads through them are not protected'))
        for q in fam.values():
            op = get_opener(q)
            if op is not None:
                try:
                    op.close_if_mine()
                except Exception:  # noqa
                    pass
    if chk is not None:
        for name, pred in bad:
            report(chk, 'property_violation', case={'lock_kind': name}, predicate=pred, theorem='C14_programs_well_locked')
    return bad


def part_c(chk, rec):
    """Real threads, no gates: N threads make the FIRST access of a keep_file_open proxy at once
    (lazy ImageOpener creation) and a handle proxy + copies; small random sleeps at each call."""
    from nibabel.arrayproxy import ArrayProxy
    rng = chk.rng
    fs = FileSpec((33, 3, 2), '<f8', 16)
    path = os.path.join(chk.workdir, 'free.dat')
    with open(path, 'wb') as g:
        g.write(fs.bytes)
    idxs = [(S(None), S(None, None, 2), 1), 'W', (S(None), 2), (S(None), 1, 0), (Ellipsis, 1), (S(None), S(None, None, -1))]
    for rep in range(chk.n(6, 60)):
        rec.reset(8, scheduled=False)
        seeds = [rng.random() for _ in range(64)]
        cnt = itertools.count()
        rec.jitter = lambda: seeds[next(cnt) % 64] * 0.0004
        kind = 'kfo' if rep % 2 == 0 else 'handle'
        if kind == 'kfo':
            p = ArrayProxy(path, fs.par(), mmap=False, keep_file_open=True)
            proxies = [p] * 8
        else:
            f = WFile(fs.bytes)
            wl = WLock(rec)
            f.rec, f.wlock = rec, wl
            p = ArrayProxy(f, fs.par())
            try:
                set_lock(p, wl)
            except SkipScenario as e:
                chk.extra.setdefault('degraded', []).append(f'free-running handle part: {e}')
                f.wlock = None
            proxies = [p, p.copy(), p.copy().copy(), p] * 2
        res, errs = [None] * 8, [None] * 8
        start = threading.Barrier(8)

        def work(i):
            rec.local.tid = i
            try:
                start.wait(timeout=GATE_TIMEOUT)
                res[i] = [arr_sig(do_read(proxies[i], idxs[(i + k) % len(idxs)])) for k in range(3)]
            except BaseException as e:  # noqa
                errs[i] = f'{type(e).__name__}: {e}'[:160]
        ths = [threading.Thread(target=work, args=(i,), daemon=True) for i in range(8)]
        for th in ths:
            th.start()
        for th in ths:
            th.join(timeout=GATE_TIMEOUT)
        stuck = any(th.is_alive() for th in ths)
        rec.jitter = None
        want = [[arr_sig(fs.arr if ix == 'W' else fs.arr[ix]) for ix in [idxs[(i + k) % len(idxs)] for k in range(3)]]
                for i in range(8)]
        chk.count(key=('free', rep, kind), tag=f'free_running:{kind}')
        bad = stuck or any(errs) or res != want
        if kind == 'handle' and any(rec.unheld[i] for i in range(8)):
            bad = True
        if kind == 'kfo' and get_opener(p) is not None:
            get_opener(p).close_if_mine()
        if bad:
            report(chk, 'property_violation', case={'free_running': kind, 'rep': rep, 'seed': chk.seed},
                          predicate='8 free-running threads: ' + ('stuck thread' if stuck else
                                                                   f'errors {[e for e in errs if e][:2]}' if any(errs) else
                                                                   'a thread returned data different from its single-threaded read'),
                          theorem='C14_reads_correct')


def part_vm(chk):
    """Synthetic tiny runs evaluated by the extracted binary and inside coqc."""
    import random
    r = random.Random(1234)

    def rprog():
        out = []
        for _ in range(r.randrange(0, 4)):
            k = r.random()
            if k < 0.6:
                out += ['A', f'S{r.randrange(0, 20)}', f'r{r.randrange(0, 6)}', 'R']
            elif k < 0.8:
                out += ['A', 'A', 'E', 'T', f'S{r.randrange(0, 20)}', f'i{r.randrange(0, 9)}', 'R', 'R']
            elif k < 0.9:
                out += [f'S{r.randrange(0, 20)}', f'r{r.randrange(0, 6)}']
            else:
                out += ['R']
        return out

    def coq_prog(p):
        m = {'A': 'Acq', 'R': 'Rel', 'E': 'SeekEnd', 'T': 'Tell'}
        return '[' + ';'.join(m[t] if t in m else ('Seek %s' % t[1:] if t[0] == 'S' else 'Read %s' % t[1:] if t[0] == 'r'
                                                   else 'ReadInto %s' % t[1:]) for t in p) + ']'
    lines, meta = [], []
    for i in range(40):
        nb = r.randrange(4, 24)
        data = bytes(r.randrange(256) for _ in range(nb))
        nt = r.choice([1, 2, 3])
        ps = [rprog() for _ in range(nt)]
        sched = [r.randrange(0, nt + (1 if r.random() < 0.2 else 0)) for _ in range(r.randrange(0, 40))]
        p0 = r.randrange(0, 30)
        lines.append(f"{i} run {hx(data)} {p0} [{','.join(map(str, sched))}] " + ' '.join(join_progs(p) for p in ps))
        meta.append((data, p0, sched, ps))
    out = run_model(PROP, lines)
    pairs = []
    for i, (data, p0, sched, ps) in enumerate(meta):
        o = out[str(i)]
        f = o[3:].split(' | ')
        head = dict(x.split('=') for x in f[0].split())
        effl = '[' + ';'.join('true' if c == '1' else 'false' for c in head['eff']) + ']'
        owner = 'None' if head['owner'] == '-' else f"Some {head['owner']}%nat"
        conj = [f'list_beq bool Bool.eqb (fst rr) {effl}', f"Z.eqb (pos (snd rr)) {head['pos']}",
                f"Nat.eqb (depth (snd rr)) {head['depth']}",
                f"match owner (snd rr), {owner} with Some a, Some b => Nat.eqb a b | None, None => true | _, _ => false end"]
        for t in range(len(ps)):
            flags, _, recs = f[1 + t].partition(':')
            rl = '[' + ';'.join('[' + ';'.join(str(b) for b in bytes.fromhex(h[1:])) + ']' for h in recs.split(';') if h) + ']'
            conj.append(f"Bool.eqb (finished (snd rr) {t}%nat) {'true' if flags[0] == '1' else 'false'}")
            conj.append(f"Bool.eqb (failed (thr (snd rr) {t}%nat)) {'true' if flags[1] == '1' else 'false'}")
            conj.append(f"list_beq (list Z) (list_beq Z Z.eqb) (recs (thr (snd rr) {t}%nat)) {rl}")
        bl = '[' + ';'.join(str(b) for b in data) + ']'
        pl = '[' + ';'.join(coq_prog(p) for p in ps) + ']'
        sl = '[' + ';'.join(f'{t}%nat' for t in sched) + ']'
        pairs.append((f"let rr := run_trace {bl} (init {p0} (progs_of {pl})) {sl} in " + ' && '.join(conj), f'run {i}'))
    imports = ('From Coq Require Import ZArith List Bool Arith. Import ListNotations. Open Scope Z_scope.\n'
               'From NV Require Import Base.Bytes C14.Model.\nScheme Equality for list.\n')
    ncase, bad = vm_crosscheck(PROP, imports, pairs)
    chk.vm = {'cases': ncase, 'disagreements': len(bad)}
    if bad:
        chk.disagreements += 1
        report(chk, 'correspondence', case={'vm_crosscheck': [pairs[b][1] if isinstance(b, int) and b < len(pairs) else b for b in bad]},
                      predicate='extracted model disagrees with vm_compute evaluation of the model', found_input=False,
                      theorem='extraction cross-check')


def replay(chk, obj):
    import shutil
    try:
        return _replay(chk, obj)
    finally:
        shutil.rmtree(chk.workdir, ignore_errors=True)


def _replay(chk, obj):
    ensure_impl_path()
    c = obj.get('case')
    rec = Recorder()
    if isinstance(c, dict) and 'scenario' in c and 'schedule' in c:
        sc = Scenario.from_desc(c['scenario'])
        runner = Runner(rec, chk.workdir)
        single = runner.single(sc)
        r = runner.run(sc, policy_trace(c['schedule'], policy_preempt({})))
        bad = (not r['ok']) or any(r['errors'][i] for i in range(len(sc.threads))) or r['results'] != single \
            or any(r['unheld'][i] for i in range(len(sc.threads)))
        ov = overlapping_sections(r['seq']) if len(r['groups']) == 1 else None
        if ov or r['bad_sharing'] or r.get('locks_created') not in (None, 1):
            bad = True
        if sc.nolock:
            bad = False
        print({'overlapping_critical_sections': ov, 'locks_created_for_fresh_proxy': r.get('locks_created'),
               'share_file_but_not_lock': r['bad_sharing']})
        print({'schedule': r['trace'], 'errors': r['errors'], 'calls': [join_progs(t) for t in r['tokens']],
               'same_as_single_threaded': [r['results'][i] == single[i] for i in range(len(sc.threads))],
               'calls_without_lock': r['unheld']})
        print('property fails on this case' if bad else 'property holds on this case')
        return 1 if bad else 0
    if isinstance(c, dict) and 'variant' in c:
        fs = FileSpec.from_desc(c['file'])
        rec.reset(0)
        sc, proxy, mm = variants_for(fs, rec, chk.workdir, c['variant'])
        ix = ix_from_json(c['index'])
        rec.reset(0)
        err = None
        try:
            if c.get('outer'):
                with get_lock(proxy):
                    do_read(proxy, ix)
            else:
                do_read(proxy, ix)
        except Exception as e:  # noqa
            err = repr(e)
        sc.close()
        print({'calls': join_progs(rec.tokens[None]), 'calls_without_lock': rec.unheld[None], 'error': err})
        bad = bool(rec.unheld[None]) or err is not None
        print('property fails on this case' if bad else 'property holds on this case')
        return 1 if bad else 0
    if isinstance(c, dict) and 'lock_kind' in c:
        bad = part_lock_kind(None, chk.workdir)
        print(bad)
        print('property fails on this case' if bad else 'property holds on this case')
        return 1 if bad else 0
    print('nothing to replay:', obj.get('predicate'))
    return 1
