"""C10 — Binary headers are faithful to their bytes, byte order and repairs.

Model: coq/C10/{Layout,Tables,Model}.v; theorems coq/C10/Props.v.  Case lines sent to
bin/modelrun_c10 are documented at the top of coq/C10/driver.ml.  Compared with the
implementation at public boundaries: klass(bytes, endianness, check=False).binaryblock /
.endianness / field values (structarr), as_byteswapped, ==, copy, klass(endianness=e) defaults,
hdr.check_fix(logger, error_level) / BatteryRunner.check_only (repaired bytes + problem level per check), dst.from_header(src, check) (bytes or refusal class).
Tables: gen_tables() below translates the header dtypes / code tables / class attributes of the
imported nibabel (from $VERIF_REPO) into coq/C10/Tables.v (Gallina literals).  Fail-closed:
anything unexpected raises."""
import os
import re
import sys

import numpy as np

from common import COQ

# (coq suffix, module, class name)
CLASSES = [
    ('analyze', 'nibabel.analyze', 'AnalyzeHeader'),
    ('spm99', 'nibabel.spm99analyze', 'Spm99AnalyzeHeader'),
    ('spm2', 'nibabel.spm2analyze', 'Spm2AnalyzeHeader'),
    ('nifti1', 'nibabel.nifti1', 'Nifti1Header'),
    ('nifti1pair', 'nibabel.nifti1', 'Nifti1PairHeader'),
    ('nifti2', 'nibabel.nifti2', 'Nifti2Header'),
    ('nifti2pair', 'nibabel.nifti2', 'Nifti2PairHeader'),
    ('mgh', 'nibabel.freesurfer.mghformat', 'MGHHeader'),
    ('ecat', 'nibabel.ecat', 'EcatHeader'),
]
ANALYZE_FAMILY = ['analyze', 'spm99', 'spm2', 'nifti1', 'nifti1pair', 'nifti2', 'nifti2pair']

CHECK_IDS = {
    '_chk_sizeof_hdr': 'CkSizeof', '_chk_datatype': 'CkDatatype', '_chk_bitpix': 'CkBitpix',
    '_chk_pixdims': 'CkPixdims', '_chk_qfac': 'CkQfac', '_chk_magic': 'CkMagic', '_chk_offset': 'CkOffset',
    '_chk_qform_code': 'CkQform', '_chk_sform_code': 'CkSform', '_chk_eol_check': 'CkEol',
    '_chk_origin': 'CkOrigin', 'chk_version': 'CkVersion',
}
KIND = {'i': 'KInt', 'u': 'KUInt', 'f': 'KFloat', 'S': 'KStr'}


def get_class(mod, name):
    import importlib
    return getattr(importlib.import_module(mod), name)


def layout_of(klass):
    """[(name, offset, width, count, kind)] in offset order; raises on anything unexpected."""
    dt = klass.template_dtype
    if dt.names is None:
        raise ValueError('template_dtype is not structured')
    out = []
    for name in dt.names:
        fld = dt.fields[name]
        if len(fld) != 2:
            raise ValueError(f'field {name} has a title')
        fdt, off = fld
        base = fdt.base
        count = int(np.prod(fdt.shape)) if fdt.shape else 1
        k = base.kind
        if k not in KIND:
            raise ValueError(f'unexpected field kind {k!r} for {name}')
        if k == 'S':
            if fdt.shape:
                raise ValueError(f'sub-array of strings: {name}')
            width, count = 1, base.itemsize
        else:
            width = base.itemsize
            if (k == 'f' and width not in (4, 8)) or (k in 'iu' and width not in (1, 2, 4, 8)):
                raise ValueError(f'unexpected width {width} for {name}')
        if count < 1 or width < 1:
            raise ValueError(f'empty field {name}')
        if not re.fullmatch(r'[A-Za-z_][A-Za-z0-9_]*', name):
            raise ValueError(f'unexpected field name {name!r}')
        out.append((name, int(off), int(width), int(count), KIND[k]))
    out.sort(key=lambda t: t[1])
    return out, int(dt.itemsize)


def fresh_header(suf, klass, be=0):
    return klass() if suf == 'mgh' else klass(endianness='>' if be else '<')


def dt_codes(suf, klass):
    """[(code, itemsize)] of the data type codes the header class knows, MEASURED through the public API:
    hdr['datatype'] = code; hdr.get_data_dtype() (KeyError: unknown code; itemsize 0: known, unsupported)"""
    h = fresh_header(suf, klass)
    out = []
    for code in list(range(-4, 4200)) + [8191, 8192, 16384, 32767, -32768]:
        h['datatype'] = code
        try:
            out.append((code, int(h.get_data_dtype().itemsize)))
        except KeyError:
            pass
    if any(c > 4100 or c < 0 for c, _ in out):
        raise ValueError('a datatype code outside the densely probed range is known: widen the probe')
    return out


def xform_code_set(suf, klass, which):
    """the codes set_qform / set_sform accept (measured)"""
    h = fresh_header(suf, klass)
    out = []
    for code in list(range(-4, 300)) + [32767, -32768]:
        try:
            getattr(h, which)(np.eye(4), code)
            out.append(code)
        except Exception:  # noqa: BLE001 - any refusal means "not a code"
            pass
    if any(c < 0 or c > 290 for c in out):
        raise ValueError('an xform code outside the densely probed range is accepted')
    return out


class _LevelLog:
    """logger collecting the problem levels the public check_fix reports, in battery order"""
    def __init__(self):
        self.levels = []

    def log(self, level, msg):
        self.levels.append(int(level))


def public_check_fix(hdr):
    """hdr.check_fix() through the public API: repairs hdr in place, returns the reported levels"""
    lg = _LevelLog()
    hdr.check_fix(logger=lg, error_level=10 ** 9)
    return lg.levels


def _seed(field, value, idx=None):
    def f(h):
        if idx is None:
            h[field] = value
        else:
            h[field][idx] = value
    return f


CHECK_SEEDS = [   # (check id, field that must exist, defect seeded alone on a default header)
    ('CkSizeof', 'sizeof_hdr', _seed('sizeof_hdr', 0)), ('CkDatatype', 'datatype', _seed('datatype', 3)),
    ('CkBitpix', 'bitpix', _seed('bitpix', 7)), ('CkPixdims', 'pixdim', _seed('pixdim', 0, 1)),
    ('CkQfac', 'pixdim', _seed('pixdim', 0, 0)), ('CkMagic', 'magic', _seed('magic', b'abc')),
    ('CkOffset', 'vox_offset', _seed('vox_offset', 17)), ('CkQform', 'qform_code', _seed('qform_code', 6)),
    ('CkSform', 'sform_code', _seed('sform_code', 6)), ('CkEol', 'eol_check', _seed('eol_check', (0, 0, 0, 0))),
    ('CkOrigin', 'origin', _seed('origin', [30000, 1, 1, 0, 0])), ('CkVersion', 'version', _seed('version', 0)),
]


def measure_battery(suf, klass, strict=True):
    """the order of the class's checks, MEASURED: each known defect is seeded alone on a default header and the
    position at which the public check_fix reports it is recorded; every position must be claimed exactly once"""
    n = len(public_check_fix(fresh_header(suf, klass)))
    pos = {}
    names = klass.template_dtype.names
    for ck, field, seed in CHECK_SEEDS:
        if field not in names:
            continue
        h = fresh_header(suf, klass)
        seed(h)
        lv = public_check_fix(h)
        hits = [i for i, l in enumerate(lv) if l]
        if not hits:
            continue
        best = max(hits, key=lambda i: lv[i])
        if sum(1 for i in hits if lv[i] == lv[best]) != 1:
            if strict:
                raise ValueError(f'{suf}: defect of {ck} reported at several positions {lv}')
            continue
        pos.setdefault(best, []).append(ck)
    out = []
    for i in range(n):
        cks = pos.get(i, [])
        # CkQfac also trips nothing else; CkPixdims and CkQfac never share a position in a sound battery
        if len(cks) != 1:
            if strict:
                raise ValueError(f'{suf}: check at position {i} of {n} is claimed by {cks}')
            out.append('?'.join(cks) or 'unknown')
        else:
            out.append(cks[0])
    return out


# ---- setter_writes: which fields each public setter writes, MEASURED (diff of the fields before / after)
def _rand_affine(r):
    a = np.eye(4)
    a[:3, :3] = np.diag([r.choice([1.0, 2.0, -3.0, 0.5]) for _ in range(3)])
    if r.random() < 0.5:
        a[0, 1] = r.uniform(-0.3, 0.3)
    a[:3, 3] = [r.uniform(-90, 90) for _ in range(3)]
    return a


def setter_args(suf, name, h, r, ent):
    """random arguments for one public setter (None: no generator - the table generator then fails closed)"""
    nd = len(h.get_data_shape()) if suf != 'ecat' else 3
    if name == 'set_data_dtype':
        if suf == 'mgh':
            return (r.choice([0, 1, 3, 4]),)
        return (r.choice([c for c, sz in ent.get('dtcodes', []) if sz > 0] or [16]),)
    if name == 'set_data_shape':
        k = r.randrange(1, 5 if suf == 'mgh' else 8)
        sh = tuple(r.choice([1, 2, 3, 7, 64, 300]) for _ in range(k))
        if suf in ('nifti1', 'nifti1pair') and r.random() < 0.3:
            sh = (r.choice([40000, 163842, 70001]), 1, 1) + sh[3:]
        return (sh,)
    if name == 'set_zooms':
        n = min(nd, 4) if suf == 'mgh' else nd
        return (tuple(r.choice([0.5, 1.5, 2.0, 3.25]) for _ in range(n)),)
    if name == 'set_data_offset':
        return (r.choice([0, 16, 352, 544, 1024, 4096]),)
    if name == 'set_slope_inter':
        if suf.startswith('nifti'):
            return (r.choice([1.0, 2.5, -0.5, None, np.nan]), r.choice([0.0, 3.0, None, np.nan]))
        if suf.startswith('spm'):
            return (r.choice([1.0, 2.5, -0.5, None, np.nan]), r.choice([None, 0.0]))
        return (r.choice([None, 1.0, np.nan]), r.choice([None, 0.0]))
    if name in ('set_qform', 'set_sform'):
        return (_rand_affine(r), r.choice(ent.get('xform_codes', [0]) + [None]))
    if name == 'set_intent':
        return r.choice([('t test', (r.uniform(1, 9),), 'nm'), ('none', (), ''), ('vector', (), 'vec'), (3006, (), 'cifti'),
                         (r.randrange(2050, 9000), (1.0, 2.0, 3.0), 'x', True)])
    if name == 'set_dim_info':
        return tuple(r.choice([None, 0, 1, 2]) for _ in range(3))
    if name == 'set_slice_duration':
        return (r.choice([0.0, 0.5, 2.0]),)
    if name == 'set_slice_times':
        n = h.get_n_slices()
        order = r.choice(['asc', 'desc', 'alt'])
        base = list(range(n))
        if order == 'desc':
            base = base[::-1]
        elif order == 'alt':
            base = list(range(0, n, 2)) + list(range(1, n, 2))
            t = [0.0] * n
            for rank, idx in enumerate(base):
                t[idx] = rank * 1.0
            return (t,)
        return ([float(x) for x in base],)
    if name == 'set_xyzt_units':
        return (r.choice(['mm', 'meter', 'micron', 'unknown']), r.choice(['sec', 'msec', 'usec', 'unknown']))
    if name == 'set_origin_from_affine':
        return (_rand_affine(r),)
    return None


def measure_setter_writes(suf, ent):
    """{setter name: [field names it was seen to write]} over a fixed pseudo-random stream of header states and
    arguments, both byte orders; also checks that set_qform / set_sform only ever store recoder codes"""
    import random
    r = random.Random(20261001)
    klass = ent['klass']
    names = sorted(n for n in dir(klass) if n.startswith('set_') and callable(getattr(klass, n)))
    fields = [f[0] for f in ent['layout']]
    out = {}
    for name in names:
        seen = set()
        calls = 0
        for trial in range(60):
            h = fresh_header(suf, klass, trial % 2)
            with warnings.catch_warnings():
                warnings.simplefilter('ignore')
                # a varied starting state: a few other setters first (not measured)
                for other in r.sample(names, min(len(names), 3)) + (['set_data_shape', 'set_dim_info'] if 'set_dim_info' in names else []):
                    try:
                        a = setter_args(suf, other, h, r, ent)
                        if other == 'set_dim_info' and name in ('set_slice_duration', 'set_slice_times'):
                            a = (None, None, r.choice([0, 1, 2]))
                        if other == 'set_data_shape' and name in ('set_slice_times', 'set_origin_from_affine'):
                            a = ((4, 5, 6),)
                        if a is not None:
                            getattr(h, other)(*a)
                    except Exception:  # noqa: BLE001
                        pass
                args = setter_args(suf, name, h, r, ent)
                if args is None:
                    raise ValueError(f'{suf}: no argument generator for public setter {name}')
                before = {f: np.atleast_1d(h.structarr[f]).tobytes() for f in fields}
                try:
                    getattr(h, name)(*args)
                except Exception:  # noqa: BLE001 - a refused call writes nothing we rely on
                    continue
                calls += 1
                after = {f: np.atleast_1d(h.structarr[f]).tobytes() for f in fields}
                seen |= {f for f in fields if before[f] != after[f]}
                if name in ('set_qform', 'set_sform'):
                    for cf in ('qform_code', 'sform_code'):
                        if int(h[cf]) not in ent.get('xform_codes', []):
                            raise ValueError(f'{suf}.{name} stored the xform code {int(h[cf])}, not a recoder code')
        out[name] = (sorted(seen, key=fields.index), calls)
    return out


def mgh_min_size(klass):
    """smallest block MGHHeader accepts (the header without the footer), measured"""
    from nibabel.wrapstruct import WrapStructError
    for n in range(0, klass.template_dtype.itemsize + 1):
        try:
            klass(b'\0' * n, check=False)
            return n
        except WrapStructError:
            pass
    raise ValueError('MGHHeader accepts no block size')


def byteslit(b):
    return '[' + '; '.join(str(x) for x in bytes(b)) + ']'


def collect(strict=True):
    """Everything Tables.v is made of, as plain Python data (also used by the harness).  strict=False
    (harness only, for the model-less failing-input search): unknown check functions are kept by name."""
    info = {'classes': {}, 'names': []}
    names = []
    for suf, mod, cname in CLASSES:
        klass = get_class(mod, cname)
        lay, size = layout_of(klass)
        for f in lay:
            if f[0] not in names:
                names.append(f[0])
        checks = measure_battery(suf, klass, strict)
        ent = {'klass': klass, 'layout': lay, 'size': size, 'checks': checks}
        if suf in ANALYZE_FAMILY:
            ent['sizeof_hdr'] = int(klass.sizeof_hdr)
            ent['dtcodes'] = dt_codes(suf, klass)
        if suf.startswith('nifti'):
            ent['single_magic'] = bytes(klass.single_magic)
            ent['pair_magic'] = bytes(klass.pair_magic)
            ent['single_vox_offset'] = int(klass.single_vox_offset)
            ent['is_single'] = bool(klass.is_single)
            xs = xform_code_set(suf, klass, 'set_qform')
            if xs != xform_code_set(suf, klass, 'set_sform'):
                raise ValueError('qform and sform code sets differ')
            ent['xform_codes'] = xs
        if suf == 'mgh':
            ent['hdr_size'] = mgh_min_size(klass)
        ent['setter_writes'] = measure_setter_writes(suf, ent)
        info['classes'][suf] = ent
    info['names'] = names
    info['ids'] = {n: i + 1 for i, n in enumerate(names)}
    info['native_be'] = sys.byteorder == 'big'
    info['cifti_intents'] = cifti_intent_intervals()
    return info


def cifti_intent_intervals():
    """the NIfTI-2 intent codes with which Cifti2Image accepts a header, as intervals - MEASURED through the public
    Cifti2Image.path_maybe_image on synthesised header bytes (fail-closed outside the densely probed range)"""
    import nibabel as nib
    from nibabel.nifti2 import Nifti2Header
    h = Nifti2Header()

    def accepted(c):
        h['intent_code'] = c
        blk = h.binaryblock + b'\0' * 4
        return bool(nib.Cifti2Image.path_maybe_image('p.nii', sniff=(blk, 'p.nii'))[0])
    ok = [c for c in range(-16, 6000) if accepted(c)]
    for c in (-2 ** 31, 2 ** 31 - 1, 40000, 100000, 32767, -32768, 65536 + 3000):
        if accepted(c):
            raise TypeError(f'intent code {c} accepted: outside the probed range')
    iv = []
    for c in ok:
        if iv and iv[-1][1] == c - 1:
            iv[-1][1] = c
        else:
            iv.append([c, c])
    return [tuple(x) for x in iv]


def render(info):
    L = []
    w = L.append
    w('(* C10/Tables.v — GENERATED by harness/c10.py (gen_tables) from the imported nibabel header classes')
    w('   (template_dtype fields: name, offset, width, count, kind; datatype code tables; class')
    w('   attributes; _get_checks() order).  Do not edit: rewritten on every ./check C10. *)')
    w('From Coq Require Import ZArith List.')
    w('From NV Require Import C10.Layout.')
    w('Import ListNotations.')
    w('Open Scope Z_scope.')
    w('')
    w('(* field-name identifiers (one per distinct field name over all classes) *)')
    for n in info['names']:
        w(f'Definition f_{n} : Z := {info["ids"][n]}.')
    w('')
    w(f'Definition native_be : bool := {"true" if info["native_be"] else "false"}.')
    w('(* NIfTI-2 intent codes with which Cifti2Image.path_maybe_image accepts a header (probed) *)')
    w('Definition cifti_intents : list (Z * Z) := [' + '; '.join(f'({a}, {b})' for a, b in info['cifti_intents']) + '].')
    w('')
    for suf, ent in info['classes'].items():
        w(f'(* {ent["klass"].__module__}.{ent["klass"].__name__} *)')
        w(f'Definition L_{suf} : layout := [')
        rows = [f'  mkField f_{n} {off} {wd} {cnt} {k}' for n, off, wd, cnt, k in ent['layout']]
        w(';\n'.join(rows))
        w('].')
        w(f'Definition size_{suf} : Z := {ent["size"]}.')
        w(f'Definition battery_{suf} : list ck_id := [{"; ".join(ent["checks"])}].')
        if 'sizeof_hdr' in ent:
            w(f'Definition sizeof_hdr_{suf} : Z := {ent["sizeof_hdr"]}.')
            w(f'Definition dtcodes_{suf} : list (Z * Z) := [' +
              '; '.join(f'({c}, {s})' for c, s in ent['dtcodes']) + '].')
        if 'single_magic' in ent:
            w(f'Definition single_magic_{suf} : list Z := {byteslit(ent["single_magic"])}.')
            w(f'Definition pair_magic_{suf} : list Z := {byteslit(ent["pair_magic"])}.')
            w(f'Definition single_vox_offset_{suf} : Z := {ent["single_vox_offset"]}.')
            w(f'Definition is_single_{suf} : bool := {"true" if ent["is_single"] else "false"}.')
            w(f'Definition xform_codes_{suf} : list Z := [{"; ".join(str(x) for x in ent["xform_codes"])}].')
        if 'hdr_size' in ent:
            w(f'Definition hdr_size_{suf} : Z := {ent["hdr_size"]}.')
        w(f'(* fields each public setter was seen to write (measured by diffing the fields before / after) *)')
        w(f'Definition setter_writes_{suf} : list (list Z) := [')
        w(';\n'.join('  [' + '; '.join('f_' + f for f in fl) + f']   (* {nm}: {calls} calls *)'
                      for nm, (fl, calls) in ent['setter_writes'].items()))
        w('].')
        w('')
    return '\n'.join(L) + '\n'


def gen_tables():
    global _INFO
    info = collect()
    _INFO = info          # measured once per run; the harness reuses it
    txt = render(info)
    path = os.path.join(COQ, 'C10', 'Tables.v')
    old = open(path).read() if os.path.exists(path) else None
    if old != txt:
        with open(path, 'w') as f:
            f.write(txt)
    return info


# =========================================================================== the check

import itertools
import struct
import warnings

from common import Check, ensure_impl_path, run_model, run_model_parallel, vm_crosscheck  # noqa: E402

PROP = 'C10'
_INFO = None


def info():
    global _INFO
    if _INFO is None:
        _INFO = collect(strict=False)
    return _INFO


def hx(b):
    return 'x' + bytes(b).hex()


def be_of(code):
    return 1 if code == '>' else 0


def code_of(be):
    return '>' if be else '<'


def native_be():
    return 1 if sys.byteorder == 'big' else 0


def make_hdr(suf, b, be):
    """klass(binaryblock, endianness, check=False)"""
    klass = info()['classes'][suf]['klass']
    if suf == 'mgh':
        return klass(bytes(b), check=False)
    return klass(bytes(b), code_of(be), check=False)


def field_values(suf, hdr):
    """unsigned element values of every field, in layout order: [(id, [v...])]"""
    ent = info()['classes'][suf]
    ids = info()['ids']
    sa = hdr.structarr
    out = []
    for name, off, w, cnt, kind in ent['layout']:
        a = np.atleast_1d(sa[name])
        if kind == 'KStr':
            raw = a.tobytes()
            vals = list(raw)
        else:
            nat = a.astype(a.dtype.newbyteorder('='))
            vals = [int(x) for x in nat.view('u%d' % w).ravel()]
        if len(vals) != cnt:
            raise RuntimeError(f'field {name}: {len(vals)} values, expected {cnt}')
        out.append((ids[name], vals))
    return out


def fmt_fields(fv):
    return ';'.join(f'{i}=' + ','.join(str(v) for v in vs) for i, vs in fv)


# ---- float bit patterns used by the generators
F32_SPECIAL = [0x00000000, 0x80000000, 0x3f800000, 0xbf800000, 0x7f800000, 0xff800000, 0x7fc00000,
               0xffc00000, 0x7f800001, 0xff800001, 0x00000001, 0x80000001, 0x007fffff, 0x00800000,
               0x7f7fffff, 0xff7fffff, 0x43b00000, 0x43b08000, 0x40000000, 0xc0000000]


def rand_fbits(rng, w):
    r = rng.random()
    if w == 4:
        if r < 0.4:
            return rng.choice(F32_SPECIAL)
        if r < 0.7:
            return struct.unpack('<I', struct.pack('<f', rng.choice([1, -1]) * rng.uniform(0, 1000)))[0]
        return rng.getrandbits(32)
    if r < 0.4:
        v = rng.choice(F32_SPECIAL)
        return struct.unpack('<Q', struct.pack('<d', struct.unpack('<f', struct.pack('<I', v))[0]))[0] \
            if not (v & 0x7f800000 == 0x7f800000 and v & 0x7fffff) else ((v >> 31) << 63) | (0x7ff << 52) | ((v & 0x7fffff) << 29)
    if r < 0.7:
        return struct.unpack('<Q', struct.pack('<d', rng.choice([1, -1]) * rng.uniform(0, 1000)))[0]
    return rng.getrandbits(64)


CONSTRAINED = {'sizeof_hdr', 'dim', 'datatype', 'bitpix', 'pixdim', 'vox_offset', 'magic', 'qform_code',
               'sform_code', 'eol_check', 'origin', 'glmin',
               # MGH / ECAT
               'version', 'dims', 'type', 'goodRASFlag', 'delta', 'sw_version', 'magic_number'}


def randomize_free(rng, suf, b, be, frac=0.7):
    """random byte patterns in the fields no setter or check constrains"""
    b = bytearray(b)
    for name, off, w, cnt, kind in info()['classes'][suf]['layout']:
        if name in CONSTRAINED or rng.random() > frac:
            continue
        if kind == 'KFloat':
            for i in range(cnt):
                v = rand_fbits(rng, w)
                b[off + i * w: off + (i + 1) * w] = v.to_bytes(w, 'big' if be else 'little')
        elif kind == 'KStr' and rng.random() < 0.5:
            k = rng.randrange(0, cnt + 1)
            b[off: off + cnt] = bytes(rng.randrange(1, 256) for _ in range(k)) + b'\0' * (cnt - k)
        else:
            b[off: off + w * cnt] = bytes(rng.getrandbits(8) for _ in range(w * cnt))
    return bytes(b)


def supported_codes(suf):
    return [c for c, sz in info()['classes'][suf]['dtcodes'] if sz > 0]


def gen_valid(rng, suf, be):
    """a header reachable through the public setters (+ random bytes in free fields)"""
    ent = info()['classes'][suf]
    klass = ent['klass']
    with warnings.catch_warnings():
        warnings.simplefilter('ignore')
        if suf == 'mgh':
            h = klass()
            h.set_data_dtype(rng.choice([0, 1, 3, 4]))
            nd = rng.choice([1, 2, 3, 3, 4, 4])
            h.set_data_shape(tuple(rng.choice([1, 2, 3, 5, 256, 70000]) for _ in range(nd)))
            z = [rng.choice([0.5, 1.0, 2.25, 1e-3, 1e6]) for _ in range(3)]
            if len(h.get_data_shape()) > 3 and rng.random() < 0.7:
                z.append(rng.choice([0.0, 2.5, 3000.0]))
            h.set_zooms(z)
            # any non-zero flag means "geometry fields valid"; only 0 triggers the documented reset (S-C10a)
            h['goodRASFlag'] = rng.choice([1, 1, 2, -1, 256, -32768, 32767, rng.choice([-1, 1]) * rng.randrange(1, 32768)])
        elif suf == 'ecat':
            h = klass(endianness=code_of(be))
            h['num_frames'] = rng.randrange(0, 50)
            h['file_type'] = rng.randrange(0, 15)
            h['patient_orientation'] = rng.randrange(0, 9)
        else:
            h = klass(endianness=code_of(be))
            if rng.random() < 0.9:
                h.set_data_dtype(rng.choice(supported_codes(suf)))
            if suf in ('nifti1', 'nifti1pair') and rng.random() < 0.2:
                # FreeSurfer large-vector shapes: dim[1] = -1, the length goes to glmin
                h.set_data_shape((rng.choice([32768, 40000, 163841, 2 ** 31 - 1]), 1, 1) +
                                 tuple(rng.choice([1, 2, 5]) for _ in range(rng.randrange(0, 3))))
                if rng.random() < 0.5:
                    h.set_zooms(tuple(rng.choice([0.5, 1.0, 2.0]) for _ in h.get_data_shape()))
            elif rng.random() < 0.9:
                nd = rng.randrange(1, 8)
                big = 32767 if 'nifti2' not in suf else 2 ** 40
                h.set_data_shape(tuple(rng.choice([1, 1, 2, 3, 5, 7, 64, big]) for _ in range(nd)))
                if rng.random() < 0.8:
                    h.set_zooms(tuple(rng.choice([0.5, 1.0, 2.0, 3.75, 1e-5, 1e7, 0.1, np.nan, np.inf]) for _ in range(nd)))
            if suf in ('spm99', 'spm2') and rng.random() < 0.6:
                h.set_slope_inter(rng.choice([1.0, 2.5, -0.125, 1e-10, None]), None)
            if suf in ('spm99', 'spm2') and rng.random() < 0.6 and len(h.get_data_shape()) >= 3:
                aff = np.diag([rng.choice([1.0, 2.0, -3.0]), 2.0, 1.5, 1.0])
                aff[:3, 3] = [rng.uniform(-50, 50) for _ in range(3)]
                h.set_origin_from_affine(aff)
            if suf.startswith('nifti'):
                if rng.random() < 0.6:
                    aff = np.diag([rng.choice([1.0, 2.0, -3.0]), 2.0, 1.5, 1.0])
                    aff[:3, 3] = [rng.uniform(-100, 100) for _ in range(3)]
                    h.set_qform(aff, code=rng.randrange(0, 6))
                if rng.random() < 0.6:
                    aff = np.array([[rng.uniform(-3, 3) for _ in range(4)] for _ in range(3)] + [[0, 0, 0, 1.0]])
                    h.set_sform(aff, code=rng.randrange(0, 6))
                if rng.random() < 0.5:
                    h.set_slope_inter(rng.choice([1.0, 2.5, -0.125]), rng.choice([0.0, 10.0, -1e5]))
                if rng.random() < 0.5:
                    h.set_dim_info(*[rng.choice([None, 0, 1, 2]) for _ in range(3)])
                if rng.random() < 0.5:
                    h.set_intent(rng.choice(['none', 't test', 'vector', 'z score']), (), name='nm', allow_unknown=False) \
                        if rng.random() < 0.5 else h.set_intent(rng.choice([9999, 7777]), (1, 2, 3), name='x', allow_unknown=True)
                if rng.random() < 0.5:
                    h.set_xyzt_units(rng.choice(['mm', 'meter', 'micron', 'unknown']), rng.choice(['sec', 'msec', 'unknown']))
                if rng.random() < 0.5:
                    minoff = ent['single_vox_offset']
                    h.set_data_offset(rng.choice([0, minoff, minoff + 16, minoff + 16 * rng.randrange(1, 4000)]))
            elif rng.random() < 0.3:
                h.set_data_offset(rng.choice([0, 16, 348, 1024]))
    b = randomize_free(rng, suf, h.binaryblock, be_of(h.endianness))
    return hdr_with_bytes(suf, b, be_of(h.endianness))


def hdr_with_bytes(suf, b, be):
    """a header object whose binaryblock is exactly b: built from the bytes and, where the constructor
    normalises them (MGH), completed field by field through the public __setitem__"""
    h = make_hdr(suf, b, be)
    if h.binaryblock != bytes(b) and len(b) == len(h.binaryblock):
        view = np.ndarray((), dtype=h.structarr.dtype, buffer=bytes(b))
        for name in h.structarr.dtype.names:
            h[name] = view[name]
    return h


# ---- part A: bytes, endianness, swap, eq, copy
def part_a_case(chk, suf, hdr, valid, tag, lines, recs):
    i = len(recs)
    ent = info()['classes'][suf]
    klass = ent['klass']
    be = be_of(hdr.endianness)
    b = hdr.binaryblock
    rec = {'suf': suf, 'be': be, 'b': b, 'valid': valid, 'tag': tag}
    # implementation observables
    rebuilt = make_hdr(suf, b, be)
    rec['rt'] = rebuilt.binaryblock
    if suf == 'mgh' and b[:4] == b'\0\0\0\1':      # version 1: nothing for check_fix to repair
        rec['rt_check'] = klass(b, check=True).binaryblock
    if suf != 'mgh':
        # klass(bytes, endianness) with the default check=True: repaired header, HeaderDataError for problems of level >= 40,
        # OverflowError in the one case the model knows - anything else is a failure of the constructor
        from nibabel.spatialimages import HeaderDataError
        try:
            with warnings.catch_warnings():
                warnings.simplefilter('ignore')
                rec['ck'] = 'ok ' + hx(klass(b, code_of(be), check=True).binaryblock)
        except HeaderDataError:
            rec['ck'] = 'err HeaderDataError'
        except OverflowError:
            rec['ck'] = 'err raise'
        except Exception as e:  # noqa: BLE001
            rec['ck'] = f'err unexpected:{type(e).__name__}: {str(e)[:80]}'
    rec['fields'] = fmt_fields(field_values(suf, rebuilt))
    guessed = klass(b, check=False) if suf == 'mgh' else klass(b, None, check=False)
    rec['guess'] = be_of(guessed.endianness)
    try:
        sw = hdr.as_byteswapped()
        rec['swap'] = f'ok {be_of(sw.endianness)} {hx(sw.binaryblock)}'
        rec['swap_fields'] = fmt_fields(field_values(suf, sw))
        rec['eq1'] = bool(hdr == sw)
        rec['eq2'] = bool(sw == hdr)
        rec['swap_obj'] = (be_of(sw.endianness), sw.binaryblock)
    except ValueError:
        rec['swap'] = 'err refuse'
        chk.refusal('byteswap_refused')
    same = hdr.as_byteswapped(hdr.endianness)
    rec['swap_same'] = f'ok {be_of(same.endianness)} {hx(same.binaryblock)}'
    # copy independence (implementation only)
    cp = hdr.copy()
    orig = hdr.binaryblock
    first = ent['layout'][0][0] if ent['layout'][0][4] != 'KStr' else None
    name = next(n for n, o, w, c, k in ent['layout'] if k in ('KInt', 'KUInt'))
    cp[name] = (int(np.atleast_1d(cp[name]).ravel()[0]) + 1) % 100
    rec['copy_indep'] = hdr.binaryblock == orig and cp.binaryblock != orig
    cp2 = hdr.copy()
    keep = cp2.binaryblock
    hdr2 = make_hdr(suf, b, be)
    hdr2[name] = (int(np.atleast_1d(hdr2[name]).ravel()[0]) + 1) % 100
    rec['copy_eq'] = (cp2.binaryblock == keep and bool(cp2 == hdr) and cp2.endianness == hdr.endianness
                      and cp2.binaryblock == hdr.binaryblock)
    recs.append(rec)
    nb = native_be()
    lines.append(f'a{i}.f fields {suf} {be} {hx(b)}')
    lines.append(f'a{i}.r rt {suf} {be} {hx(b)}')
    lines.append(f'a{i}.g frombytes {suf} {nb} - {hx(b)}')
    lines.append(f'a{i}.s swap {suf} {nb} - {be} {hx(b)}')
    lines.append(f'a{i}.t swap {suf} {nb} {be} {be} {hx(b)}')
    if 'ck' in rec:
        lines.append(f'a{i}.k check {suf} 1 {be} {hx(b)}')
    if 'swap_obj' in rec:
        sbe, sb = rec['swap_obj']
        lines.append(f'a{i}.sf fields {suf} {sbe} {hx(sb)}')
        lines.append(f'a{i}.e1 eq {suf} {be} {hx(b)} {sbe} {hx(sb)}')
        lines.append(f'a{i}.e2 eq {suf} {sbe} {hx(sb)} {be} {hx(b)}')
    chk.count(key=None if tag == 'default' else ('A', suf, be, b), tag=f'A:{suf}', sample={'part': 'A', 'cls': suf, 'be': be, 'bytes': b.hex()[:80] + '...'} if i in (3, 400) else None)
    chk.tagc(f'A:{tag}')
    chk.tagc('A:endian>' if be else 'A:endian<')


def part_a_compare(chk, recs, mod):
    for i, rec in enumerate(recs):
        suf, be, b = rec['suf'], rec['be'], rec['b']
        case = {'part': 'A', 'cls': suf, 'be': be, 'bytes': b.hex(), 'valid': rec['valid']}
        dis = []
        exp_rt = 'ok ' + hx(rec['rt'])
        if suf == 'mgh':
            # the model's faithful constructor (goodRASFlag == 0 resets the affine) is op frombytes
            if mod.get(f'a{i}.g') != f'ok 1 {hx(rec["rt"])}':
                dis.append(('mgh-constructor', mod.get(f'a{i}.g', '')[:100], exp_rt[:100]))
        else:
            if mod.get(f'a{i}.r') != exp_rt:
                dis.append(('binaryblock', mod.get(f'a{i}.r', '')[:100], exp_rt[:100]))
            if mod.get(f'a{i}.g') != f'ok {rec["guess"]} {hx(b)}':
                dis.append(('guessed-endian', mod.get(f'a{i}.g', '')[:20], rec['guess']))
        if 'ck' in rec and HAVE_MODEL:
            mk = mod.get(f'a{i}.k', '')
            if mk.startswith('ok '):
                mb, mr = mk.split()[1], mk.split()[2]
                fatal = mr != '-' and any(int(x.split(':')[0]) >= 40 for x in mr.split(','))
                exp_ck = 'err HeaderDataError' if fatal else 'ok ' + mb
            else:
                exp_ck = 'err raise'
            if rec['ck'] != exp_ck and not rec['ck'].startswith('err unexpected'):
                dis.append(('klass(bytes, check=True)', exp_ck[:100], rec['ck'][:100]))
        if rec['rt'] == b and mod.get(f'a{i}.f') != 'ok ' + rec['fields']:
            dis.append(('fields', mod.get(f'a{i}.f', '')[:200], rec['fields'][:200]))
        if mod.get(f'a{i}.s') != rec['swap']:
            dis.append(('as_byteswapped', mod.get(f'a{i}.s', '')[:100], rec['swap'][:100]))
        if mod.get(f'a{i}.t') != rec['swap_same']:
            dis.append(('as_byteswapped(same)', mod.get(f'a{i}.t', '')[:100], rec['swap_same'][:100]))
        if 'swap_obj' in rec:
            if mod.get(f'a{i}.sf') != 'ok ' + rec['swap_fields']:
                dis.append(('swapped-fields', mod.get(f'a{i}.sf', '')[:200], rec['swap_fields'][:200]))
            if mod.get(f'a{i}.e1') != f'ok {int(rec["eq1"])}' or mod.get(f'a{i}.e2') != f'ok {int(rec["eq2"])}':
                dis.append(('__eq__', mod.get(f'a{i}.e1'), rec['eq1']))
        # ---- property predicate, directly on the implementation
        pred = None
        known = False
        if rec['rt'] != b:
            pred = 'header built from bytes does not serialise to the same bytes'
            if suf == 'mgh' and mgh_flag_zero(b):
                known = True
        elif rec.get('ck', '').startswith('err unexpected'):
            pred = 'building the header from its bytes (check=True) raised ' + rec['ck'][15:]
        elif rec.get('rt_check', b) != b:
            pred = 'header built from bytes with check=True (no problems to repair) does not serialise to the same bytes'
        elif rec['valid'] and rec['guess'] != be:
            pred = f'byte order of a valid header guessed as {code_of(rec["guess"])}, is {code_of(be)}'
        elif 'swap_obj' in rec and not (rec['eq1'] and rec['eq2']):
            pred = 'byte-swapped copy does not compare equal'
        elif 'swap_obj' in rec and rec['swap_fields'] != rec['fields']:
            pred = 'byte-swapped copy exposes different field values'
        elif 'swap_obj' in rec and rec['swap_obj'][0] == be:
            pred = 'as_byteswapped() kept the byte order'
        elif not rec['copy_indep'] or not rec['copy_eq']:
            pred = 'copy is not independent of / equal to the original'
        report(chk, case, pred, known, dis, mod.get(f'a{i}.r'))


def mgh_flag_zero(b):
    ent = info()['classes']['mgh']
    off = next(o for n, o, w, c, k in ent['layout'] if n == 'goodRASFlag')
    return len(b) >= off + 2 and b[off:off + 2] == b'\0\0'


HAVE_MODEL = True
_SEEN = {}


def report(chk, case, pred, known, dis, model_out=None):
    if not HAVE_MODEL:       # model-less failing-input search: only the direct predicates count
        dis = []
    if pred and not known:   # at most 12 replay files per (part, class, kind of failure); the rest are counted
        k = (case.get('part'), case.get('cls') or case.get('src'), pred[:40])
        _SEEN[k] = _SEEN.get(k, 0) + 1
        if _SEEN[k] > 12:
            chk.tagc('violations-not-filed')
            return
    if pred:
        if known:
            chk.known('S-C10a', 'MGHHeader built from bytes whose goodRASFlag is 0 resets delta/Mdc/Pxyz_c/goodRASFlag '
                      '(documented FreeSurfer default): binaryblock differs from the input bytes; copy() of such a header differs')
        else:
            chk.violation('property_violation', case=case, predicate=pred, model_output=model_out and model_out[:300])
    if dis:
        chk.disagreements += 1
        if not pred or known:
            chk.violation('correspondence', case=case, model_output=str(dis[0][1])[:300], impl_output=str(dis[0][2])[:300],
                          predicate='model and implementation disagree at ' + dis[0][0] +
                          '; the property predicate holds on this case', found_input=False,
                          theorem='correspondence C10/Model.v <-> nibabel header classes')



# ---- part E: mutable sub-objects (struct-array buffer, extension list) are never shared between copies
IMG_CLASS = {'analyze': ('nibabel.analyze', 'AnalyzeImage'), 'spm99': ('nibabel.spm99analyze', 'Spm99AnalyzeImage'),
             'spm2': ('nibabel.spm2analyze', 'Spm2AnalyzeImage'), 'nifti1': ('nibabel.nifti1', 'Nifti1Image'),
             'nifti1pair': ('nibabel.nifti1', 'Nifti1Pair'), 'nifti2': ('nibabel.nifti2', 'Nifti2Image'),
             'nifti2pair': ('nibabel.nifti2', 'Nifti2Pair'), 'mgh': ('nibabel.freesurfer.mghformat', 'MGHImage')}
CROSS = {'nifti1': 'nifti2', 'nifti1pair': 'nifti1', 'nifti2': 'nifti1pair', 'nifti2pair': 'nifti2',
         'analyze': 'spm99', 'spm99': 'spm2', 'spm2': 'analyze'}


def hstate(h):
    """observable state of a header object: byte order, binaryblock, extension list (codes + contents)"""
    exts = getattr(h, 'extensions', None)
    return (be_of(h.endianness), h.binaryblock,
            None if exts is None else [(int(e.get_code()), bytes(e.content)) for e in exts])


def fmt_state(st):
    be, b, ex = st
    ex = ex or []
    return f'{be} {hx(b)} {len(ex)}' + ''.join(f' {c} {hx(x)}' for c, x in ex)


def derive(suf, h, route):
    """a header obtained from h by one of the copying routes"""
    klass = info()['classes'][suf]['klass']
    if route == 'copy':
        return h.copy()
    if route == 'from_header':
        return klass.from_header(h, check=False)
    if route == 'from_header_check':
        return klass.from_header(h, check=True)
    if route == 'constructor':
        if hasattr(h, 'extensions'):
            return klass(h.binaryblock, h.endianness, False, h.extensions)
        return klass(h.binaryblock, check=False) if suf == 'mgh' else klass(h.binaryblock, h.endianness, check=False)
    if route == 'cross':
        return info()['classes'][CROSS[suf]]['klass'].from_header(h, check=False)
    if route in ('image', 'image2'):
        mod_, name = IMG_CLASS[suf]
        icls = get_class(mod_, name)
        data = np.zeros((2, 3, 2), dtype=np.float32)     # the image's header copy is updated to this shape, h is not
        img = icls(data, np.eye(4), h)
        return img.header if route == 'image' else icls(data, np.eye(4), img.header).header
    raise ValueError(route)


def mutate_hdr(h, mut, rng):
    from nibabel.nifti1 import Nifti1Extension
    if mut == 'bytes':
        name = next(n for n in h.structarr.dtype.names if h.structarr.dtype[n].kind in 'iu' and h.structarr.dtype[n].shape == ())
        h[name] = (int(h[name]) + 1) % 100
    elif mut == 'append':
        h.extensions.append(Nifti1Extension(4, b'appended'))
    elif mut == 'clear':
        del h.extensions[:]
    elif mut == 'set':
        h.extensions[:] = [Nifti1Extension(7, b'\xff')]
    elif mut == 'shape':
        h.set_data_shape((3, 4, 5))
    else:
        raise ValueError(mut)


MUT_MODEL = {'append': 'append:4:' + hx(b'appended'), 'clear': 'clear', 'set': 'set'}


def part_e(chk, lines, recs):
    from nibabel.nifti1 import Nifti1Extension
    chk_tier = getattr(chk, 'tier', 'thorough')
    inf = info()
    fixed = __import__('random').Random(7)
    k = 0
    for suf, ent in inf['classes'].items():
        nifti = suf.startswith('nifti')
        routes = ['copy', 'constructor'] + (['from_header', 'from_header_check', 'image', 'image2'] if suf != 'ecat' else []) + \
                 (['cross'] if suf in CROSS else [])
        muts = ['bytes', 'shape'] + (['append', 'clear', 'set'] if nifti else [])
        if suf == 'ecat':
            muts = ['bytes']
        full = chk_tier == 'thorough'
        combos = []
        for route in routes:
            for mut in muts:
                for who in ('c', 'o'):
                    if full:
                        combos += [(be, nx, route, mut, who) for be in (0, 1) for nx in ((0, 1, 2) if nifti else (0,))]
                    else:      # quick tier: byte order and number of extensions rotate
                        j = len(combos)
                        combos.append((j % 2, (j // 2) % 3 if nifti else 0, route, mut, who))
        for be, nx, route, mut, who in combos:
            if suf == 'mgh':
                be = 1
            for _once in (0,):
                for _once2 in (0,):
                    for _once3 in (0,):
                        for _once4 in (0,):
                            base = gen_valid(fixed, suf, be) if k % 3 else (ent['klass']() if suf == 'mgh' else ent['klass'](endianness=code_of(be)))
                            k += 1
                            if nifti:
                                for j in range(nx):
                                    base.extensions.append(Nifti1Extension(6, b'comment %d' % j))
                            with warnings.catch_warnings():
                                warnings.simplefilter('ignore')
                                try:
                                    der = derive(suf, base, route)
                                except Exception as e:  # noqa: BLE001 - e.g. check=True refusing a generated header
                                    chk.refusal('derive:' + type(e).__name__)
                                    continue
                                s_o, s_c = hstate(base), hstate(der)
                                target, other, s_other = (der, base, s_o) if who == 'c' else (base, der, s_c)
                                try:
                                    mutate_hdr(target, mut, fixed)
                                except Exception as e:  # noqa: BLE001
                                    chk.refusal('mutate:' + type(e).__name__)
                                    continue
                            shared_buf = bool(np.shares_memory(base.structarr, der.structarr))
                            shared_ext = nifti and hasattr(der, 'extensions') and base.extensions is der.extensions
                            rec = {'suf': suf, 'be': be, 'route': route, 'mut': mut, 'who': who, 'nx': nx, 'bytes': s_o[1],
                                   'ok': hstate(other) == s_other and not shared_buf and not shared_ext,
                                   'detail': f'shared_buf={shared_buf} shared_ext={shared_ext} other_before={fmt_state(s_other)[:60]}... other_after={fmt_state(hstate(other))[:60]}...'}
                            # the model covers the contents for the routes that are plain copies
                            if route in ('copy', 'constructor', 'from_header') and mut in ('bytes', 'append', 'clear', 'set') and suf != 'mgh':
                                mm = MUT_MODEL.get(mut) or 'bytes:' + hx(target.binaryblock)
                                exts = s_o[2] or []
                                rec['line'] = f'e{len(recs)} copymut {be} {hx(s_o[1])} {who} {mm} {len(exts)}' + ''.join(f' {c} {hx(x)}' for c, x in exts)
                                rec['impl'] = f'ok shared={int(shared_buf or shared_ext)} orig={fmt_state(hstate(base))} copy={fmt_state(hstate(der))}'
                                lines.append(rec['line'])
                            recs.append(rec)
                            chk.count(key=('E', suf, be, route, mut, who, nx), tag=f'E:{route}')
                            chk.tagc(f'E:mut-{mut}')


def part_e_compare(chk, recs, mod):
    for i, rec in enumerate(recs):
        case = {'part': 'E', 'cls': rec['suf'], 'be': rec['be'], 'route': rec['route'], 'mutation': rec['mut'],
                'through': 'copy' if rec['who'] == 'c' else 'original', 'n_ext': rec['nx'], 'bytes': rec['bytes'].hex()}
        dis = []
        if 'line' in rec and mod.get(f'e{i}') != rec['impl']:
            dis.append(('copy + mutation', first_diff(mod.get(f'e{i}', ''), rec['impl']), rec['impl'][-160:]))
        pred = None if rec['ok'] else ('copies are not independent: a mutation through the ' + case['through'] +
                                       ' shows in the other object (' + rec['detail'] + ')')
        report(chk, case, pred, False, dis, mod.get(f'e{i}'))


# ---- part S: signatures (what the class sniffers see): C10's definition, C12's own copy, may_contain_header
C12_NAME = {'nifti1': 'Nifti1Image', 'nifti1pair': 'Nifti1Pair', 'nifti2': 'Nifti2Image', 'nifti2pair': 'Nifti2Pair',
            'analyze': 'AnalyzeImage', 'spm99': 'Spm99AnalyzeImage', 'spm2': 'Spm2AnalyzeImage'}


def part_s(chk, arecs, lines):
    """for every header of part A: the signature of its class per C10's model (lines) and per C12's model"""
    import nibabel.imageclasses as ic
    names = [k.__name__ for k in ic.all_image_classes]
    c12_lines, recs = [], []
    for i, rec in enumerate(arecs):
        suf, b = rec['suf'], rec['rt'] if rec['suf'] == 'mgh' else rec['b']
        if suf == 'ecat' or 'fields' not in rec:
            continue
        for cf in ((0, 1) if suf.startswith('nifti2') else (0,)):
            lines.append(f's{i}.{cf} sig {suf} {cf} {hx(b)}')
            if suf in C12_NAME:
                nm = 'Cifti2Image' if cf else C12_NAME[suf]
                c12_lines.append(f's{i}.{cf} wsig {names.index(nm)} {hx(b)}')
        recs.append((i, suf, b, rec['valid'] and rec['tag'] != 'random-bytes'))
    c12 = {}
    exe = os.path.join(os.path.dirname(os.path.dirname(os.path.abspath(__file__))), 'bin', 'modelrun_c12')
    if os.path.exists(exe):
        try:
            c12 = run_model_parallel('C12', c12_lines, jobs=4)
        except Exception as e:  # noqa: BLE001 - C12's runner being broken is not C10's finding
            c12 = {}
            chk.tagc('S:c12-runner-failed')
            chk.extra['c12_signature_comparison'] = f'skipped: {type(e).__name__}'
    else:
        chk.tagc('S:c12-runner-missing')
        chk.extra['c12_signature_comparison'] = 'skipped: bin/modelrun_c12 missing'
    return recs, c12


def part_s_compare(chk, recs, c12, mod):
    inf = info()
    for i, suf, b, valid in recs:
        klass = inf['classes'][suf]['klass']
        case = {'part': 'A', 'cls': suf, 'be': None, 'bytes': b.hex(), 'valid': valid}
        for cf in ((0, 1) if suf.startswith('nifti2') else (0,)):
            m10, m12 = mod.get(f's{i}.{cf}'), c12.get(f's{i}.{cf}')
            chk.count(key=('S', suf, cf, b), tag='S:signature')
            if m12 is not None and m12.startswith('err'):
                chk.tagc('S:c12-runner-error')
                continue
            if m12 is not None and m10 != m12:
                chk.disagreements += 1
                chk.violation('correspondence', case=case, model_output=f'C10 signature: {m10}', impl_output=f'C12 writer_sig: {m12}',
                              predicate='the signature predicate of C10 and the writer_sig of C12 differ on these header bytes',
                              found_input=False, theorem='C10.signature <-> C12.writer_sig')
        # a header built through the setters is accepted by its own class's sniffer and shows the class signature
        if valid and suf != 'mgh':
            ok_impl = bool(klass.may_contain_header(b))
            m0 = mod.get(f's{i}.0')
            m1 = mod.get(f's{i}.1') if suf.startswith('nifti2') else 'ok 0'
            if not ok_impl or (HAVE_MODEL and 'ok 1' not in (m0, m1)):
                report(chk, case, 'a header written by the class does not carry its signature '
                       f'(may_contain_header={ok_impl}, model signature={m0}/{m1})', False, [], m0)

# ---- part B: check batteries
def check_runner(klass):
    """BatteryRunner over the class's checks, for check_only (which has no public header-level entry point).  The
    list of checks is private: reached only here, by plausible names; None when none is found - the callers then
    fall back to the public check_fix on a copy"""
    from nibabel.batteryrunners import BatteryRunner
    for name in ('_get_checks', 'get_checks', '_checks', 'checks'):
        fn = getattr(klass, name, None)
        if fn is None:
            continue
        try:
            checks = fn() if callable(fn) else fn
            return BatteryRunner(tuple(checks))
        except Exception:  # noqa: BLE001
            continue
    return None


def fmt_levels(levels):
    return ','.join(str(int(l)) for l in levels) if levels else '-'


def canon_model_reports(out):
    """model line 'ok <hex> lvl:msg:fix,...' -> 'ok <hex> lvl,...' (the implementation is observed by levels only:
    message texts and fix messages are wording, not behaviour); other lines unchanged"""
    if not out or not out.startswith('ok '):
        return out
    parts = out.split()
    if len(parts) != 3:
        return out
    reps = parts[2]
    return f'{parts[0]} {parts[1]} ' + ('-' if reps == '-' else ','.join(x.split(':')[0] for x in reps.split(',')))


def model_after_classes(out):
    """[(level, message class)] of a model check line"""
    if not out or not out.startswith('ok ') or len(out.split()) != 3 or out.split()[2] == '-':
        return []
    return [(int(x.split(':')[0]), x.split(':')[1]) for x in out.split()[2].split(',')]


UNFIXABLE = {'dt_unrec', 'dt_unsup', 'bp_nodt', 'magic', 'off_not16', 'origin'}     # message classes of the MODEL


def set_f(hdr, suf, name, idx, bits):
    """write an IEEE bit pattern into element idx of a float field"""
    w = next(wd for n, o, wd, c, k in info()['classes'][suf]['layout'] if n == name)
    val = np.array([bits], dtype='<u%d' % w).view('<f%d' % w)[0]
    if idx is None:
        hdr.structarr[name] = val
    else:
        hdr.structarr[name][idx] = val


def defect_menu(suf):
    """seed-independent defect seeds per check: name -> function(hdr, variant)"""
    ent = info()['classes'][suf]
    n2 = suf.startswith('nifti2')
    m = {}
    if suf == 'mgh':
        m['version'] = [lambda h: h.__setitem__('version', 0), lambda h: h.__setitem__('version', 2)]
        return m
    if suf == 'ecat':
        return m
    other = 540 if ent['sizeof_hdr'] == 348 else 348
    m['sizeof'] = [lambda h: h.__setitem__('sizeof_hdr', other), lambda h: h.__setitem__('sizeof_hdr', 1543569408),
                   lambda h: h.__setitem__('sizeof_hdr', -1)]
    m['datatype'] = [lambda h: h.__setitem__('datatype', 3), lambda h: h.__setitem__('datatype', 255),
                     lambda h: h.__setitem__('datatype', -1), lambda h: h.__setitem__('datatype', 0)]
    m['bitpix'] = [lambda h: h.__setitem__('bitpix', 7), lambda h: h.__setitem__('bitpix', -8),
                   lambda h: h.__setitem__('bitpix', 0)]
    w = 8 if n2 else 4
    one, two = (0x3ff0000000000000, 0x4000000000000000) if n2 else (0x3f800000, 0x40000000)
    sb = 1 << (8 * w - 1)
    nan = (0x7ff8000000000000 if n2 else 0x7fc00000)
    inf = (0x7ff0000000000000 if n2 else 0x7f800000)
    m['pixzero'] = [lambda h: set_f(h, suf, 'pixdim', 2, 0), lambda h: set_f(h, suf, 'pixdim', 1, sb),
                    lambda h: (set_f(h, suf, 'pixdim', 1, 0), set_f(h, suf, 'pixdim', 3, sb))]
    m['pixneg'] = [lambda h: set_f(h, suf, 'pixdim', 3, two | sb), lambda h: set_f(h, suf, 'pixdim', 1, inf | sb),
                   lambda h: (set_f(h, suf, 'pixdim', 2, 1 | sb), set_f(h, suf, 'pixdim', 3, nan | sb | 5))]
    if suf in ('spm99', 'spm2'):
        m['origin'] = [lambda h: h.__setitem__('origin', [30000, 1, 1, 0, 0]), lambda h: h.__setitem__('origin', [-32768, 0, 0, 0, 0]),
                       lambda h: h.__setitem__('origin', [0, 0, -9, 7, 7])]
    if suf.startswith('nifti'):
        m['qfac'] = [lambda h: set_f(h, suf, 'pixdim', 0, 0), lambda h: set_f(h, suf, 'pixdim', 0, two),
                     lambda h: set_f(h, suf, 'pixdim', 0, nan)]
        m['magic'] = [lambda h: h.__setitem__('magic', b'abc'), lambda h: h.__setitem__('magic', b''),
                      lambda h: h.__setitem__('magic', b'n+1x'), lambda h: h.__setitem__('magic', b'ni2' if not n2 else b'ni1')]
        if n2:
            m['offset'] = [lambda h: h.__setitem__('vox_offset', 17), lambda h: h.__setitem__('vox_offset', -16),
                           lambda h: h.__setitem__('vox_offset', 543), lambda h: h.__setitem__('vox_offset', 2 ** 40 + 8)]
        else:
            m['offset'] = [lambda h: h.__setitem__('vox_offset', 17), lambda h: h.__setitem__('vox_offset', -16),
                           lambda h: set_f(h, suf, 'vox_offset', None, nan), lambda h: h.__setitem__('vox_offset', 360.5),
                           lambda h: set_f(h, suf, 'vox_offset', None, inf), lambda h: h.__setitem__('vox_offset', 1e30),
                           lambda h: set_f(h, suf, 'vox_offset', None, inf | sb)]
        m['qform'] = [lambda h: h.__setitem__('qform_code', 6), lambda h: h.__setitem__('qform_code', -1)]
        m['sform'] = [lambda h: h.__setitem__('sform_code', 100), lambda h: h.__setitem__('sform_code', -3)]
        if n2:
            m['eol'] = [lambda h: h.__setitem__('eol_check', (0, 0, 0, 0)), lambda h: h.__setitem__('eol_check', (13, 10, 26, 11)),
                        lambda h: h.__setitem__('eol_check', (0, 0, 0, -1))]
    return m


def random_defects(rng, suf, h):
    """random values in the checked fields (random tail)"""
    ent = info()['classes'][suf]
    if suf == 'mgh':
        if rng.random() < 0.7:
            h['version'] = rng.choice([0, 1, 2, -1, 16777216])
        return
    n2 = suf.startswith('nifti2')
    w = 8 if n2 else 4
    if rng.random() < 0.3:
        h['sizeof_hdr'] = rng.choice([348, 540, 0, 1543569408, 469893120, -2 ** 31])
    if rng.random() < 0.4:
        h['datatype'] = rng.choice([c for c, _ in ent['dtcodes']] + [3, 5, -1, 32767, -32768, 257])
    if rng.random() < 0.4:
        h['bitpix'] = rng.choice([0, 8, 16, 32, 64, 128, 24, -8, 1, 32767])
    for i in (1, 2, 3):
        if rng.random() < 0.4:
            set_f(h, suf, 'pixdim', i, rand_fbits(rng, w))
    if 'origin' in [n for n, *_ in ent['layout']] and rng.random() < 0.6:
        h['origin'] = [rng.choice([0, 0, 1, -1, 5, 100, 32767, -32768, 16384, -16384]) for _ in range(5)]
        if rng.random() < 0.5:
            h['dim'] = [rng.choice([3, 4])] + [rng.choice([1, 2, 5, 100, 16384, -16384, 32767, -32768, 0]) for _ in range(7)]
        if rng.random() < 0.5:      # boundaries of  -dim < origin < 2 * dim  (int16 arithmetic)
            d = [int(x) for x in h['dim'][1:4]]
            w16 = lambda z: (z + 32768) % 65536 - 32768
            h['origin'] = [w16(rng.choice([2 * x, 2 * x - 1, 2 * x + 1, -x, -x + 1, -x - 1, x])) for x in d] + [0, 0]
    if suf.startswith('nifti'):
        if rng.random() < 0.4:
            set_f(h, suf, 'pixdim', 0, rand_fbits(rng, w))
        if rng.random() < 0.4:
            h['magic'] = rng.choice([b'n+1', b'ni1', b'n+2', b'ni2', b'', b'n+1\0', b'n+\0', b'\0n+1', b'N+1', b'n+1 '])
        if rng.random() < 0.6:
            if n2:
                h['vox_offset'] = rng.choice([0, 1, 16, 543, 544, 545, 560, -1, -16, 2 ** 62, -2 ** 63, rng.getrandbits(20)])
            elif rng.random() < 0.5:
                set_f(h, suf, 'vox_offset', None, rand_fbits(rng, 4))
            else:
                h['vox_offset'] = rng.choice([0, 1, 16, 351, 352, 353, 368, -1, -16, 351.999, 352.5, 1e20, 2 ** 24, 2 ** 24 + 2])
        if rng.random() < 0.3:
            h['qform_code'] = rng.choice([0, 5, 6, -1, 32767])
        if rng.random() < 0.3:
            h['sform_code'] = rng.choice([0, 5, 6, -1, 32767])
        if n2 and rng.random() < 0.5:
            h['eol_check'] = rng.choice([(0, 0, 0, 0), (13, 10, 26, 10), (13, 10, 26, 11), (10, 26, 10, 13), (-13, 10, 26, 10), (0, 0, 0, 1)])


def run_battery(suf, b, be):
    """implementation: check_only, check_fix, then check_only / check_fix again; observed by problem LEVELS.
    check_fix goes through the public hdr.check_fix(logger, error_level); check_only through BatteryRunner when the
    class's check list can be reached, else through check_fix on a copy.  An exception is an outcome ('err raise'
    for the OverflowError the model knows, 'err unexpected:<Type>' for anything else), never a crash"""
    klass = info()['classes'][suf]['klass']
    br = check_runner(klass)
    out = {}

    def err(e):
        return 'err raise' if isinstance(e, OverflowError) else f'err unexpected:{type(e).__name__}: {str(e)[:80]}'

    def only(bb):
        h = make_hdr(suf, bb, be)
        if br is not None:
            lv = [int(r.problem_level) for r in br.check_only(h)]
            return lv, h.binaryblock
        return public_check_fix(make_hdr(suf, bb, be)), h.binaryblock
    with warnings.catch_warnings():
        warnings.simplefilter('ignore')
        try:
            lv0, b0 = only(b)
            out['only'] = 'ok ' + hx(b) + ' ' + fmt_levels(lv0)
            out['only_bytes'] = b0
            out['only_levels'] = lv0
        except Exception as e:  # noqa: BLE001
            out['only'] = err(e)
        try:
            h1 = make_hdr(suf, b, be)
            lv1 = public_check_fix(h1)
            out['fixed'] = h1.binaryblock
            out['fix'] = 'ok ' + hx(out['fixed']) + ' ' + fmt_levels(lv1)
            out['fix_levels'] = lv1
        except Exception as e:  # noqa: BLE001
            out['fix'] = err(e)
            return out
        if not out['only'].startswith('ok'):
            return out
        try:
            lv2, _ = only(out['fixed'])
            out['after'] = 'ok ' + hx(out['fixed']) + ' ' + fmt_levels(lv2)
            out['after_levels'] = lv2
            h3 = make_hdr(suf, out['fixed'], be)
            public_check_fix(h3)
            out['fixed2'] = h3.binaryblock
        except Exception as e:  # noqa: BLE001
            out['second'] = err(e)
    return out


def part_b_case(chk, suf, b, be, tag, lines, recs, key):
    i = len(recs)
    o = run_battery(suf, b, be)
    recs.append({'suf': suf, 'be': be, 'b': b, 'o': o, 'tag': tag})
    lines.append(f'b{i}.o check {suf} 0 {be} {hx(b)}')
    lines.append(f'b{i}.x check {suf} 1 {be} {hx(b)}')
    if 'fixed' in o:
        lines.append(f'b{i}.a check {suf} 0 {be} {hx(o["fixed"])}')
    chk.count(key=('B', suf, be, key), tag=f'B:{suf}', sample={'part': 'B', 'cls': suf, 'be': be, 'defects': tag} if i in (7, 1500) else None)
    chk.tagc('B:' + ('exhaustive-subset' if tag.startswith('subset') else 'random'))


def part_b_compare(chk, recs, mod):
    for i, rec in enumerate(recs):
        suf, be, b, o = rec['suf'], rec['be'], rec['b'], rec['o']
        case = {'part': 'B', 'cls': suf, 'be': be, 'bytes': b.hex(), 'defects': rec['tag']}
        dis = []
        mo, mx, ma = (canon_model_reports(mod.get(f'b{i}.{t}')) for t in 'oxa')
        if mo != o['only']:
            dis.append(('check_only', str(mo)[-160:], o['only'][-160:]))
        if mx != o['fix']:
            dis.append(('check_fix', first_diff(mx or '', o['fix']), o['fix'][-160:]))
        if 'after' in o and ma != o['after']:
            dis.append(('check_only after check_fix', str(ma)[-160:], o['after'][-160:]))
        pred = None
        unexpected = [v for v in (o['only'], o['fix'], o.get('second', '')) if v.startswith('err unexpected')]
        if unexpected:
            # an exception type the model's battery does not produce on these bytes: a failure of the checks themselves
            pred = ('running the header checks raised ' + unexpected[0][15:] + ' (the model battery yields: ' +
                    str(mod.get(f'b{i}.x'))[-120:] + ')')
        elif o['fix'] == 'err raise' or o['only'] == 'err raise':
            chk.refusal('check_raised_OverflowError')
        else:
            if o.get('only_bytes') != b:
                pred = 'check_only modified the header'
            elif o['fixed2'] != o['fixed']:
                pred = 'check_fix is not idempotent: a second run changed the header again'
            elif all(l == 0 for l in o['only_levels']) and o['fixed'] != b:
                pred = 'check_fix altered a header that has no problems'
            else:
                # C10_fix_clears: after check_fix only problems of the unfixable classes remain.  The classes are the
                # model's (by position in the battery); the implementation is observed by its levels
                mcls = model_after_classes(mod.get(f'b{i}.a'))
                still = [(p, l) for p, l in enumerate(o.get('after_levels', []))
                         if l and (p >= len(mcls) or mcls[p][0] == 0 or mcls[p][1] not in UNFIXABLE)] if mcls else []
                if still:
                    pred = 'a fixable problem is still reported after check_fix at battery position(s) ' + str(still)
            if any(l for l in o['only_levels']):
                chk.tagc('B:has-problem')
            else:
                chk.tagc('B:clean')
        report(chk, case, pred, False, dis, mod.get(f'b{i}.x'))


def first_diff(a, b):
    if a is None:
        return '<missing>'
    for k, (x, y) in enumerate(zip(a, b)):
        if x != y:
            return f'at char {k}: model ...{a[max(0, k - 20):k + 40]} impl ...{b[max(0, k - 20):k + 40]}'
    return f'lengths {len(a)} vs {len(b)}: {a[-80:]}'


# ---- part C: conversions between Analyze-family header types
REDERIVED = {'magic', 'datatype', 'bitpix', 'dim', 'pixdim', 'glmin'}


def conv_impl(src_suf, dst_suf, hdr, check):
    from nibabel.spatialimages import HeaderDataError
    dst = info()['classes'][dst_suf]['klass']
    with warnings.catch_warnings():
        warnings.simplefilter('ignore')
        try:
            new = dst.from_header(hdr, check=check)
        except (HeaderDataError, KeyError):
            # one outcome class for every refusal (unsupported datatype, shape or zooms that do not fit, check_fix
            # raising): the implementation raises them with one type; the wording is not behaviour
            return 'err refuse', None
        except OverflowError:
            return 'err raise', None
        except Exception as e:  # noqa: BLE001 - an outcome, reported with the input
            return f'err unexpected:{type(e).__name__}: {str(e)[:80]}', None
    return 'ok ' + hx(new.binaryblock), new


def part_c_case(chk, rng, src, dst, hdr, check, lines, recs):
    i = len(recs)
    be = be_of(hdr.endianness)
    b = hdr.binaryblock
    res, new = conv_impl(src, dst, hdr, check)
    rec = {'src': src, 'dst': dst, 'be': be, 'b': b, 'check': check, 'res': res}
    pred = None
    if new is not None:
        if be_of(new.endianness) != native_be():
            pred = 'converted header is not native-endian'
        # dtype, shape, zooms
        elif new.get_data_dtype().newbyteorder('=') != hdr.get_data_dtype().newbyteorder('='):
            pred = 'conversion changed the data dtype'
        elif tuple(new.get_data_shape()) != tuple(hdr.get_data_shape()):
            pred = f'conversion changed the shape {hdr.get_data_shape()} -> {new.get_data_shape()}'
        else:
            zs, zd = hdr.get_zooms(), new.get_zooms()
            narrow = np.float32 if (src.startswith('nifti2') and not dst.startswith('nifti2')) else None
            zs_c = tuple(np.float32(z) if narrow else z for z in zs)
            repaired = check and any(not (np.float64(z) > 0) for z in zs)   # check_fix may repair such zooms
            if not repaired and (len(zs) != len(zd) or any(not (np.float64(a) == np.float64(c) or (np.isnan(a) and np.isnan(c))) for a, c in zip(zs_c, zd))):
                pred = f'conversion changed the zooms {zs} -> {zd}'
        if pred is None and 'pixdim' in hdr.structarr.dtype.names and 'pixdim' in new.structarr.dtype.names:
            # pixdim[0] (qfac of NIfTI) is not a zoom: it has to be carried over like any same-named field
            q1, q2 = float(hdr['pixdim'][0]), float(new['pixdim'][0])
            repaired = check and dst.startswith('nifti') and q1 not in (-1.0, 1.0)     # _chk_qfac may repair it
            if not repaired and not (q1 == q2 or (np.isnan(q1) and np.isnan(q2))):
                pred = f'same-named field pixdim[0] (qfac) not preserved by the conversion: {q1} -> {q2}'
        if pred is None and not check:
            sl = {n: (w, c, k) for n, o, w, c, k in info()['classes'][src]['layout']}
            for n, o, w, c, k in info()['classes'][dst]['layout']:
                if n in sl and n not in REDERIVED and sl[n][0] == w:
                    a1 = np.atleast_1d(hdr.structarr[n])
                    a2 = np.atleast_1d(new.structarr[n])
                    if a1.astype(a1.dtype.newbyteorder('=')).tobytes() != a2.astype(a2.dtype.newbyteorder('=')).tobytes():
                        pred = f'same-named field {n} not preserved by the conversion'
                        break
    elif res.startswith('err unexpected'):
        pred = 'from_header raised ' + res[15:]
    else:
        chk.refusal('convert:' + res)
    rec['pred'] = pred
    recs.append(rec)
    lines.append(f'c{i} conv {src} {dst} {int(check)} {be} {hx(b)}')
    chk.count(key=('C', src, dst, be, b, check), tag=f'C:{src}->{dst}', sample=None)
    chk.tagc('C:check' if check else 'C:nocheck')


def part_c_compare(chk, recs, mod):
    for i, rec in enumerate(recs):
        case = {'part': 'C', 'src': rec['src'], 'dst': rec['dst'], 'be': rec['be'], 'bytes': rec['b'].hex(), 'check': rec['check']}
        dis = []
        mc = mod.get(f'c{i}', '')
        if mc.split()[:2] in (['err', 'dtype'], ['err', 'shape'], ['err', 'zooms'], ['err', 'check']):
            mc = 'err refuse'
        if mc != rec['res']:
            dis.append(('from_header', first_diff(mc, rec['res']), rec['res'][-120:]))
        report(chk, case, rec['pred'], False, dis, mod.get(f'c{i}'))


def subsets(names):
    for r in range(len(names) + 1):
        yield from itertools.combinations(names, r)


def run(chk: Check):
    ensure_impl_path()
    import logging
    logging.disable(logging.CRITICAL)      # check_fix logs every report
    chk.rule = ('A: per header class, headers built through the public setters (dtype/shape/zooms/offset/slope/qform/'
                'sform/intent/units/origin) with random byte patterns (NaN payloads, -0, inf, subnormals) in every '
                'unconstrained field, both byte orders (MGH big only), plus fully random byte blocks; B: every subset '
                'of the seeded defects of each class battery (seed-independent, byte order alternating; both in the '
                'thorough tier) with the defect variant rotating, plus random values in all checked fields; C: every '
                'ordered pair of distinct Analyze-family classes x random valid source headers x check in {False,True}. '
                'A case is non-trivial when its header differs from the class default; distinct by (class, byte order, bytes).')
    chk.assumptions = ['headers are exercised through klass(bytes, endianness, check=False), structarr, as_byteswapped, ==, copy, '
                       'the public hdr.check_fix(logger, error_level), BatteryRunner.check_only and klass.from_header; reports are observed by level',
                       'error_level is the default 40; logging is silenced',
                       'conversions: source dim[0] in 0..7 (valid headers); other values are outside the modelled domain']
    chk.build(gen_tables=gen_tables)
    chk.run_probes()
    global _INFO, HAVE_MODEL
    if not chk.model_ok:
        _INFO = None      # re-measure leniently for the model-less failing-input search
    # when the model cannot be built (e.g. the table translator refuses a changed class) the cases are still
    # generated and the property predicates evaluated directly on the implementation: the failing-input search
    HAVE_MODEL = bool(chk.model_ok)
    inf = info()
    rng = chk.rng
    nb = native_be()
    lines = []
    # ---------------- defaults
    drecs = []
    for suf, ent in inf['classes'].items():
        for be in (0, 1):
            if suf == 'mgh' and be == 0:
                continue
            h = ent['klass']() if suf == 'mgh' else ent['klass'](endianness=code_of(be))
            drecs.append((suf, be, f'ok {be_of(h.endianness)} {hx(h.binaryblock)}'))
            lines.append(f'd{len(drecs) - 1} default {suf} {be}')
            chk.count(key=('D', suf, be), tag='D:default')
    # ---------------- part A
    arecs = []
    n_valid = chk.n(48, 400)
    n_raw = chk.n(25, 200)
    fixed_rng = __import__('random').Random(20260930)
    for suf, ent in inf['classes'].items():
        # seed-independent core: defaults in both orders + a fixed pseudo-random stream
        for be in (0, 1):
            if suf == 'mgh' and be == 0:
                continue
            h = ent['klass']() if suf == 'mgh' else ent['klass'](endianness=code_of(be))
            part_a_case(chk, suf, h, True, 'default', lines, arecs)
            for _ in range(8):
                part_a_case(chk, suf, gen_valid(fixed_rng, suf, be), True, 'setters-fixed-stream', lines, arecs)
        for _ in range(n_valid):
            be = rng.randrange(2)
            part_a_case(chk, suf, gen_valid(rng, suf, be), True, 'setters', lines, arecs)
        for _ in range(n_raw):
            be = 1 if suf == 'mgh' else rng.randrange(2)
            b = bytes(rng.getrandbits(8) for _ in range(ent['size']))
            if suf == 'mgh' and mgh_flag_zero(b):
                b = b[:28] + b'\0\1' + b[30:]
            part_a_case(chk, suf, hdr_with_bytes(suf, b, be), False, 'random-bytes', lines, arecs)
    # the one case that probes S-C10a
    hm = inf['classes']['mgh']['klass']()
    hm.set_data_shape((3, 4, 5))
    hm['Pxyz_c'] = [1.0, 2.0, 3.0]
    bm = bytearray(hm.binaryblock)
    bm[28:30] = b'\0\0'
    part_a_mgh_probe(chk, bytes(bm), lines, arecs)
    # wrong-size blocks are refused (WrapStructError); MGH pads / truncates from 90 bytes on
    from nibabel.wrapstruct import WrapStructError
    srecs = []
    for suf, ent in inf['classes'].items():
        base = (ent['klass']() if suf == 'mgh' else ent['klass']()).binaryblock
        for n in (0, 1, ent['size'] - 1, ent['size'] + 1, 89, 90, 100, 200):
            b = (base + bytes(range(1, 120)))[:n]
            try:
                h = ent['klass'](b, check=False)
                exp = f'ok {be_of(h.endianness)} {hx(h.binaryblock)}'
            except WrapStructError:
                exp = 'err size'
                chk.refusal('wrong_size')
            srecs.append((suf, n, exp))
            lines.append(f's{len(srecs) - 1} frombytes {suf} {nb} - {hx(b)}')
            chk.count(key=('S', suf, n), tag='D:size')
    # ---------------- part B
    brecs = []
    both = chk.tier == 'thorough'
    for suf, ent in inf['classes'].items():
        menu = defect_menu(suf)
        names = list(menu)
        if not ent['checks']:
            continue
        base_be = 0
        for k, sub in enumerate(subsets(names)):
            for be in ((0, 1) if both else ((k + base_be) % 2,)):
                if suf == 'mgh':
                    be = 1
                hb = gen_valid(fixed_rng, suf, be)
                h = make_hdr(suf, hb.binaryblock, be_of(hb.endianness))
                for j, nm in enumerate(sub):
                    variants = menu[nm]
                    variants[(k + j) % len(variants)](h)
                part_b_case(chk, suf, h.binaryblock, be_of(h.endianness), 'subset:' + '+'.join(sub), lines, brecs, (sub, k))
                if suf == 'mgh':
                    break
        for _ in range(chk.n(110, 1200)):
            be = 1 if suf == 'mgh' else rng.randrange(2)
            hb = gen_valid(rng, suf, be)
            h = make_hdr(suf, hb.binaryblock, be_of(hb.endianness))
            with warnings.catch_warnings():
                warnings.simplefilter('ignore')
                random_defects(rng, suf, h)
            part_b_case(chk, suf, h.binaryblock, be_of(h.endianness), 'random', lines, brecs, h.binaryblock)
    # ---------------- part C
    crecs = []
    fam = ANALYZE_FAMILY
    for src in fam:
        for dst in fam:
            if src == dst:
                continue
            for r in (fixed_rng, rng):
                for _ in range(chk.n(4, 20)):
                    be = r.randrange(2)
                    h = gen_valid(r, src, be)
                    if r.random() < 0.4:
                        with warnings.catch_warnings():
                            warnings.simplefilter('ignore')
                            conv_perturb(r, src, h)
                    for check in (False, True):
                        part_c_case(chk, r, src, dst, h, check, lines, crecs)
    erecs = []
    part_e(chk, lines, erecs)
    srecs2, c12out = part_s(chk, arecs, lines) if HAVE_MODEL else ([], {})
    mod = run_model_parallel(PROP, lines, jobs=8) if HAVE_MODEL else {}
    if not HAVE_MODEL:
        drecs, srecs = [], []
    for j, (suf, be, exp) in enumerate(drecs):
        if mod.get(f'd{j}') != exp:
            chk.disagreements += 1
            chk.violation('correspondence', case={'part': 'D', 'cls': suf, 'be': be}, model_output=first_diff(mod.get(f'd{j}', ''), exp),
                          impl_output=exp[:200], predicate='default header differs', found_input=False,
                          theorem='correspondence default_structarr')
    for j, (suf, n, exp) in enumerate(srecs):
        if mod.get(f's{j}') != exp:
            chk.disagreements += 1
            chk.violation('correspondence', case={'part': 'S', 'cls': suf, 'len': n}, model_output=str(mod.get(f's{j}'))[:200],
                          impl_output=exp[:200], predicate='block-size handling differs', found_input=False,
                          theorem='correspondence WrapStruct.__init__ size check')
    part_a_compare(chk, arecs, mod)
    part_b_compare(chk, brecs, mod)
    part_c_compare(chk, crecs, mod)
    part_e_compare(chk, erecs, mod)
    part_s_compare(chk, srecs2, c12out, mod)
    chk.extra['unproved_statements'] = UNPROVED
    if HAVE_MODEL:
        vm_sample(chk, arecs, brecs)


def part_a_mgh_probe(chk, b, lines, recs):
    """MGHHeader(bytes with goodRASFlag == 0): known finding S-C10a (structural: class MGH, flag bytes zero)"""
    from nibabel.freesurfer.mghformat import MGHHeader
    h = MGHHeader(b, check=False)
    i = len(recs)
    rec = {'suf': 'mgh', 'be': 1, 'b': b, 'valid': False, 'tag': 'mgh-goodRASFlag-0', 'rt': h.binaryblock,
           'fields': fmt_fields(field_values('mgh', h)), 'guess': 1, 'swap': 'err refuse',
           'swap_same': f'ok 1 {hx(h.binaryblock)}', 'copy_indep': True, 'copy_eq': True}
    recs.append(rec)
    lines.append(f'a{i}.g frombytes mgh {native_be()} - {hx(b)}')
    lines.append(f'a{i}.s swap mgh {native_be()} - 1 {hx(b)}')
    lines.append(f'a{i}.t swap mgh {native_be()} 1 1 {hx(b)}')
    chk.count(key=('A', 'mgh', 1, b), tag='A:mgh', sample=None)
    chk.tagc('A:mgh-goodRASFlag-0')


def conv_perturb(rng, suf, h):
    """source headers that make conversions refuse or exercise the special paths"""
    r = rng.random()
    if r < 0.2:
        h['datatype'] = rng.choice([0, 255, 3, 256, 512, 1024, 2304, 1792, 1536])
        h['bitpix'] = 8
    elif r < 0.4:
        nd = int(h['dim'][0])
        if nd >= 1:
            set_f(h, suf, 'pixdim', rng.randrange(1, nd + 1), rng.choice([0x80000001, 0xbf800000, 0xff800000, 0xffc00000, 0x80000000])
                  if not suf.startswith('nifti2') else rng.choice([1 << 63 | 1, 0xbff0000000000000, 0xfff8000000000000, 1 << 63]))
    elif r < 0.55 and suf.startswith('nifti1'):
        h['dim'] = [rng.choice([3, 4]), -1, 1, 1, 2, 1, 1, 1]
        h['glmin'] = rng.choice([0, 70000, 40000, -5])
    elif r < 0.65 and suf.startswith('nifti1'):
        h['dim'] = [3, 27307, 1, 6, 1, 1, 1, 1]
    elif r < 0.8 and suf.startswith('nifti2'):
        h['dim'] = [rng.choice([3, 4]), rng.choice([163842, 40000, 2 ** 31 + 5, 2 ** 40]), 1, 1, 2, 1, 1, 1]
    elif r < 0.9:
        h['dim'] = [rng.randrange(0, 8)] + [rng.choice([1, 2, 0, -3, 7]) for _ in range(7)]
    else:
        h['sizeof_hdr'] = rng.choice([0, 540, 348])
        if suf.startswith('nifti'):
            h['qform_code'] = rng.choice([7, 1])
    if rng.random() < 0.5:        # left-handed source (qfac -1); also a legal field value for Analyze / SPM
        h['pixdim'][0] = -1


UNPROVED = [
    'zooms under check=True: C10_check_fix_pixdim states exactly which pixdim entries check_fix may repair, for every header that '
    'fits its layout; that the header produced by from_header(check=False) fits the destination layout (values in range after '
    'the casts) is a premise there - not proved, covered by the byte-level correspondence of every conversion',
    'C10_setters_keep_signature rests on the MEASURED table setter_writes (fields seen to change over a fixed pseudo-random stream '
    'of 60 calls per public setter and class, both byte orders): a field a setter writes only under arguments the stream does '
    'not produce would be missed by the table; part S (may_contain_header + both signature definitions on every setter-built '
    'header) is the second tie.  Raw item assignment can break the signature (C10_signature_raw_assignment_refuted)',
    'a NIfTI-1 destination cannot represent the shapes (-1, 1, 1, ...) and (27307, 1, 6, ...): they read back as the FreeSurfer '
    'convention means them (excluded by the hypothesis `readable`; format ambiguity, not generated)',
    'C10_copy_independent is proved on the store model (fresh buffer / list ids, any mutation sequence); that the implementation '
    'allocates fresh objects on copy() / from_header / image construction is tied by part E of the correspondence check '
    '(np.shares_memory, `is` on the extension list, states before / after mutations); extension OBJECTS are shared by design',
    'C10_bytes_roundtrip for MGH through the class constructor holds only for goodRASFlag <> 0 '
    '(C10_mgh_from_bytes_partial + C10_mgh_from_bytes_refuted, finding S-C10a)',
]


def vm_sample(chk, arecs, brecs):
    """cross-check extraction + driver against evaluation inside coqc (small fixed sample)"""
    def zl(b):
        return '[' + ';'.join(str(x) for x in b) + ']'
    cname = {'analyze': 'Analyze', 'spm99': 'Spm99', 'spm2': 'Spm2', 'nifti1': 'Nifti1', 'nifti1pair': 'Nifti1Pair',
             'nifti2': 'Nifti2', 'nifti2pair': 'Nifti2Pair', 'mgh': 'Mgh', 'ecat': 'Ecat'}
    pairs = []
    seen = set()
    for rec in arecs:
        if rec['suf'] in seen or 'swap_obj' not in rec:
            continue
        seen.add(rec['suf'])
        c = cname[rec['suf']]
        be = 'true' if rec['be'] else 'false'
        pairs.append((f'list_eqb (encode_struct (layout_of {c}) {be} (decode_struct (layout_of {c}) {be} {zl(rec["b"])})) {zl(rec["rt"])}',
                      f'rt {rec["suf"]}'))
        pairs.append((f'list_eqb (swap_struct (layout_of {c}) {zl(rec["b"])}) {zl(rec["swap_obj"][1])}', f'swap {rec["suf"]}'))
        pairs.append((f'Bool.eqb (guessed_endian {c} {"true" if native_be() else "false"} {zl(rec["b"])}) {"true" if rec["guess"] else "false"}',
                      f'guess {rec["suf"]}'))
    cnt = {}
    for rec in brecs:
        if cnt.get(rec['suf'], 0) >= 2 or 'fixed' not in rec['o'] or rec['o']['fixed'] == rec['b']:
            continue
        cnt[rec['suf']] = cnt.get(rec['suf'], 0) + 1
        c = cname[rec['suf']]
        be = 'true' if rec['be'] else 'false'
        pairs.append((f'match check_bytes {c} true {be} {zl(rec["b"])} with Some (b, _) => list_eqb b {zl(rec["o"]["fixed"])} | None => false end',
                      f'check_fix {rec["suf"]}'))
    imports = ('From Coq Require Import ZArith List Bool. Import ListNotations. Open Scope Z_scope.\n'
               'From NV Require Import Base.Bytes C10.Layout C10.Tables C10.Model.\n')
    ncase, bad = vm_crosscheck(PROP, imports, pairs)
    chk.vm = {'cases': ncase, 'disagreements': len(bad)}
    if bad:
        chk.disagreements += 1
        chk.violation('correspondence', case={'vm_crosscheck': [pairs[b][1] if isinstance(b, int) and b < len(pairs) else b for b in bad]},
                      predicate='extracted model / implementation bytes disagree with vm_compute evaluation of the model',
                      found_input=False, theorem='extraction cross-check')


def replay(chk, obj):
    ensure_impl_path()
    c = obj.get('case')
    if not isinstance(c, dict) or 'part' not in c:
        print('nothing to replay:', obj.get('predicate'))
        return 1
    class _C:  # minimal stand-in collecting the verdict
        pass
    lines, recs = [], []
    import types
    fake = types.SimpleNamespace(count=lambda **k: None, tagc=lambda *a, **k: None, refusal=lambda *a: None, rng=None)
    if c['part'] == 'A':
        b = bytes.fromhex(c['bytes'])
        if c['cls'] == 'mgh' and mgh_flag_zero(b):
            part_a_mgh_probe(fake, b, lines, recs)
        else:
            part_a_case(fake, c['cls'], hdr_with_bytes(c['cls'], b, c['be']), c.get('valid', False), 'replay', lines, recs)
        rec = recs[0]
        bad = (rec['rt'] != b or rec.get('ck', '').startswith('err unexpected') or (rec['valid'] and rec['guess'] != c['be']) or
               ('swap_obj' in rec and (not rec['eq1'] or not rec['eq2'] or rec['swap_fields'] != rec['fields'])) or
               not rec['copy_indep'] or not rec['copy_eq'])
        print({k: (v.hex() if isinstance(v, bytes) else v) for k, v in rec.items() if k not in ('fields', 'swap_fields')})
    elif c['part'] == 'B':
        b = bytes.fromhex(c['bytes'])
        o = run_battery(c['cls'], b, c['be'])
        print({k: (v.hex() if isinstance(v, bytes) else v) for k, v in o.items()})
        bad = any(str(v).startswith('err unexpected') for v in o.values()) or 'fixed2' in o and (o['fixed2'] != o['fixed'] or (all(l == 0 for l in o['only_levels']) and o['fixed'] != b)
                                or o.get('only_bytes') != b)
    elif c['part'] == 'E':
        erecs = []
        part_e(types.SimpleNamespace(count=lambda **k: None, tagc=lambda *a, **k: None, refusal=lambda *a: None), lines, erecs)
        hit = [r for r in erecs if (r['suf'], r['be'], r['route'], r['mut'], r['nx']) ==
               (c['cls'], c['be'], c['route'], c['mutation'], c['n_ext']) and r['who'] == ('c' if c['through'] == 'copy' else 'o')]
        print([r['detail'] for r in hit][:2])
        bad = any(not r['ok'] for r in hit)
        lines = []
    elif c['part'] == 'C':
        part_c_case(fake, None, c['src'], c['dst'], make_hdr(c['src'], bytes.fromhex(c['bytes']), c['be']), c['check'], lines, recs)
        print(recs[0]['res'][:200], recs[0]['pred'])
        bad = recs[0]['pred'] is not None
    else:
        print('default-header disagreement; re-run ./check C10')
        return 1
    lines and print('model:', run_model(PROP, lines))
    print('property fails on this case' if bad else 'property holds on this case')
    return 1 if bad else 0
