"""C10 table translator: header dtypes / code tables / class attributes of the imported
nibabel (from $VERIF_REPO) -> coq/C10/Tables.v (Gallina literals).  Fail-closed: anything
unexpected raises.  Used by harness/c10.py (gen_tables) and importable on its own."""
import os
import re
import sys

import numpy as np

from common import COQ

# (coq suffix, module, class name)
CLASSES = [
    ('analyze', 'nibabel.analyze', 'AnalyzeHeader'),
    ('spm99', 'nibabel.spm99analyze', 'Spm99AnalyzeHeader'),
    ('spm2', 'nibabel.spm2analyze', 'Spm2AnalyzeHeader'),
    ('nifti1', 'nibabel.nifti1', 'Nifti1Header'),
    ('nifti1pair', 'nibabel.nifti1', 'Nifti1PairHeader'),
    ('nifti2', 'nibabel.nifti2', 'Nifti2Header'),
    ('nifti2pair', 'nibabel.nifti2', 'Nifti2PairHeader'),
    ('mgh', 'nibabel.freesurfer.mghformat', 'MGHHeader'),
    ('ecat', 'nibabel.ecat', 'EcatHeader'),
]
ANALYZE_FAMILY = ['analyze', 'spm99', 'spm2', 'nifti1', 'nifti1pair', 'nifti2', 'nifti2pair']

CHECK_IDS = {
    '_chk_sizeof_hdr': 'CkSizeof', '_chk_datatype': 'CkDatatype', '_chk_bitpix': 'CkBitpix',
    '_chk_pixdims': 'CkPixdims', '_chk_qfac': 'CkQfac', '_chk_magic': 'CkMagic', '_chk_offset': 'CkOffset',
    '_chk_qform_code': 'CkQform', '_chk_sform_code': 'CkSform', '_chk_eol_check': 'CkEol',
    '_chk_origin': 'CkOrigin', 'chk_version': 'CkVersion',
}
KIND = {'i': 'KInt', 'u': 'KUInt', 'f': 'KFloat', 'S': 'KStr'}


def get_class(mod, name):
    import importlib
    return getattr(importlib.import_module(mod), name)


def layout_of(klass):
    """[(name, offset, width, count, kind)] in offset order; raises on anything unexpected."""
    dt = klass.template_dtype
    if dt.names is None:
        raise ValueError('template_dtype is not structured')
    out = []
    for name in dt.names:
        fld = dt.fields[name]
        if len(fld) != 2:
            raise ValueError(f'field {name} has a title')
        fdt, off = fld
        base = fdt.base
        count = int(np.prod(fdt.shape)) if fdt.shape else 1
        k = base.kind
        if k not in KIND:
            raise ValueError(f'unexpected field kind {k!r} for {name}')
        if k == 'S':
            if fdt.shape:
                raise ValueError(f'sub-array of strings: {name}')
            width, count = 1, base.itemsize
        else:
            width = base.itemsize
            if (k == 'f' and width not in (4, 8)) or (k in 'iu' and width not in (1, 2, 4, 8)):
                raise ValueError(f'unexpected width {width} for {name}')
        if count < 1 or width < 1:
            raise ValueError(f'empty field {name}')
        if not re.fullmatch(r'[A-Za-z_][A-Za-z0-9_]*', name):
            raise ValueError(f'unexpected field name {name!r}')
        out.append((name, int(off), int(width), int(count), KIND[k]))
    out.sort(key=lambda t: t[1])
    return out, int(dt.itemsize)


def dt_codes(klass):
    """[(code, itemsize)] of the class's data type table (codes that index `.dtype`)."""
    rec = klass._data_type_codes
    out = []
    for code in sorted(rec.value_set('code')):
        if not isinstance(code, (int, np.integer)):
            raise ValueError(f'non integer datatype code {code!r}')
        out.append((int(code), int(rec.dtype[code].itemsize)))
    return out


def byteslit(b):
    return '[' + '; '.join(str(x) for x in bytes(b)) + ']'


def collect():
    """Everything Tables.v is made of, as plain Python data (also used by the harness)."""
    info = {'classes': {}, 'names': []}
    names = []
    for suf, mod, cname in CLASSES:
        klass = get_class(mod, cname)
        lay, size = layout_of(klass)
        for f in lay:
            if f[0] not in names:
                names.append(f[0])
        checks = []
        for fn in klass._get_checks():
            nm = fn.__name__
            if nm not in CHECK_IDS:
                raise ValueError(f'unknown check function {nm} in {cname}')
            checks.append(CHECK_IDS[nm])
        ent = {'klass': klass, 'layout': lay, 'size': size, 'checks': checks}
        if suf in ANALYZE_FAMILY:
            ent['sizeof_hdr'] = int(klass.sizeof_hdr)
            ent['dtcodes'] = dt_codes(klass)
        if suf.startswith('nifti'):
            ent['single_magic'] = bytes(klass.single_magic)
            ent['pair_magic'] = bytes(klass.pair_magic)
            ent['single_vox_offset'] = int(klass.single_vox_offset)
            ent['is_single'] = bool(klass.is_single)
            xs = sorted(int(x) for x in klass._field_recoders['qform_code'].value_set())
            if xs != sorted(int(x) for x in klass._field_recoders['sform_code'].value_set()):
                raise ValueError('qform and sform code sets differ')
            ent['xform_codes'] = xs
        if suf == 'mgh':
            ent['hdr_size'] = int(klass._hdrdtype.itemsize)
        info['classes'][suf] = ent
    info['names'] = names
    info['ids'] = {n: i + 1 for i, n in enumerate(names)}
    info['native_be'] = sys.byteorder == 'big'
    return info


def render(info):
    L = []
    w = L.append
    w('(* C10/Tables.v — GENERATED by harness/c10.py (gen_tables) from the imported nibabel header classes')
    w('   (template_dtype fields: name, offset, width, count, kind; datatype code tables; class')
    w('   attributes; _get_checks() order).  Do not edit: rewritten on every ./check C10. *)')
    w('From Coq Require Import ZArith List.')
    w('From NV Require Import C10.Layout.')
    w('Import ListNotations.')
    w('Open Scope Z_scope.')
    w('')
    w('(* field-name identifiers (one per distinct field name over all classes) *)')
    for n in info['names']:
        w(f'Definition f_{n} : Z := {info["ids"][n]}.')
    w('')
    w(f'Definition native_be : bool := {"true" if info["native_be"] else "false"}.')
    w('')
    for suf, ent in info['classes'].items():
        w(f'(* {ent["klass"].__module__}.{ent["klass"].__name__} *)')
        w(f'Definition L_{suf} : layout := [')
        rows = [f'  mkField f_{n} {off} {wd} {cnt} {k}' for n, off, wd, cnt, k in ent['layout']]
        w(';\n'.join(rows))
        w('].')
        w(f'Definition size_{suf} : Z := {ent["size"]}.')
        w(f'Definition battery_{suf} : list ck_id := [{"; ".join(ent["checks"])}].')
        if 'sizeof_hdr' in ent:
            w(f'Definition sizeof_hdr_{suf} : Z := {ent["sizeof_hdr"]}.')
            w(f'Definition dtcodes_{suf} : list (Z * Z) := [' +
              '; '.join(f'({c}, {s})' for c, s in ent['dtcodes']) + '].')
        if 'single_magic' in ent:
            w(f'Definition single_magic_{suf} : list Z := {byteslit(ent["single_magic"])}.')
            w(f'Definition pair_magic_{suf} : list Z := {byteslit(ent["pair_magic"])}.')
            w(f'Definition single_vox_offset_{suf} : Z := {ent["single_vox_offset"]}.')
            w(f'Definition is_single_{suf} : bool := {"true" if ent["is_single"] else "false"}.')
            w(f'Definition xform_codes_{suf} : list Z := [{"; ".join(str(x) for x in ent["xform_codes"])}].')
        if 'hdr_size' in ent:
            w(f'Definition hdr_size_{suf} : Z := {ent["hdr_size"]}.')
        w('')
    return '\n'.join(L) + '\n'


def gen_tables():
    info = collect()
    txt = render(info)
    path = os.path.join(COQ, 'C10', 'Tables.v')
    old = open(path).read() if os.path.exists(path) else None
    if old != txt:
        with open(path, 'w') as f:
            f.write(txt)
    return info
