"""C20 — PAR/REC volumes are assembled by slice labels, not by record order.

Model: coq/C20/Model.v (vol_numbers, vol_is_full, lexsort, strict/lax sort order,
sorted_slice_indices, data_scaling, unscaled, volume_labels, load).  Theorems: coq/C20/Props.v.

Case lines sent to bin/modelrun_c20 (see coq/C20/driver.ml):
  volnos [s,..] | isfull <smax> [s,..] | lexsort <n> [row]* | idx <strict> <smax> <n> REC*
  load <strict> <permit> <fp> [expd] <smax> <nlab> <n> REC*
  REC = [keys] sl pid rs ri ss [cks] [labs]    (rs ri ss = float64 bit patterns, signed int64)

A data set is synthesised from the header of one of the repo's multi-volume PAR fixtures:
the image-definition lines keep all their label columns, the in-plane matrix is shrunk to
2 x 3, every record i gets its own rescale intercept / rescale slope / scale slope and the
REC slice generated for record i holds the values 6*i + (0..5).  The records (PAR lines and
REC slices alike) are then optionally truncated (tail of the recorded order dropped) and
permuted.  Compared with the implementation at API boundaries: nibabel.parrec.vol_numbers,
vol_is_full, PARRECHeader.get_sorted_slice_indices / get_data_shape / get_data_scaling /
get_volume_labels, dataobj.get_unscaled(), and the refusals of PARRECHeader.__init__.
"""
import io
import os
import warnings

import numpy as np

from common import Check, REPO, ensure_impl_path, run_model, vm_crosscheck

PROP = 'C20'
NX, NY = 2, 3
NPIX = NX * NY
# column positions in an image-definition line (image_def_dtds of nibabel/parrec.py; checked
# against the parsed header in fixture_ok)
COL = {'slice': 0, 'echo': 1, 'dyn': 2, 'phase': 3, 'type': 4, 'seq': 5, 'index': 6, 'pixsize': 7,
       'recon_x': 9, 'recon_y': 10, 'ri': 11, 'rs': 12, 'ss': 13, 'bvalnr': 41, 'gradnr': 42, 'label': 48}



# --------------------------------------------------------------------------- fixtures
class Fixture:
    pass


def split_par(text):
    """-> (head lines, image lines, tail lines) with the state machine of _split_header"""
    lines = text.split('\n')
    state = 'top'
    first = last = None
    for i, raw in enumerate(lines):
        line = raw.strip()
        if line == '':
            continue
        if state == 'top' and not line.startswith('#'):
            state = 'gen'
        if state == 'gen' and not line.startswith('.'):
            state = 'comment'
        if state == 'comment' and not line.startswith('#'):
            state = 'image'
            first = i
        if state == 'image':
            if line.startswith('#'):
                break
            last = i
    img = [l for l in lines[first:last + 1] if l.strip()]
    return lines[:first], img, lines[last + 1:]


def true_vols(slices):
    """volume of a record in the RECORDED order = how often its slice number came before"""
    seen = {}
    out = []
    for s in slices:
        out.append(seen.get(s, 0))
        seen[s] = seen.get(s, 0) + 1
    return out


def load_fixtures():
    from nibabel.parrec import PARRECHeader
    d = os.path.join(REPO, 'nibabel', 'tests', 'data')
    fx = []
    for name in sorted(os.listdir(d)):
        if not name.endswith('.PAR'):
            continue
        text = open(os.path.join(d, name), errors='replace').read()
        try:
            with warnings.catch_warnings():
                warnings.simplefilter('ignore')
                hdr = PARRECHeader.from_fileobj(io.StringIO(text), permit_truncated=True)
        except Exception:
            continue
        shape = hdr.get_data_shape()
        if len(shape) < 4:
            continue            # single volume: nothing to assemble
        f = Fixture()
        f.name = name
        f.head, f.img, f.tail = split_par(text)
        f.items = [l.split() for l in f.img]
        f.n = len(f.items)
        f.smax = int(hdr.general_info['max_slices'])
        f.slices = [int(it[0]) for it in f.items]
        f.tv = true_vols(f.slices)
        ncol = len(f.items[0])
        lab_cols = [COL[k] for k in ('echo', 'dyn', 'phase', 'type', 'seq')]
        lab_cols += [COL[k] for k in ('bvalnr', 'gradnr', 'label') if COL[k] < ncol]
        f.labtuple = [tuple(int(it[c]) for c in lab_cols) for it in f.items]
        by_tv = {}
        for t, lt in zip(f.tv, f.labtuple):
            by_tv.setdefault(t, set()).add(lt)
        # do the label columns identify the recorded volumes?
        f.labels_identify = (all(len(s) == 1 for s in by_tv.values())
                             and len({next(iter(s)) for s in by_tv.values()}) == len(by_tv))
        # sanity of the column map against the parsed header
        idf = hdr.image_defs
        assert [int(x) for x in idf['slice number']] == f.slices
        assert [int(x) for x in idf['image_type_mr']] == [int(it[COL['type']]) for it in f.items]
        assert [float(x) for x in idf['scale slope']] == [float(it[COL['ss']]) for it in f.items]
        fx.append(f)
    return fx


def factors(i, scheme):
    """(ri, rs, ss) decimal strings of record id i.  scheme 0 = all constant, 1..9 = all varying,
    10 + b (b = 0..7) = bit 0: RS varies, bit 1: RI varies, bit 2: SS varies across records, the others
    constant (uniform slopes with varying intercepts and so on)"""
    const = ('-3142.00000', '2.50000', '0.00125')
    if scheme == 0:
        return '0.00000', '2.50000', '0.00125'
    h = (i * 2654435761 + scheme * 40503) & 0xffffffff
    rs = ['0.50000', '1.28767', '2.57485', '22.15092', '0.00390', '-0.41266', '239.84469'][h % 7]
    ri = ['0.00000', '-5272.00000', '-3142.00000', '0.60964', '-0.69352', '4095.00000'][(h >> 5) % 6]
    ssv = 1 + (h >> 9) % 997
    ss = ['%.5f' % (ssv / 800.0), '%.5e' % (ssv * 4.89549e-05), '%.3f' % (ssv * 0.651)][(h >> 20) % 3]
    if scheme >= 10:
        b = scheme - 10
        return (ri if b & 2 else const[0]), (rs if b & 1 else const[1]), (ss if b & 4 else const[2])
    return ri, rs, ss


def slice_pixels(i):
    return (NPIX * i + np.arange(NPIX, dtype='<u2')).astype('<u2')


GI_LINES = {'dyn_scan': 'Dynamic scan', 'diffusion': 'Diffusion  '}


def override_general_info(head, gi):
    """rewrite the 0/1 flags of the general-information block (independent of the image-definition columns)"""
    import re
    out = list(head)
    for key, val in (gi or {}).items():
        pat = re.compile(r'^(\.\s+' + GI_LINES[key] + r'\s*<0=no 1=yes> \?\s*:\s*)\d+\s*$')
        hits = [k for k, l in enumerate(out) if pat.match(l)]
        if len(hits) != 1:
            raise RuntimeError(f'general-information line for {key} not found')
        out[hits[0]] = pat.match(out[hits[0]]).group(1) + str(int(val))
    return out


def synthesise(f, order, scheme, gi=None):
    """PAR text + REC bytes with the records `order` (ids = positions in the fixture)"""
    lines = []
    rec = []
    for pos, i in enumerate(order):
        it = list(f.items[i])
        it[COL['index']] = str(pos)
        it[COL['pixsize']] = '16'
        it[COL['recon_x']], it[COL['recon_y']] = str(NX), str(NY)
        it[COL['ri']], it[COL['rs']], it[COL['ss']] = factors(i, scheme)
        lines.append('  ' + '  '.join(it))
        rec.append(slice_pixels(i).tobytes())
    text = '\n'.join(override_general_info(f.head, gi) + lines + f.tail)
    return text, b''.join(rec)


# --------------------------------------------------------------------------- permutations
def order_preserving_shuffle(rng, ids, slices):
    """random permutation of ids that keeps the relative order of records sharing a slice number"""
    shuffled = list(ids)
    rng.shuffle(shuffled)
    queues = {}
    for i in ids:
        queues.setdefault(slices[i], []).append(i)
    ptr = {s: 0 for s in queues}
    out = []
    for i in shuffled:
        s = slices[i]
        out.append(queues[s][ptr[s]])
        ptr[s] += 1
    return out


def permute(kind, rng, ids, f):
    if kind == 'identity':
        return list(ids)
    if kind == 'reversed':
        return list(ids)[::-1]
    if kind == 'interleaved':              # even positions then odd positions
        return list(ids)[0::2] + list(ids)[1::2]
    if kind == 'volume_major':
        return sorted(ids, key=lambda i: (f.tv[i], f.slices[i]))
    if kind == 'slice_major':
        return sorted(ids, key=lambda i: (f.slices[i], f.tv[i]))
    if kind == 'slices_odd_even':          # within each volume odd slices first (like T2-interleaved)
        return sorted(ids, key=lambda i: (f.tv[i], 1 - f.slices[i] % 2, f.slices[i]))
    if kind == 'vols_reversed':            # volume order reversed, slices ascending
        return sorted(ids, key=lambda i: (-f.tv[i], f.slices[i]))
    if kind == 'rotate':
        k = rng.randrange(1, max(2, len(ids)))
        return list(ids)[k:] + list(ids)[:k]
    if kind == 'random':
        out = list(ids)
        rng.shuffle(out)
        return out
    if kind == 'random_preserving':
        return order_preserving_shuffle(rng, list(ids), f.slices)
    raise ValueError(kind)


def is_order_preserving(order, f):
    """relative order of records with the same slice number as in the recorded order"""
    last = {}
    for i in order:
        s = f.slices[i]
        if s in last and last[s] > i:
            return False
        last[s] = i
    return True


STRUCTURED = ['identity', 'reversed', 'interleaved', 'volume_major', 'slice_major', 'slices_odd_even', 'vols_reversed']


def gen_cases(chk, fixtures):
    """seed-independent core: every fixture x structured permutation x {no drop, one drop} x
    strict x scaling; random tail from chk.rng"""
    rng = chk.rng
    cases = []
    for f in fixtures:
        big = f.n > 120
        drops = [0, 1] if big else [0, 1, f.smax // 2 + 1, f.smax + 2]
        for kind in STRUCTURED:
            for drop in drops:
                if drop >= f.n - f.smax + 1 and drop:
                    continue
                for strict in (True, False):
                    for fp in ((False, True) if not big else (kind in ('reversed', 'slice_major'),)):
                        cases.append(dict(fixture=f.name, kind=kind, drop=drop, strict=strict, fp=fp,
                                          permit=True, scheme=1 + (len(cases) % 5)))
        if not big:
            # scale-factor patterns: RS / RI / SS independently constant or varying x {dv, fp}
            for b in range(8):
                for fp in (False, True):
                    cases.append(dict(fixture=f.name, kind=('reversed', 'slice_major')[b % 2], drop=0, strict=bool(b & 1) != fp,
                                      fp=fp, permit=True, scheme=10 + b))
            # general-information flags toggled (they are independent of the image-definition columns)
            for gi in ({'dyn_scan': 0}, {'dyn_scan': 1}, {'diffusion': 0}, {'diffusion': 1}, {'dyn_scan': 0, 'diffusion': 0}):
                for kind in ('reversed', 'interleaved', 'vols_reversed'):
                    cases.append(dict(fixture=f.name, kind=kind, drop=0, strict=True, fp=False, permit=True,
                                      scheme=1, gi=gi))
                cases.append(dict(fixture=f.name, kind='slices_odd_even', drop=0, strict=False, fp=True, permit=True,
                                  scheme=12, gi=gi))
        if not big:
            # the discarded (incomplete-volume) records first / in the middle / last, complete volumes contiguous
            for kind in ('partial_first', 'partial_middle', 'partial_last'):
                for drop in (0, 1, f.smax // 2 + 1, f.smax + 2):
                    if drop and drop >= f.n - f.smax + 1:
                        continue
                    for strict in (True, False):
                        cases.append(dict(fixture=f.name, kind=kind, drop=drop, strict=strict, fp=(drop % 2 == 1),
                                          permit=True, scheme=2))
        # refusals: truncated without permit_truncated
        cases.append(dict(fixture=f.name, kind='reversed', drop=1, strict=True, fp=False, permit=False, scheme=1))
        cases.append(dict(fixture=f.name, kind='identity', drop=f.smax, strict=False, fp=False, permit=False, scheme=0))
    small = [f for f in fixtures if f.n <= 120]
    nrand = chk.n(500, 9000)
    for k in range(nrand):
        f = rng.choice(small if rng.random() < 0.93 else fixtures)
        kind = rng.choice(['random', 'random', 'random_preserving', 'random_preserving', 'rotate', 'partial_first',
                           'partial_middle'])
        r = rng.random()
        if r < 0.45:
            drop = 0
        elif r < 0.9:
            drop = rng.randrange(1, min(f.n - f.smax, 2 * f.smax + 3))
        else:
            drop = rng.randrange(f.n - f.smax, f.n)      # less than one... up to a single record left
        c = dict(fixture=f.name, kind=kind, drop=drop, strict=rng.random() < 0.6, fp=rng.random() < 0.5,
                 permit=rng.random() < 0.93, scheme=rng.randrange(0, 18), pseed=rng.randrange(1 << 30))
        if rng.random() < 0.25:
            c['gi'] = {rng.choice(['dyn_scan', 'diffusion']): rng.randrange(2)}
        if drop and kind in ('random', 'random_preserving', 'rotate') and rng.random() < 0.5:
            c['cut'] = True
        cases.append(c)
    # seed-independent: structured orders whose TAIL (of the permuted file) is lost
    for f in small:
        for kind in ('interleaved', 'slice_major', 'slices_odd_even', 'reversed', 'vols_reversed'):
            for drop in (1, 2, f.smax + 2):
                if drop >= f.n - f.smax:
                    continue
                for strict in (True, False):
                    cases.append(dict(fixture=f.name, kind=kind, drop=drop, strict=strict, fp=False, permit=True,
                                      scheme=1, cut=True))
    return cases


_CANON = {}


def canonical_sorted_ids(case, f):
    """ids kept by a strict-sorted load of the un-permuted (truncated) file, in output order (generator helper)"""
    key = (case['fixture'], case['drop'], tuple(sorted((case.get('gi') or {}).items())))
    if key not in _CANON:
        ids = list(range(f.n - case['drop']))
        text, rec = synthesise(f, ids, 0, case.get('gi'))
        o = impl_load(text, rec, True, True, False)
        _CANON[key] = list(o['idx']) if o['status'] == 'ok' else None
    return _CANON[key]


def case_order(case, f):
    import random
    ids = list(range(f.n - case['drop']))
    if 'order' in case:
        return list(case['order'])
    if case['kind'] in ('partial_first', 'partial_middle', 'partial_last'):
        # the records of the complete volumes in canonical (sorted) order, contiguous; the records the sort
        # discards (incomplete volumes) at the beginning / in the middle / at the end of the file
        canon = canonical_sorted_ids(case, f)
        if canon is None:
            return ids
        kept = set(canon)
        rest = [i for i in ids if i not in kept]
        if case['kind'] == 'partial_first':
            return rest + canon
        if case['kind'] == 'partial_last':
            return canon + rest
        k = (len(canon) // (2 * f.smax)) * f.smax
        return canon[:k] + rest + canon[k:]
    if case.get('cut'):
        # the recording was written in the permuted order and THEN lost its tail: the surviving records are an
        # arbitrary subset (different slice numbers missing from different volumes; seeded C20-13)
        full = permute(case['kind'], random.Random(case.get('pseed', 0)), list(range(f.n)), f)
        return full[:f.n - case['drop']]
    return permute(case['kind'], random.Random(case.get('pseed', 0)), ids, f)


# --------------------------------------------------------------------------- implementation
def bits(a):
    return [int(x) for x in np.ascontiguousarray(a, dtype='<f8').reshape(-1, order='F').view('<i8')]


def decode_payload(raw):
    """ids of the REC slices shown by the (unscaled) output array, -2 = not one of our slices"""
    sl = np.asarray(raw).reshape((NX, NY, -1), order='F')
    out = []
    for k in range(sl.shape[2]):
        v = sl[:, :, k].reshape(-1, order='F').astype(np.int64)
        i = int(v[0]) // NPIX
        out.append(i if np.array_equal(v, NPIX * i + np.arange(NPIX)) else -2)
    return out


# the model distinguishes refusals the implementation raises with one type: merged here
MODEL_ERR_CLASS = {'err truncated': 'err PARRECError', 'err no_volume': 'err PARRECError', 'err slice_range': 'err ValueError'}


def impl_load(text, rec, strict, permit, fp):
    """observables of one load through the public API"""
    from nibabel.parrec import PARRECImage, PARRECError
    from nibabel.fileholders import FileHolder
    fm = {'header': FileHolder(fileobj=io.StringIO(text)), 'image': FileHolder(fileobj=io.BytesIO(rec))}
    o = {}
    try:
        with warnings.catch_warnings():
            warnings.simplefilter('ignore')
            img = PARRECImage.from_file_map(fm, mmap=False, permit_truncated=permit,
                                            scaling='fp' if fp else 'dv', strict_sort=strict)
    except (PARRECError, ValueError) as e:
        # refusals are classified by exception TYPE only (messages may be reworded): PARRECError = truncated
        # recording not permitted / no complete volume; ValueError = slice number out of range
        o['status'] = 'err PARRECError' if isinstance(e, PARRECError) else 'err ValueError'
        o['detail'] = f'{type(e).__name__}: {e}'[:120]
        return o
    hdr = img.header
    with warnings.catch_warnings():
        warnings.simplefilter('ignore')
        o['status'] = 'ok'
        o['shape'] = tuple(int(x) for x in img.shape)
        o['idx'] = [int(x) for x in hdr.get_sorted_slice_indices()]
        slope, inter = hdr.get_data_scaling('fp' if fp else 'dv')
        o['slope'], o['inter'] = bits(slope), bits(inter)
        o['scal_shape'] = tuple(slope.shape)
        o['raw'] = np.array(img.dataobj.get_unscaled())
        o['payload'] = decode_payload(o['raw'])
        o['arr'] = np.asanyarray(img.dataobj)
        o['affine'] = np.array(img.affine)
        o['labels'] = {k: [int(x) for x in v] for k, v in hdr.get_volume_labels().items()}
        o['hdr'] = hdr
        o['sliced'] = sliced_reads(img.dataobj, o['arr'])
    return o


def slicers_for(shape):
    """a handful of proxy indexes: single volume, single slice, ranges, negative steps"""
    ns = shape[2]
    out = [(slice(None), slice(None), 0), (slice(None), slice(None), ns - 1), (slice(None), 1, slice(1, None)),
           (0,), (slice(None), slice(None), slice(None, None, -1)), (slice(None), slice(None), slice(1, ns, 2))]
    if len(shape) > 3:
        nv = shape[3]
        out += [(Ellipsis, 0), (Ellipsis, nv - 1), (Ellipsis, slice(1, None)), (Ellipsis, slice(None, None, -1)),
                (slice(None), slice(None), ns // 2, slice(None)), (1, 2, slice(None), -1), (Ellipsis, slice(0, nv, 2))]
    return out


def sliced_reads(proxy, full):
    """first proxy index whose result differs from the same index applied to the whole array, or None"""
    for sl in slicers_for(full.shape):
        try:
            got = np.asarray(proxy[sl])
        except Exception as e:   # noqa
            return f'proxy[{sl!r}] raised {type(e).__name__}: {e}'[:160]
        want = full[sl]
        if got.shape != want.shape or not np.array_equal(got, want):
            return f'proxy[{sl!r}] differs from np.asarray(proxy)[{sl!r}]'
    return None


def strict_keys(hdr):
    """the `keys` tuple of PARRECHeader._strict_sort_order (parrec.py), first = least significant"""
    idefs = hdr.image_defs
    names = idefs.dtype.names
    keys = [idefs['slice number'], idefs['echo number'], idefs['cardiac phase number']]
    if hdr.general_info['diffusion'] != 0:
        bvals = idefs['diffusion b value number'] if 'diffusion b value number' in names else idefs['diffusion_b_factor']
        if 'gradient orientation number' in names:
            keys += [idefs['gradient orientation number'], bvals]
        else:
            keys += [bvals]
    if 'label type' in names:
        keys += [idefs['label type']]
    keys += [idefs['dynamic scan number'], idefs['image_type_mr']]
    for k in keys:
        if not np.all(np.asarray(k) == np.round(k)):
            raise RuntimeError('non-integer sort key (model keys are integers)')
    return [[int(x) for x in k] for k in keys]


CHK_TRUNC = [('slice', 'max_slices'), ('echo', 'max_echoes'), ('dynamic scan', 'max_dynamics'),
             ('diffusion b value', 'max_diffusion_values'), ('gradient orientation', 'max_gradient_orient')]
DYNAMIC_KEYS = ['cardiac phase number', 'echo number', 'label type', 'image_type_mr', 'dynamic scan number',
                'scanning sequence', 'gradient orientation number', 'diffusion b value number']


def zl(l):
    return '[' + ','.join(str(int(x)) for x in l) + ']'


def model_inputs(text, order, hdr=None):
    """model case arguments from the PAR text as parsed by nibabel.parrec.parse_PAR_header (documented
    function; the parser is C10/C12 territory, not C20's); hdr = the loaded image's header, which holds
    that same parse (general_info, image_defs), when the load succeeded"""
    from nibabel.parrec import parse_PAR_header
    if hdr is not None:
        gi, idefs = hdr.general_info, hdr.image_defs
    else:
        with warnings.catch_warnings():
            warnings.simplefilter('ignore')
            gi, idefs = parse_PAR_header(io.StringIO(text))

    class H:
        general_info = gi
        image_defs = idefs
    keys = strict_keys(H)
    n = len(idefs)
    expd, ckcols = [], []
    for a, b in CHK_TRUNC:
        if b in gi:
            expd.append(int(gi[b]))
            ckcols.append([int(x) for x in idefs[a + ' number']])
    labnames = [d for d in DYNAMIC_KEYS if d in idefs.dtype.fields]
    fb = lambda name: [int(x) for x in np.asarray(idefs[name], dtype='<f8').view('<i8')]
    rs, ri, ss = fb('rescale slope'), fb('rescale intercept'), fb('scale slope')
    recs = []
    for p in range(n):
        recs.append(' '.join([zl([k[p] for k in keys]), str(int(idefs['slice number'][p])), str(order[p]),
                              str(rs[p]), str(ri[p]), str(ss[p]), zl([c[p] for c in ckcols]),
                              zl([int(idefs[nm][p]) for nm in labnames])]))
    return dict(expd=expd, smax=int(gi['max_slices']), nlab=len(labnames), labnames=labnames, n=n, recs=recs,
                keys=keys)


def model_line(cid, case, mi):
    return (f"{cid} load {int(case['strict'])} {int(case['permit'])} {int(case['fp'])} {zl(mi['expd'])} "
            f"{mi['smax']} {mi['nlab']} {mi['n']} " + ' '.join(mi['recs']))


def impl_canon(o, mi):
    """the implementation's observables as the model's output line"""
    if o['status'] != 'ok':
        return o['status']
    nsl = o['shape'][2]
    nvol_shape = o['shape'][3] if len(o['shape']) > 3 else None
    labs = []
    for nm in mi['labnames']:
        labs.append(zl(o['labels'][nm]) if nm in o['labels'] else '-')
    return (f"ok idx={zl(o['idx'])} nsl={nsl} nvol=%s payload={zl(o['payload'])} slope={zl(o['slope'])} "
            f"inter={zl(o['inter'])} labels={';'.join(labs)}"), nvol_shape


# --------------------------------------------------------------------------- property predicates
def expected_factors(i, scheme, fp):
    ri, rs, ss = (np.float64(float(x)) for x in factors(i, scheme))
    with np.errstate(all='ignore'):
        if fp:
            return np.float64(1.0) / ss, ri / (rs * ss)
        return rs, ri


def pred_own_factors(case, o):
    """every output slice carries the factors of the record whose pixels it shows (P2)"""
    nout = len(o['payload'])
    if len(o['slope']) != nout or len(o['inter']) != nout:
        return f"scaling arrays have {len(o['slope'])} entries for {nout} output slices"
    arr = np.asarray(o['arr']).reshape((NX, NY, -1), order='F')
    for k, i in enumerate(o['payload']):
        if i < 0:
            return f'output slice {k} is not one of the REC slices'
        s, t = expected_factors(i, case['scheme'], case['fp'])
        if bits(s)[0] != o['slope'][k] or bits(t)[0] != o['inter'][k]:
            return f'output slice {k} shows record {i} but carries other scale factors'
        want = slice_pixels(i).astype(np.float64) * s + t
        if not np.array_equal(arr[:, :, k].reshape(-1, order='F'), want):
            return f'output slice {k} (record {i}) is not PV*slope+inter of its own record'
    return None


def pred_same_as(o, ref):
    """array, per-slice scaling, affine, volume labels identical to the reference load (P1)"""
    if o['shape'] != ref['shape']:
        return f"shape {o['shape']} != {ref['shape']}"
    if not np.array_equal(o['arr'], ref['arr']) or not np.array_equal(o['raw'], ref['raw']):
        return 'array differs from the un-permuted load'
    if o['slope'] != ref['slope'] or o['inter'] != ref['inter'] or o['scal_shape'] != ref['scal_shape']:
        return 'per-slice scaling differs from the un-permuted load'
    if not np.array_equal(o['affine'], ref['affine']):
        return 'affine differs from the un-permuted load'
    if o['labels'] != ref['labels'] or list(o['labels']) != list(ref['labels']):
        return 'volume labels differ from the un-permuted load'
    return None


def pred_complete_only(o, f, present):
    """exactly the complete recorded volumes are returned, each with slices 1..max in order (P3)"""
    have = {}
    for i in present:
        have.setdefault(f.tv[i], set()).add(f.slices[i])
    complete = {t for t, s in have.items() if s == set(range(1, f.smax + 1))}
    nsl = o['shape'][2]
    pay = o['payload']
    if nsl != f.smax and complete:
        return f'{nsl} slices per volume, expected {f.smax}'
    vols = [pay[k:k + nsl] for k in range(0, len(pay), nsl)]
    got = set()
    for v, ids in enumerate(vols):
        if any(i < 0 for i in ids):
            return f'output volume {v} holds foreign pixels'
        tvs = {f.tv[i] for i in ids}
        if len(tvs) != 1:
            return f'output volume {v} mixes slices of recorded volumes {sorted(tvs)}'
        if [f.slices[i] for i in ids] != list(range(1, f.smax + 1)):
            return f'output volume {v} does not hold slices 1..{f.smax} in order'
        t = tvs.pop()
        if t not in complete:
            return f'output volume {v} is the incomplete recorded volume {t}'
        if t in got:
            return f'recorded volume {t} returned twice'
        got.add(t)
    if got != complete:
        return f'complete recorded volumes {sorted(complete - got)} were not returned'
    return None


# --------------------------------------------------------------------------- one case
def eval_case(chk, case, fx, ref_cache):
    """runs the implementation on a case; returns (impl observables, model inputs, predicate failure, tags)"""
    f = fx[case['fixture']]
    order = case_order(case, f)
    present = sorted(order)
    text, rec = synthesise(f, order, case['scheme'], case.get('gi'))
    o = impl_load(text, rec, case['strict'], case['permit'], case['fp'])
    mi = model_inputs(text, order, o.get('hdr'))
    info = {'order': order, 'present': present}
    keys_by_id = {i: [k[p] for k in mi['keys']] for p, i in enumerate(order)}
    info['distinct_keys'] = len({tuple(v) for v in keys_by_id.values()}) == len(order)
    info['preserving'] = is_order_preserving(order, f)
    # records with the same key tuple keep their recorded relative order (C20_order_independent_stable)
    last, keep = {}, True
    for i in order:
        k = tuple(keys_by_id[i])
        if k in last and last[k] > i:
            keep = False
        last[k] = i
    info['key_order_kept'] = keep
    info['truncated'] = case['drop'] > 0
    # the lax order numbers volumes by occurrence in the file: that is the recorded volume of a record only when,
    # for every slice number, the surviving records are the FIRST recorded ones (always so for a dropped tail of
    # the recorded order; not for a file that lost records of its early volumes)
    tvs = {}
    for i in present:
        tvs.setdefault(f.slices[i], []).append(f.tv[i])
    info['occ_prefix'] = all(sorted(v) == list(range(len(v))) for v in tvs.values())
    info['keys_by_id'] = keys_by_id
    return o, mi, info


def reference(case, fx, ref_cache, present=None):
    """the un-permuted load of the same records with the same options"""
    cut = tuple(present) if case.get('cut') and present is not None else None
    key = (case['fixture'], case['drop'], case['strict'], case['fp'], case['scheme'], tuple(sorted((case.get('gi') or {}).items())), cut)
    if key not in ref_cache:
        f = fx[case['fixture']]
        ids = list(range(f.n - case['drop'])) if cut is None else list(cut)
        text, rec = synthesise(f, ids, case['scheme'], case.get('gi'))
        ref_cache[key] = impl_load(text, rec, case['strict'], True, case['fp'])
    return ref_cache[key]


def predicates(case, o, info, f, ref):
    """-> list of (name, message, known_id or None); only what the statement claims for this case"""
    out = []
    if o['status'] != 'ok':
        return out
    m = pred_own_factors(case, o)
    if m:
        out.append(('own_factors', m, None))
    if case['strict'] and len(o['shape']) >= 3:
        # strict sorting assembles volumes by slice label whatever the other keys can tell apart: every returned
        # volume holds each slice number once, in the same order in every volume (seeded C20-10: with tied keys a
        # "volume" was built from one slice of several volumes)
        nsl = o['shape'][2]
        pay = o['payload']
        if nsl and len(pay) % nsl == 0 and all(i >= 0 for i in pay):
            seqs = [[f.slices[i] for i in pay[v * nsl:(v + 1) * nsl]] for v in range(len(pay) // nsl)]
            bad = [v for v, q in enumerate(seqs) if sorted(q) != sorted(set(q)) or q != seqs[0]]
            if bad:
                out.append(('volumes_by_slice_label', f'output volume {bad[0]} holds slice numbers {seqs[bad[0]]} '
                            f'(volume 0: {seqs[0]})', None))
    if o.get('sliced'):
        # partial reads must show the same records as the whole array (which own_factors ties to the records)
        out.append(('sliced_read', o['sliced'], None))
    claim_order = (case['strict'] and (info['distinct_keys'] or info['key_order_kept'])) or \
        (not case['strict'] and info['preserving'])
    ref = ref() if claim_order else None        # the un-permuted load is only needed where order independence is claimed
    if ref is not None and ref['status'] == 'ok':
        m = pred_same_as(o, ref)
        if m:
            out.append(('order_independent', m, None))
    claim_complete = (case['strict'] and info['distinct_keys'] and f.labels_identify) or \
                     (not case['strict'] and info['preserving'] and info['occ_prefix'])
    if claim_complete:
        have = {}
        for i in info['present']:
            have.setdefault(f.tv[i], set()).add(f.slices[i])
        ncomplete = sum(1 for s in have.values() if s == set(range(1, f.smax + 1)))
        if ncomplete == 0:
            # S-C20c, repaired: a recording without any complete volume is refused (PARRECError), never loaded
            out.append(('truncated_complete_only', f"no recorded volume is complete but {len(o['payload'])} slices "
                        'are returned', None))
        else:
            # S-C20b, repaired: also when the incomplete volumes are not last in key order
            m = pred_complete_only(o, f, info['present'])
            if m:
                out.append(('truncated_complete_only', m, None))
    return out


def describe(case, info=None):
    d = {k: case[k] for k in ('fixture', 'kind', 'drop', 'strict', 'fp', 'permit', 'scheme')}
    if case.get('gi'):
        d['gi'] = case['gi']
    if case.get('cut'):
        d['cut'] = True
    if info is not None:
        d['order'] = info['order']
    return d


def run(chk: Check):
    ensure_impl_path()
    from nibabel import parrec
    chk.rule = ('every multi-volume PAR fixture of nibabel/tests/data (multi-echo, multi-dynamic, multi-type, DTI, ASL) '
                're-synthesised with 2x3 slices holding 6*id+(0..5) and per-record scale factors; seed-independent core: '
                'fixture x {identity, reversed, interleaved, volume-major, slice-major, odd/even slices, volumes reversed} x '
                'dropped tail {0, 1, half a volume, more than a volume} x strict_sort x {dv, fp}; RS/RI/SS each constant or '
                'varying (8 patterns) x {dv, fp}; general-information flags dyn_scan / diffusion toggled 0/1; refusals without '
                'permit_truncated; file orders with the discarded records first / in the middle / last and the complete volumes '
                'contiguous; every load also read through a handful of proxy slices (single volume, single slice, ranges, '
                'negative steps); random tail: random / order-preserving / rotated permutations with random dropped tails, the tail dropped '
                'either from the recorded order before permuting or (cut) from the permuted file, plus structured orders x cut tails; '
                'a case is distinct by (fixture, record order, drop, strict, scaling, permit, factor scheme) and non-trivial '
                'when the order is not the recorded one or a tail is dropped')
    chk.assumptions = ['record i of the PAR file describes REC slice i (nibabel ignores "index in REC file"); the harness '
                       'keeps PAR lines and REC slices in the same order',
                       'REC and PAR are in-memory file objects (mmap=False); in-plane matrix shrunk to 2x3',
                       'np.lexsort is a stable sort by the key columns, last key primary (checked directly against the '
                       'model on random key tables every run)',
                       'float64 division/multiplication of the model runner are OCaml IEEE doubles (= NumPy elementwise)']
    chk.trusted += ['oracles of C20: np.lexsort (stable, last key primary), NumPy float64 / and * (Section variables '
                    'fone fdiv fmul), NumPy fancy indexing rec[..., idx] and F-order reshape, the PAR text parser '
                    '(parse_PAR_header, used to derive the model inputs)']
    chk.extra['unproved_statements'] = [
        'label-level theorems (C20_strict_label_volumes, C20_strict_load_by_label) assume pairwise distinct key tuples; for '
        'recordings whose keys cannot tell volumes apart (V4 diffusion) order independence is proved for the reorderings '
        'that keep the order of records with the same key tuple (C20_order_independent_stable; necessary by '
        'C20_tied_keys_order_dependent), and C20_truncated_complete_only / C20_own_factors apply; a description of their '
        'volumes by labels does not exist (the keys do not identify them)',
        'for recordings with tied key tuples the ORDER inside the kept records (every returned volume holds slice numbers '
        '1..slice_max ascending: predicate volumes_by_slice_label, evaluated on every strict load) is proved only for distinct '
        'keys (C20_strict_label_volumes); with ties C20_truncated_complete_only gives the kept records as a set (Permutation), '
        'the per-volume order is compared through the model (exact index lists) and the predicate, not stated as a theorem']
    chk.build()
    chk.run_probes()
    if not chk.model_ok:
        return
    fixtures = load_fixtures()
    fx = {f.name: f for f in fixtures}
    chk.extra['fixtures'] = {f.name: {'records': f.n, 'max_slices': f.smax, 'labels_identify_volumes': f.labels_identify}
                             for f in fixtures}
    rng = chk.rng

    # ---- function-boundary checks: vol_numbers, vol_is_full, np.lexsort
    lines, want = [], {}
    small = []
    for n in range(0, 6):
        import itertools
        for t in itertools.product((1, 2, 3), repeat=n):
            small.append(list(t))
    for k in range(chk.n(300, 3000)):
        n = rng.randrange(0, 40)
        m = rng.randrange(1, 7)
        small.append([rng.randrange(1, m + 1) for _ in range(n)])
    for j, l in enumerate(small):
        lines.append(f'v{j} volnos {zl(l)}')
        want[f'v{j}'] = 'ok ' + zl(parrec.vol_numbers(l))
        for smax in (2, 3):
            lines.append(f'f{j}.{smax} isfull {smax} {zl(l)}')
            try:
                want[f'f{j}.{smax}'] = 'ok ' + zl(parrec.vol_is_full(l, smax))
            except ValueError:
                want[f'f{j}.{smax}'] = 'err slice_range'
        chk.count(key=('volnos', tuple(l)), tag='fn:vol_numbers/vol_is_full')
    for j in range(chk.n(300, 3000)):
        n = rng.randrange(0, 30)
        w = rng.randrange(1, 4)
        rows = [[rng.randrange(0, 3) for _ in range(w)] for _ in range(n)]
        lines.append(f'x{j} lexsort {n} ' + ' '.join(zl(r) for r in rows))
        cols = [[r[c] for r in rows] for c in range(w)]
        want[f'x{j}'] = 'ok ' + zl(np.lexsort(cols) if n else [])
        chk.count(key=('lexsort', tuple(map(tuple, rows))), tag='fn:lexsort')
    got = run_model(PROP, lines)
    for k, w in want.items():
        if got.get(k) != w:
            chk.disagreements += 1
            chk.violation('correspondence', case={'line': [l for l in lines if l.startswith(k + ' ')][0]},
                          model_output=got.get(k), impl_output=w, found_input=False,
                          predicate='model and implementation disagree at vol_numbers / vol_is_full / np.lexsort',
                          theorem='correspondence C20/Model.v <-> nibabel/parrec.py')
            break

    # ---- loads
    cases = gen_cases(chk, fixtures)
    ref_cache = {}
    evald = []
    lines = []
    for ci, case in enumerate(cases):
        f = fx[case['fixture']]
        o, mi, info = eval_case(chk, case, fx, ref_cache)
        lines.append(model_line(f'c{ci}', case, mi))
        evald.append((case, o, mi, info))
    mod = run_model(PROP, lines)
    sample_at = {0, len(cases) // 2, len(cases) - 1}
    for ci, (case, o, mi, info) in enumerate(evald):
        f = fx[case['fixture']]
        nontriv = info['order'] != list(range(f.n)) or case['drop'] > 0
        chk.count(key=(case['fixture'], tuple(info['order']), case['strict'], case['fp'], case['permit'], case['scheme'],
                       tuple(sorted((case.get('gi') or {}).items())))
                  if nontriv else None,
                  tag='kind:' + case['kind'],
                  sample=describe(case) if ci in sample_at else None)
        chk.tagc('strict' if case['strict'] else 'lax')
        chk.tagc('scaling:' + ('fp' if case['fp'] else 'dv'))
        chk.tagc('drop:' + ('0' if case['drop'] == 0 else '<1vol' if case['drop'] < f.smax else '>=1vol'))
        chk.tagc('fixture:' + case['fixture'])
        chk.tagc('factors:' + ('all-constant' if case['scheme'] == 0 else 'all-varying' if case['scheme'] < 10 else
                               'RS%s/RI%s/SS%s' % tuple('~' if (case['scheme'] - 10) & m else '=' for m in (1, 2, 4))))
        if case.get('gi'):
            chk.tagc('general_info:' + ','.join(f'{k}={v}' for k, v in sorted(case['gi'].items())))
        chk.tagc('claim:' + ('strict/distinct-keys' if case['strict'] and info['distinct_keys'] else
                             'strict/tied-keys,same-key order kept' if case['strict'] and info['key_order_kept'] else
                             'strict/tied-keys(correspondence only)' if case['strict'] else
                             'lax/order-preserving' if info['preserving'] else 'lax/reordered(correspondence only)'))
        mout = mod.get(f'c{ci}', '<missing>')
        dis = None
        if o['status'] != 'ok':
            # what kind of refusal this is comes from the generated case, not from the message text
            have = {}
            for i in info['present']:
                have.setdefault(f.tv[i], set()).add(f.slices[i])
            nfull = sum(1 for sl_ in have.values() if sl_ == set(range(1, f.smax + 1)))
            chk.refusal(o['status'].split()[1] + (':no complete volume' if nfull == 0 else ':truncated, not permitted'
                                                  if not case['permit'] else ':other'))
            if MODEL_ERR_CLASS.get(mout, mout) != o['status']:
                dis = ('refusal', mout[:200], o['status'] + ' ' + o.get('detail', ''))
        else:
            line, nvol_shape = impl_canon(o, mi)
            mm = mout
            # n_vols is observable only when > 1 (4-D shape)
            import re as _re
            mnv = _re.search(r' nvol=(\d+) ', mout)
            if mnv is None:
                dis = ('load', mout[:200], (line % '?')[:200])
            else:
                nv = int(mnv.group(1))
                if (nvol_shape is None) != (nv <= 1) or (nvol_shape is not None and nvol_shape != nv):
                    dis = ('shape', f'n_vols={nv}', str(o['shape']))
                elif mout != line % nv:
                    a, b = mout.split(' '), (line % nv).split(' ')
                    bad = [x.split('=')[0] for x, y in zip(a, b) if x != y]
                    dis = ('load:' + ','.join(bad), mout[:300], (line % nv)[:300])
        fails = predicates(case, o, info, f, lambda: reference(case, fx, ref_cache, info['present']))
        genuine = [x for x in fails if x[2] is None]
        for name, msg, _ in genuine[:1]:
            chk.violation('property_violation', case=describe(case, info), predicate=f'{name}: {msg}',
                          impl_output={'idx': o.get('idx'), 'payload': o.get('payload'), 'shape': o.get('shape')},
                          model_output=mout[:300])
        if dis:
            chk.disagreements += 1
            if not genuine:
                chk.violation('correspondence', case=describe(case, info), model_output=dis[1], impl_output=dis[2],
                              predicate='model and implementation disagree at ' + dis[0] +
                              '; the property predicates hold on this case', found_input=False,
                              theorem='correspondence C20/Model.v <-> nibabel/parrec.py')
        if len(chk.violations) > 20:
            break

    # ---- cross-check extraction against evaluation inside Coq on a small fixed sample
    pairs = []
    tiny = [([1, 2, 1, 2], 2), ([2, 1, 1, 2, 1], 2), ([1, 2, 3, 1, 2, 3, 1], 3), ([1, 1, 2], 2)]
    for l, smax in tiny:
        vn = parrec.vol_numbers(l)
        pairs.append((f"list_beq Z Z.eqb (vol_numbers {cz(l)}) {cz(vn)}", f'volnos {l}'))
        full = [bool(x) for x in parrec.vol_is_full(l, smax)]
        pairs.append((f"match vol_is_full {cz(l)} {smax} with Some f => list_beq bool Bool.eqb f {cb(full)} | None => false end",
                      f'isfull {l}'))
    done = 0
    for ci, (case, o, mi, info) in enumerate(evald):
        if o['status'] == 'ok' and mi['n'] <= 27 and done < 12 and ci % 7 == 0:
            done += 1
            recs = '[' + ';'.join(coq_rec(r) for r in mi['recs']) + ']'
            st = 'true' if case['strict'] else 'false'
            idx = '[' + ';'.join(f'{x}%nat' for x in o['idx']) + ']'
            pairs.append((f"match sorted_slice_indices {st} {mi['smax']} {recs} with Some i => "
                          f"list_beq nat Nat.eqb i {idx} | None => false end", f'idx case {ci}'))
    imports = ('From Coq Require Import ZArith List Bool. Import ListNotations. Open Scope Z_scope.\n'
               'From NV Require Import C20.Model.\nScheme Equality for list.\n')
    ncase, bad = vm_crosscheck(PROP, imports, pairs)
    chk.vm = {'cases': ncase, 'disagreements': len(bad)}
    if bad:
        chk.disagreements += 1
        chk.violation('correspondence', case={'vm_crosscheck': [pairs[b][1] if isinstance(b, int) and b < len(pairs) else b for b in bad]},
                      predicate='extracted model / implementation disagree with vm_compute evaluation of the model',
                      found_input=False, theorem='extraction cross-check')


def cz(l):
    return '[' + ';'.join(f'({int(x)})' for x in l) + ']'


def cb(l):
    return '[' + ';'.join('true' if x else 'false' for x in l) + ']'


def coq_rec(r):
    t = r.split(' ')
    pl = lambda s: cz([x for x in s.strip('[]').split(',') if x != ''])
    return f'mkRec {pl(t[0])} ({t[1]}) ({t[2]}) ({t[3]}) ({t[4]}) ({t[5]}) {pl(t[6])} {pl(t[7])}'


def replay(chk, obj):
    ensure_impl_path()
    c = obj.get('case')
    if not isinstance(c, dict) or 'fixture' not in c:
        if (obj.get('inputs') or {}).get('probe_fn'):
            import defect_probes
            r = defect_probes.PROBES[obj['inputs']['probe_fn']]()
            print('defect present' if r else 'defect absent')
            return 1 if r else 0
        print('nothing to replay:', obj.get('predicate'))
        return 1
    fx = {f.name: f for f in load_fixtures()}
    f = fx[c['fixture']]
    o, mi, info = eval_case(chk, c, fx, {})
    fails = predicates(c, o, info, f, lambda: reference(c, fx, {}, info['present']))
    print({'status': o['status'], 'shape': o.get('shape'), 'idx': o.get('idx'), 'payload': o.get('payload')})
    for name, msg, known in fails:
        print(f'{name}: {msg}' + (f' [known finding {known}]' if known else ''))
    bad = [x for x in fails if x[2] is None]
    print('property fails on this case' if bad else 'property holds on this case')
    return 1 if bad else 0
