"""C15 — ArraySequence is observationally a list of arrays under any history.

Model: coq/C15/Model.v (heap of row buffers with identity and capacity, sequences
{buffer; offsets; lengths; is_view; buffer_size; build_cache; live}, `step`).  Theorems:
coq/C15/Props.v.  Driver grammar: coq/C15/driver.ml (one history per line, one token per op).

Every history runs in a CHILD process (harness/c15_child.py: refcheck=False resizes may
corrupt memory when something is wrong).  After every step the child copies out list(seq) of
every live object and the `_data is` relation (numbered by first occurrence); the extracted
model prints the same line for the same op list and the diff is textual.  The direct predicate
(harness/c15_lib.py:check_history) is independent of the Coq model: own contents against a
naive Python list-of-arrays step function, growth isolation, exact write-through / all-or-none
for the cells two objects share.
"""
import os
import subprocess
from concurrent.futures import ThreadPoolExecutor

import common
from common import Check, run_model, vm_crosscheck
import c15_lib as L

PROP = 'C15'
CHILD = os.path.join(os.path.dirname(os.path.abspath(__file__)), 'c15_child.py')


# ------------------------------------------------------------------ child runner
def _run_chunk(lines, timeout):
    try:
        p = subprocess.run([common.PY, CHILD], input='\n'.join(lines) + '\n', capture_output=True, text=True,
                           env=common.impl_env(), timeout=timeout)
        return p.returncode, p.stdout, p.stderr[-400:]
    except subprocess.TimeoutExpired as e:
        return -9, (e.stdout or b'').decode() if isinstance(e.stdout, bytes) else (e.stdout or ''), 'timeout'


# filled when the child could not read the buffer of element-less objects (private attribute renamed): sharing is then
# compared among objects with elements only (L.norm_step)
DEGRADED = set()


def run_children(hists, jobs=12, timeout=600):
    """hists: list of (id, header, toks).  Returns ({id: (echo toks, steps, lays)}, {id: why})"""
    lines = [f'{h} {hd} ' + ' '.join(t) for h, hd, t in hists]
    n = max(1, (len(lines) + jobs - 1) // jobs)
    chunks = [lines[i:i + n] for i in range(0, len(lines), n)]
    out, crashed = {}, {}

    def parse(stdout):
        for ln in stdout.splitlines():
            if ln.startswith('#BADPATH'):
                raise RuntimeError('child imported nibabel from ' + ln)
            if ln.startswith('#DEGRADED'):
                DEGRADED.add(ln[10:].strip())
                continue
            p = ln.split('\t')
            if len(p) == 4:
                out[p[0]] = (p[1].split(), p[2].split(';'), p[3].split(';'))

    with ThreadPoolExecutor(jobs) as ex:
        results = list(ex.map(lambda c: _run_chunk(c, timeout), chunks))
    for c, (rc, so, se) in zip(chunks, results):
        parse(so)
        missing = [ln for ln in c if ln.split(' ', 1)[0] not in out]
        # a crash loses the rest of the chunk: re-run what is missing one history per process
        for ln in missing[:200]:
            rc1, so1, se1 = _run_chunk([ln], 60)
            parse(so1)
            hid = ln.split(' ', 1)[0]
            if hid not in out:
                crashed[hid] = f'child rc={rc1} {se1}'
        for ln in missing[200:]:
            crashed[ln.split(' ', 1)[0]] = 'not re-run (too many missing after a crash)'
    return out, crashed


# ------------------------------------------------------------------ case generation
CONFIGS = [  # shape, kind, item sizes, tiny buffer size in bytes
    ((2,), 'f', [8, 4], 1),          # rows_per_buf = 1: every growth re-allocates
    ((3,), 'f', [8, 8], 48),         # rows_per_buf = 2
    ((2, 2), 'i', [4, 8], 100),      # rows_per_buf = 6 / 3 depending on the element dtype
    ((2, 1, 2), 'f', [4, 8], L.DEFAULT_BYTES),   # the default 4 MB
    ((1,), 'i', [8, 4], 17),         # rows_per_buf = 2 / 4
]


def gen_histories(chk):
    hists = []      # (id, header, toks, tag)

    def add(g, toks, tag):
        hists.append((f'h{len(hists)}', g.header(), L.normalise_tokens(g.kind, toks), tag))

    # ---- seed-independent exhaustive core
    quick = chk.tier != 'thorough'
    for ci, (shape, kind, sizes, tiny) in enumerate(CONFIGS):
        if quick and ci >= 3:
            # the default buffer size and the 1-D int config get the reduced alphabet only
            plan = [(0, 3)]
        else:
            plan = [(1, 2), (0, 3 if quick else 4)] if ci else [(1, 2 if quick else 3), (0, 4)]
        inits_all = ([[1, 2], [3], [4, 5, 6]], [[], [7]], [[1], [2], [3]])
        jobs = []
        for level, depth in plan:
            if quick and depth == 4:      # depth 4 from the first initial sequence, depth 3 from the others
                jobs.append((-1, 4, inits_all[:1]))     # level -1: reduced alphabet on the first and the last two objects
                jobs.append((level, 3, inits_all[1:]))
            else:
                jobs.append((level, depth, inits_all + (([[], []],) if level else ())))
        for level, depth, inits in jobs:
            g = L.Gen(shape, kind, sizes, tiny)
            for init_els in inits:
                g.counter = 10
                init = f'new:{tiny}:{g.bpr()}:1:{L.enc_elems(init_els)}'
                for toks in L.exhaustive(g, init, depth, level):
                    add(g, toks, f'exh:cfg{ci}:L{max(level, 0)}:d{depth}')
    for ci, (shape, kind, sizes, tiny) in enumerate(CONFIGS):
        g = L.Gen(shape, kind, sizes, tiny)
        for toks in L.seqop_core(g, tiny):
            add(g, toks, f'exh:cfg{ci}:seqop')
    # refused appends (wrong trailing shape, cached or not), shrink_data(), tuple indices, concatenate(axis=1)
    for ci, (shape, kind, sizes, tiny) in enumerate(CONFIGS):
        g = L.Gen(shape, kind, sizes, tiny)
        for toks in L.ext_core(g, tiny):
            add(g, toks, f'exh:cfg{ci}:ext')
    n_core = len(hists)
    for _ in range(chk.n(300, 8000)):
        shape, kind, sizes, tiny = chk.rng.choice(CONFIGS)
        g = L.Gen(shape, kind, sizes, tiny)
        bc = sorted({tiny, g.bpr() * 2, L.DEFAULT_BYTES, 1})
        add(g, L.random_history(g, chk.rng, chk.rng.choice([6, 10, 15]), bc, ext=True), 'rand:ext')
    # ---- random tail (seeded)
    rng = chk.rng
    for _ in range(chk.n(1500, 40000)):
        shape, kind, sizes, tiny = rng.choice(CONFIGS)
        g = L.Gen(shape, kind, sizes, tiny)
        depth = rng.choice([6, 10, 15, 25])
        bc = sorted({tiny, g.bpr() * 2, g.bpr() * 3 + 1, L.DEFAULT_BYTES, 1})
        add(g, L.random_history(g, rng, depth, bc), f'rand:d{depth}')
    return hists, n_core


def gen_tract(chk):
    """Tractogram layer (harness level only): (tag, toks)"""
    out = [('tract:core', t) for t in L.tract_core()]
    rng = chk.rng
    for _ in range(chk.n(300, 8000)):
        out.append(('tract:rand', L.tract_random(rng, rng.choice([5, 10, 20]))))
    return out


# ------------------------------------------------------------------ main
KNOWN_TEXT = {
    'S-C15d': 'assignment through a view no longer reaches the sequence it was taken from once either '
              'of them has been grown (growth re-allocates / detaches: the two stop sharing _data)',
}


def _check_chunk(items):
    return [L.check_history(*it) for it in items]


def check_all(impl, ids, jobs=8):
    """the direct predicate on every history, in worker processes"""
    from concurrent.futures import ProcessPoolExecutor
    ids = [h for h in ids if h in impl]
    n = max(1, (len(ids) + jobs * 4 - 1) // (jobs * 4))
    chunks = [ids[i:i + n] for i in range(0, len(ids), n)]
    out = {}
    try:
        with ProcessPoolExecutor(jobs) as ex:
            for ch, res in zip(chunks, ex.map(_check_chunk, [[impl[h] for h in ch] for ch in chunks])):
                out.update(zip(ch, res))
    except Exception:
        for h in ids:
            out[h] = L.check_history(*impl[h])
    return out


def compare(chk, hists, impl, crashed, model):
    nviol = 0
    checked = check_all(impl, [h for h, _, _, _ in hists])
    for hid, header, toks, tag in hists:
        case = {'header': header, 'ops': toks}
        if hid in crashed:
            chk.count(key=(header, tuple(toks)), tag=tag)
            chk.violation('property_violation', case=case, predicate='child process died while running this history: '
                          + crashed[hid], impl_output=crashed[hid])
            continue
        echo, steps, lays = impl[hid]
        case['ops'] = echo
        chk.count(key=(header, tuple(echo)), tag=tag,
                  sample={'header': header, 'ops': echo} if hid in ('h5', 'h900', 'h7000') else None)
        for t in echo:
            chk.tagc('op:' + t.split(':')[0])
        for s in steps:
            if s.startswith('err:'):
                chk.refusal(s.split('#')[0][4:])
        fails, known = checked[hid]
        for fid in known:
            chk.known(fid, KNOWN_TEXT[fid])
            chk.tagc('known:' + fid, known[fid])
        m = model.get(hid, '<missing>')
        msteps = m[3:].split(';') if m.startswith('ok ') else [m]
        dis = None
        for k in range(max(len(steps), len(msteps))):
            a = steps[k] if k < len(steps) else '<none>'
            b = msteps[k] if k < len(msteps) else '<none>'
            if (L.norm_step(a) != L.norm_step(b)) if DEGRADED else (a != b):
                dis = (k, a, b)
                break
        if fails and nviol < 40:
            nviol += 1
            cat, k, detail = fails[0]
            chk.violation('property_violation', case=case, impl_output=steps[k] if k < len(steps) else None,
                          model_output=msteps[k] if k < len(msteps) else None,
                          predicate=f'{cat} fails at step {k}: {detail}', theorem='C15_' + cat)
        if dis:
            chk.disagreements += 1
            if not fails and nviol < 40:
                nviol += 1
                k, a, b = dis
                chk.violation('correspondence', case=case, impl_output=a, model_output=b,
                              predicate=f'model and implementation disagree at step {k} ({echo[k] if k < len(echo) else "?"}); '
                              'the direct property predicate holds on this history', found_input=False,
                              theorem='correspondence C15/Model.v <-> nibabel/streamlines/array_sequence.py')


def coq_of_tokens(echo):
    """Gallina list of ops for the vm cross-check"""
    def z(s):
        return f'({int(s)})%Z'

    def el(s):
        return '[' + ';'.join(z(v) for v in L.dec_elem(s)) + ']'

    def els(s):
        return '[' + ';'.join(el(e) for e in ([] if s == '-' else s.split('/'))) + ']'

    def oz(s):
        return 'None' if s == 'n' else f'(Some {z(s)})'

    def ix(s):
        p = s.split(',')
        if p[0] == 's':
            return f'(ISlice {oz(p[1])} {oz(p[2])} {oz(p[3])})'
        if p[0] == 'l':
            return '(IList [' + ';'.join(z(x) for x in p[1:]) + '])'
        return '(IMask [' + ';'.join('true' if x == '1' else 'false' for x in p[1:]) + '])'

    def b(s):
        return 'true' if s == '1' else 'false'

    def fn(s):
        p = s.split(',')
        return {'add': 'FAdd', 'mul': 'FMul', 'lt': 'FLt', 'eq': 'FEq', 'neg': 'FNeg', 'or': 'FOr', 'and': 'FAnd',
                'xor': 'FXor', 'shl': 'FShl', 'shr': 'FShr'}[p[0]] + (' ' + z(p[1]) if len(p) > 1 else '')

    out = []
    for t in echo:
        f = t.split(':')
        o = f[0]
        if o == 'new':
            out.append(f'ONew {z(f[1])} {z(f[2])} {b(f[3])} {els(f[4])}')
        elif o == 'app':
            out.append(f'OAppend {f[1]} {z(f[2])} {el(f[4])} {b(f[3])}')
        elif o == 'fin':
            out.append(f'OFinalize {f[1]}')
        elif o == 'ext':
            out.append(f'OExtend {f[1]} {z(f[2])} {b(f[3])} {els(f[4])}')
        elif o == 'exts':
            out.append(f'OExtendSeq {f[1]} {z(f[2])} {f[3]}')
        elif o == 'geti':
            out.append(f'OGetInt {f[1]} {z(f[2])}')
        elif o == 'get':
            out.append(f'OGetIdx {f[1]} {ix(f[2])}')
        elif o == 'view':
            out.append(f'OView {f[1]} {z(f[2])}')
        elif o == 'copy':
            out.append(f'OCopy {f[1]}')
        elif o == 'dcopy':
            out.append(f'ODeepCopy {f[1]}')
        elif o == 'seti':
            out.append(f'OSetInt {f[1]} {z(f[2])} {z(f[3])}')
        elif o == 'setr':
            out.append(f'OSetIntRows {f[1]} {z(f[2])} {el(f[3])}')
        elif o == 'set':
            v = f'(VSeq {f[3][1:]})' if f[3][0] == 'q' else f'(VScalar {z(f[3][1:])})'
            out.append(f'OSetIdx {f[1]} {ix(f[2])} {v}')
        elif o == 'op':
            if f[3] == '1' and f[4] == '2':
                out.append(f'OOpRefused {f[1]} None')
            else:
                out.append(f'OOp {f[1]} ({fn(f[2])}) {b(f[3])} {b(f[4])}')
        elif o == 'cat':
            ps = [p.split(',') for p in f[1].split(';')] if f[1] else []
            out.append('OConcat [' + ';'.join(f'({p[0]}%nat, {z(p[1])})' for p in ps) + ']')
        elif o == 'drop':
            out.append(f'ODrop {f[1]}')
        elif o == 'extbad':
            out.append(f'OExtendBad {f[1]} {z(f[2])} {b(f[3])} {els(f[4])} {f[5]}')
        elif o == 'appbad':
            out.append(f'OAppendBad {f[1]}')
        elif o == 'shrink':
            out.append(f'OShrink {f[1]}')
        elif o == 'cat1':
            out.append('OConcat1 [' + ';'.join(f'{j}%nat' for j in f[1].split(',') if j) + ']')
        elif o == 'gett':
            out.append(f'OGetCols {f[1]} {ix(f[2])}')
        elif o == 'opq':
            if f[4] == '1' and f[5] == '2':
                out.append(f'OOpRefused {f[1]} (Some {f[3]})')
                continue
            g2 = {'add': 'BAdd', 'sub': 'BSub', 'mul': 'BMul', 'lt': 'BLt', 'eq': 'BEq', 'or': 'BOr', 'and': 'BAnd',
                  'xor': 'BXor'}[f[2]]
            out.append(f'OOpSeq {f[1]} {g2} {f[3]} {b(f[4])} {b(f[5])}')
    return '[' + '; '.join(out) + ']'


def coq_of_raw(raw):
    """Gallina term of the model's raw output line (rawhist): steps res#i@b=elems&..."""
    steps = []
    for s in raw.split(';'):
        r, _, obs = s.partition('#')
        if r == 'ok':
            rr = 'ROk'
        elif r.startswith('el='):
            rr = 'RElem [' + ';'.join(f'({v})%Z' for v in L.dec_elem(r[3:])) + ']'
        else:
            rr = 'RErr E' + r[4:]
        ent = []
        for i, (bk, els) in sorted(L.parse_obs(obs).items()):
            e = '[' + ';'.join('[' + ';'.join(f'({v})%Z' for v in x) + ']' for x in els) + ']'
            ent.append(f'({i}%nat, ({bk}%nat, {e}))')
        steps.append(f'({rr}, [' + ';'.join(ent) + '])')
    return '[' + '; '.join(steps) + ']'


def run(chk: Check):
    common.ensure_impl_path()
    chk.rule = ('histories of ArraySequence operations, each starting with a constructor call, run in a child process; '
                'exhaustive core (seed independent): every word of length 2 over the full alphabet and of length 3-4 over '
                'the reduced alphabet (append, extend, two slice views, element assignment, in-place add — applied to the '
                'first and the last three live objects, so views of views are grown and assigned) from two initial '
                'sequences (multi-row elements; an empty and a single-row element) for five configurations of trailing '
                'shape / dtype / buffer_size (rows_per_buf 1, 2, 3-6 and the 4 MB default); random tail: depth 6-25 over '
                'all operations (append with and without cache_build, finalize_append, extend of lists / generators / '
                'sequences / itself, int / slice / list / mask indexing and assignment with scalars, rows and sequences, '
                'in-place and out-of-place arithmetic, comparisons, copy, concatenate, view constructor, dropping '
                'objects, out-of-range and malformed indices); a history is distinct by its configuration and token list; '
                'every history is non-trivial (at least one constructor and, for the core, 2-4 further operations); list '
                'indices WITH REPEATS whose rows add up to the rows of the whole sequence are part of both alphabets; '
                'operators with an ArraySequence operand (in place and out of place: independent objects, the same '
                'object, shifted slices p[1:] / p[:-1], parent vs reversed / permuted view, one-row broadcasting, '
                'refusals) and, for the integer configurations, the bitwise operators | & ^ << >> in place followed by '
                'assignments through the same name, form a further exhaustive family and are part of the random '
                'alphabet; an in-place operator must return the object it was applied to and must not change which '
                'objects share its buffer; '
                'Tractogram layer (direct predicate only): source x {t + Tractogram(), t + t[0:0], t + t[[]], t + other, '
                't + t, t.copy(), t[slice/list/mask], sums of views, t[0:0] + t} x {no growth, += empty / empty slice / '
                'non-empty, growth of the source} x {element / slice assignment, in-place arithmetic on streamlines and '
                'data_per_point / data_per_streamline of the derived and of the source tractogram} plus Tractogram() + t and '
                'e += t (left operand without keys: the sum must be independent of t in all three components) and random '
                'histories of depth 5-20')
    chk.assumptions = [
        'all sequence objects created in a history stay referenced until dropped explicitly; element arrays returned by '
        'integer indexing are never held across a step (a held element keeps a reference to _data and changes what '
        'ndarray.resize does; with refcheck=False it would dangle)',
        'row payloads are integers that every dtype in use represents exactly (<= 4 multiplications per history); '
        'boolean results of comparisons are only read, sliced, copied or combined out of place',
        'tuple indices (slicing of the trailing dims), concatenate(axis != 0), '
        'save/load and a direct call of shrink_data() on a view are outside the generated alphabet',
        'extend(list) / a second cached build while a cached build is pending is API misuse and not generated',
    ]
    chk.trusted.append('NumPy fact made explicit model state: ndarray.resize(refcheck=True) raises iff another live '
                       'object references the array (here: another live sequence object, or a local slice in '
                       'extend(self)); checked on every history through the memory-owner relation of the arrays the objects hand out')
    chk.trusted.append('NumPy fact decided by the harness and handed to the model as a token flag (the model has no dtype '
                       'component): an in-place operator is refused (TypeError class) iff its result dtype cannot be '
                       "cast 'same_kind' to the dtype of the target's buffer, or a bitwise operator meets a float; the "
                       'direct predicate decides the same from the dtype kinds the implementation reports')
    chk.build()
    chk.run_probes()
    chk.extra['unproved_statements'] = UNPROVED
    if not chk.model_ok:
        return
    hists, n_core = gen_histories(chk)
    chk.extra['core_histories'] = n_core
    impl, crashed = run_children([(h, hd, t) for h, hd, t, _ in hists])
    if DEGRADED:
        chk.extra['degraded_private_access'] = ('the child could not read ' + '; '.join(sorted(DEGRADED)) + ' (private '
                                                'attribute renamed?): sharing compared among objects with elements only')
    lines = [f'{h} hist ' + ' '.join(impl[h][0]) for h, _, _, _ in hists if h in impl]
    model = common.run_model_parallel(PROP, lines)
    compare(chk, hists, impl, crashed, model)
    chk.exhaustive = False
    # ---- Tractogram layer: direct predicate only (no Coq model of Tractogram)
    thists = gen_tract(chk)
    timpl, tcrashed = run_children([(f't{n}', 'T', t) for n, (_, t) in enumerate(thists)])
    nv = 0
    for n, (tag, toks) in enumerate(thists):
        hid = f't{n}'
        case = {'header': 'T', 'ops': toks}
        chk.count(key=('T', tuple(toks)), tag=tag, sample=case if n == 7 else None)
        if hid in tcrashed:
            chk.violation('property_violation', case=case, predicate='child process died: ' + tcrashed[hid])
            continue
        echo, steps, _ = timpl[hid]
        fails, known = L.check_thistory(echo, steps)
        for fid in known:
            chk.known(fid, KNOWN_TEXT[fid])
            chk.tagc('known:' + fid, known[fid])
        if fails and nv < 20:
            nv += 1
            cat, k, detail = fails[0]
            chk.violation('property_violation', case=case, impl_output=steps[k] if k < len(steps) else None,
                          predicate=f'tractogram layer: {cat} fails at step {k}: {detail}', theorem='C15_' + cat)
    # ---- cross-check extraction + driver against evaluation inside coqc
    sample = [h for h, _, _, _ in hists if h in impl][::max(1, len(hists) // 25)][:25]
    raw = run_model(PROP, [f'{h} rawhist ' + ' '.join(impl[h][0]) for h in sample])
    pairs = []
    for h in sample:
        r = raw.get(h, '')
        if r.startswith('ok '):
            pairs.append((f'if deq (run init {coq_of_tokens(impl[h][0])}) {coq_of_raw(r[3:])} then true else false', h))
    imports = ('From Coq Require Import ZArith List Bool Arith. Import ListNotations.\n'
               'From NV Require Import C15.Model.\n'
               'Definition deq : forall a b : list (result * list (nat * (nat * list (list Z)))), {a = b} + {a <> b}.\n'
               'Proof. repeat decide equality. Defined.\n'
               '(* Model.v has a record called seq; the shared template needs List.seq *)\n'
               'Notation seq := List.seq (only parsing).\n')
    ncase, bad = vm_crosscheck(PROP, imports, pairs)
    chk.vm = {'cases': ncase, 'disagreements': len(bad)}
    if bad:
        chk.disagreements += 1
        chk.violation('correspondence', case={'vm_crosscheck': [pairs[b][1] if isinstance(b, int) and b < len(pairs) else b for b in bad]},
                      predicate='extracted model disagrees with vm_compute evaluation of the model',
                      found_input=False, theorem='extraction cross-check')


UNPROVED = [
    'C15_view_write_through at full strength is false of the faithful model (C15_view_write_through_refuted, S-C15d); '
    'proved: _partial (exactly the same-cell elements change, i.e. while the two objects share the buffer); in '
    'C15_simulation_all the same fact is the clause "growth leaves the array names of the grown object open, but never '
    'creates sharing"',
    'domain restrictions of the model (reported as EBadSeq, never generated, and part of spec_rel as such): append / '
    'extend of an element with another trailing shape to a sequence WITHOUT elements (it may define the shape), '
    'shrink_data() inside a cached build (API misuse), concatenate(axis=1) of sequences without rows (AxisError on the '
    '1-D initial buffer); seq[idx, cols] is modelled as the view seq[idx] (one Z per row) and such objects are only read '
    'by the harness',
    'Tractogram: extend / +=, __getitem__, copy (deep clone), __add__ and both branches of apply_affine (any view, fix '
    '3ae30612: element-wise; non-view filling its buffer: whole buffer in place for float64, a new array that moves '
    'the object to a buffer of its own when np.dot(out=) refuses, C15_tractogram_apply_affine_whole) are proved on the '
    'model as state functions composed of / next to the step operations (C15_tractogram_*); they are not operations of '
    'the step alphabet, so C15_simulation_all does not range over them, and the Tractogram layer of the harness is '
    'checked by the direct predicate only (no extracted-model correspondence); save/load not covered at all',
]


def replay(chk, obj):
    common.ensure_impl_path()
    c = obj.get('case')
    if not isinstance(c, dict) or 'ops' not in c:
        if (obj.get('inputs') or {}).get('probe_fn'):
            import defect_probes
            r = defect_probes.PROBES[obj['inputs']['probe_fn']]()
            print('defect present' if r else 'defect absent')
            return 1 if r else 0
        print('nothing to replay:', obj.get('predicate'))
        return 1
    ops = c['ops']
    if c['header'] != 'T':
        ops = L.normalise_tokens(c['header'].split()[-1], ops)
    impl, crashed = run_children([('r0', c['header'], ops)], jobs=1)
    if crashed:
        print('child crashed:', crashed)
        return 1
    echo, steps, lays = impl['r0']
    for t, s in zip(echo, steps):
        print(f'{t:40s} -> {s}')
    if c['header'] == 'T':
        fails, known = L.check_thistory(echo, steps)
        for f in fails:
            print('FAIL', f)
        print('property fails on this history' if fails else 'property holds on this history')
        return 1 if fails else 0
    fails, known = L.check_history(echo, steps, lays)
    bad = bool(fails)
    if obj.get('kind') == 'correspondence':
        ok, _ = common.build_binary(PROP)
        m = run_model(PROP, ['r0 hist ' + ' '.join(echo)]).get('r0', '')
        print('model:', m)
        bad = bad or (m[3:].split(';') != steps)
    for f in fails:
        print('FAIL', f)
    print('property/correspondence fails on this history' if bad else 'property holds on this history')
    return 1 if bad else 0
