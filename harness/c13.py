"""C13 — the image data cache and its aliases follow the documented model.

Model: coq/C13/Model.v (cstep/crun = the code of DataobjImage.get_fdata / in_memory / uncache,
ArrayProxy.__init__/__array__/__getitem__, array_from_file, apply_read_scaling over a heap of
array objects and buffers; sstep/srun = the documented rules; abs).  Theorems: coq/C13/Props.v.

Case lines sent to bin/modelrun_c13 (see coq/C13/driver.ml):
  <id> run <expired> A <dt> <shape> <vals> <ops...>
  <id> run <expired> P <dt> <shape> <filevals> <slope|-> <inter|-> <mmap> <gz> <ops...>
  (<expired> = 1 when this nibabel's get_data() raises ExpiredDeprecationError: a platform fact read at run time)
ops: f8 f4 fi u8 u4 ui f2 fc u2 uc (get_fdata fill/unchanged, float64/float32/int16/float16/complex64) as (np.asarray(dataobj))
     sl (dataobj[..., 1]) sf (dataobj[...]) un (uncache) ed (last[0,..,0] += 7) im (in_memory)
     gf gu (legacy get_data(caching=fill/unchanged)) hs:<s>:<i>|hs:- hh:<shape> hd:<dt> (img.header edits)
     os:.. oh:.. od:.. (edits of the header object the image / proxy was created from)
     rh (read img.header) rs (read dataobj.shape/dtype/slope/inter)
     x8 x4 y8 y4 (get_fdata fill/unchanged while the proxy's file cannot be opened: the proxy's file_like is
     pointed at a missing name for the call)  sb (dataobj[0:d0, 0:d1, ...])  r:<mask> (full-length slices,
     the axes flagged 1 reversed; harness tokens r0 rL rA r0L)
result: one token per op (A<id>:<shape>:<dt>:<writeable><mapped>:<values> | B<bool> | H.. | S.. |
R:<refusal> | -), the final values of every returned array, whether the file is unchanged, and
whether the abstract specification agreed with the concrete model on every step.
Object identity is canonicalised by first-occurrence numbering on both sides.
"""
import itertools
import mmap as _mmap
import os
import warnings

import numpy as np

from common import Check, ensure_impl_path, run_model, run_model_parallel, vm_crosscheck

PROP = 'C13'

ALPHA = ['f8', 'f4', 'u8', 'u4', 'as', 'sl', 'sf', 'un', 'ed', 'im', 'hs:3:5', 'hh:4.2.1', 'os:3:5', 'oh:4.2.1']
# get_fdata while the image file cannot be opened (x: fill, y: unchanged), explicit full bounds, full-length
# reversed slices (axis 0 / last axis / all axes / first and last)
NEW = ['x8', 'x4', 'sb', 'r0', 'rL', 'rA']
EXTRA = ['x8', 'x4', 'y8', 'y4', 'sb', 'r0', 'rL', 'rA', 'r0L', 'f2', 'fc', 'u2', 'uc', 'fi', 'ui', 'gf', 'gu', 'hd:i2', 'hd:f8', 'od:i2', 'od:f8', 'hs:-', 'os:-', 'rh', 'rs', 'oh:8.1.1', 'hh:8']
EPILOGUE = ['rh', 'rs', 'im']
NPDT = {'i2': np.int16, 'f4': np.float32, 'f8': np.float64, 'f2': np.float16, 'c8': np.complex64}


# --------------------------------------------------------------------------- configurations
def cfg_name(c):
    if c['kind'] == 'A':
        return f"A-{c['dt']}-{'x'.join(map(str, c['shape']))}-{c['order']}"
    return (f"P-{c['dt']}-{'x'.join(map(str, c['shape']))}-{'scl' if c['scl'] else 'raw'}-"
            f"{'mmap' if c['mmap'] else 'nomm'}-{'gz' if c['gz'] else 'plain'}-{c['ctor']}{'-short' if c['short'] else ''}"
            f"{'-kfo' if c.get('kfo') else ''}")


def A(dt, shape=(2, 2, 2), order='C'):
    return dict(kind='A', dt=dt, shape=tuple(shape), order=order)


def P(dt, scl, mm, shape=(2, 2, 2), gz=False, ctor='load', short=False, kfo=False):
    # kfo: keep_file_open=True (a persistent file handle inside the proxy): not a parameter of the model -
    # the cache / alias behaviour must be the same with it (seeded C13-11: a proxy that kept its memory map)
    return dict(kind='P', dt=dt, shape=tuple(shape), scl=scl, mmap=mm, gz=gz, ctor=ctor, short=short, kfo=kfo)


def base_values(shape):
    n = int(np.prod(shape))
    return np.arange(1, n + 1).reshape(shape, order='F')   # logical Fortran order = 1..n


def file_name(c):
    return f"p_{c['dt']}_{'x'.join(map(str, c['shape']))}_{int(bool(c['scl']))}{'_short' if c['short'] else ''}.nii" + \
        ('.gz' if c['gz'] else '')


def prepare_files(cfgs, workdir):
    """Write the source file of every proxy configuration once."""
    import nibabel as nib
    done = set()
    for c in cfgs:
        if c['kind'] != 'P':
            continue
        fn = os.path.join(workdir, file_name(c))
        if fn in done:
            continue
        done.add(fn)
        src = nib.Nifti1Image(base_values(c['shape']).astype(NPDT[c['dt']]), np.eye(4))
        if c['scl']:
            src.header.set_slope_inter(*c['scl'])
        if c['short']:
            full = fn.replace('_short', '_tmpfull')
            src.to_filename(full)
            b = open(full, 'rb').read()
            os.remove(full)
            if c['gz']:
                import gzip
                raw = gzip.decompress(b)
                with gzip.open(fn, 'wb') as f:
                    f.write(raw[:-np.dtype(NPDT[c['dt']]).itemsize])
            else:
                with open(fn, 'wb') as f:
                    f.write(b[:-np.dtype(NPDT[c['dt']]).itemsize])
        else:
            src.to_filename(fn)


EXPIRED = [None]


def get_data_expired():
    """Platform fact: does the legacy get_data() raise in this nibabel (version >= 5.0)?"""
    if EXPIRED[0] is None:
        import nibabel as nib
        with warnings.catch_warnings():
            warnings.simplefilter('ignore')
            try:
                nib.Nifti1Image(np.zeros((1, 1, 1), np.float32), np.eye(4)).get_data()
                EXPIRED[0] = 0
            except Exception as e:
                from nibabel.deprecator import ExpiredDeprecationError
                if not isinstance(e, ExpiredDeprecationError):
                    raise
                EXPIRED[0] = 1
    return EXPIRED[0]


def rev_mask(tok, ndim):
    m = [False] * ndim
    if tok in ('r0', 'r0L', 'rA'):
        m[0] = True
    if tok in ('rL', 'r0L', 'rA'):
        m[-1] = True
    if tok == 'rA':
        m = [True] * ndim
    return m


def model_ops(c, ops):
    """reversed-slice tokens carry the explicit axis mask on the model line"""
    nd = len(c['shape'])
    return [('r:' + ''.join('1' if b else '0' for b in rev_mask(t, nd))) if t[0] == 'r' and t not in ('rh', 'rs') else t
            for t in ops]


def model_prefix(c):
    n = int(np.prod(c['shape']))
    sh = '.'.join(map(str, c['shape']))
    if c['kind'] == 'A':
        return f"run {get_data_expired()} A {c['dt']} {sh} {','.join(str(i) for i in range(1, n + 1))}"
    nv = n - 1 if c['short'] else n
    s, i = (c['scl'] if c['scl'] else ('1', '0'))   # a file written without scaling stores slope 1, inter 0
    return (f"run {get_data_expired()} P {c['dt']} {sh} {','.join(str(k) for k in range(1, nv + 1))} {s} {i} "
            f"{int(c['mmap'])} {int(c['gz'])}")


# --------------------------------------------------------------------------- implementation side
def is_mapped(r):
    b = r
    for _ in range(8):
        if isinstance(b, _mmap.mmap):
            return True
        b = getattr(b, 'base', None)
        if b is None:
            return False
    return False


def dtname(dt):
    dt = np.dtype(dt)
    return {('i', 2): 'i2', ('f', 4): 'f4', ('f', 8): 'f8', ('f', 2): 'f2', ('c', 8): 'c8'}.get((dt.kind, dt.itemsize), dt.str)


def ival(x):
    if isinstance(x, complex) or np.iscomplexobj(x):
        if complex(x).imag != 0:
            return repr(complex(x))
        x = complex(x).real
    x = float(x)
    return str(int(x)) if x == int(x) else repr(x)


def vals_str(r):
    return ','.join(ival(v) for v in np.asarray(r).ravel(order='F'))


def refusal(e, k, c, last):
    """Refusal class of an exception, from its TYPE, the operation and observable state only - never from its text."""
    from nibabel.deprecator import ExpiredDeprecationError
    if isinstance(e, ExpiredDeprecationError):
        return 'R:expired'
    if isinstance(e, FileNotFoundError):
        return 'R:unreadable'
    if k in ('fi', 'ui') and isinstance(e, ValueError):
        return 'R:not_float'          # an integer dtype was asked of get_fdata
    if k == 'ed' and isinstance(e, ValueError) and last is not None and not last.flags.writeable:
        return 'R:read_only'
    if k == 'sl' and isinstance(e, (IndexError, ValueError)) and (len(c['shape']) == 0 or c['shape'][-1] < 2):
        return 'R:index'              # [..., 1] on a last axis of length < 2 (numpy: IndexError; fileslice: ValueError)
    if isinstance(e, (OSError, ValueError, EOFError)) and c['kind'] == 'P' and c.get('short'):
        return 'R:short_file'         # the file is shorter than its header says: every read is refused
    return 'R:other:' + type(e).__name__


def make_image(c, workdir):
    """Returns (img, h0, own) - h0 is the header object the image was created from (or None)."""
    import nibabel as nib
    from nibabel.arrayproxy import ArrayProxy
    if c['kind'] == 'A':
        a = base_values(c['shape']).astype(NPDT[c['dt']])
        a = np.ascontiguousarray(a) if c['order'] == 'C' else np.asfortranarray(a)
        h0 = nib.Nifti1Header()
        h0.set_data_shape((9, 9))
        h0.set_data_dtype(np.float32)
        h0.set_data_offset(352)
        h0.set_slope_inter(4, 4)
        return nib.Nifti1Image(a, np.eye(4), header=h0), h0, a
    fn = os.path.join(workdir, file_name(c))
    if c['ctor'] == 'load':
        img = nib.load(fn, mmap=c['mmap'], keep_file_open=True) if c.get('kfo') else nib.load(fn, mmap=c['mmap'])
        h0 = getattr(img, '_load_cache', {}).get('header')   # the header.copy() given to the proxy
        return img, h0, None
    with nib.openers.ImageOpener(fn) as f:
        h0 = nib.Nifti1Header.from_fileobj(f)
    prox = ArrayProxy(fn, h0, mmap=c['mmap'], keep_file_open=True) if c.get('kfo') else ArrayProxy(fn, h0, mmap=c['mmap'])
    return nib.Nifti1Image(prox, np.eye(4), header=h0), h0, None


def hdr_edit(h, tok):
    if h is None:
        return
    k, _, arg = tok.partition(':')
    k = k[1]
    if k == 's':
        if arg == '-':
            h.set_slope_inter(None, None)
        else:
            s, i = arg.split(':')
            h.set_slope_inter(float(s), float(i))
    elif k == 'h':
        h.set_data_shape(tuple(int(x) for x in arg.split('.')))
    elif k == 'd':
        h.set_data_dtype(NPDT[arg])


def scl_str(si):
    s, i = si
    if s is None and i is None:
        return '-'
    return f'{ival(1.0 if s is None else s)},{ival(0.0 if i is None else i)}'


def impl_trace(c, ops, workdir):
    """Run one operation sequence on the implementation.
    Returns (canonical trace string, predicate failure or None)."""
    img, h0, own = make_image(c, workdir)
    fn = os.path.join(workdir, file_name(c)) if c['kind'] == 'P' else None
    before = open(fn, 'rb').read() if fn else None
    keep = []            # every returned array, alive, in first-occurrence order
    num = {}             # id -> number
    toks = []
    last = None
    # ---- tracker of the property predicate (independent of the Coq model)
    pred = None
    cached = None        # (array object, dtype name) according to the documented rules
    dcached = None       # legacy get_data cache according to the documented rules
    n = int(np.prod(c['shape']))
    if c['kind'] == 'P':
        s, i = c['scl'] if c['scl'] else (1, 0)
        filevals = base_values(c['shape']).astype(np.float64) * s + i
    for step, tok in enumerate(ops):
        k = tok.split(':')[0]
        r = None
        try:
            if k in ('f8', 'f4', 'fi', 'u8', 'u4', 'ui', 'f2', 'fc', 'u2', 'uc'):
                dt = {'8': 'f8', '4': 'f4', 'i': 'i2', '2': 'f2', 'c': 'c8'}[k[1]]
                r = img.get_fdata(caching='fill' if k[0] == 'f' else 'unchanged', dtype=NPDT[dt])
            elif k in ('x8', 'x4', 'y8', 'y4'):
                dt = 'f8' if k[1] == '8' else 'f4'
                d = img.dataobj
                old = getattr(d, 'file_like', None)
                if old is not None:            # the proxy's file is "moved away" for the duration of the call
                    d.file_like = old + '.moved-away'
                try:
                    r = img.get_fdata(caching='fill' if k[0] == 'x' else 'unchanged', dtype=NPDT[dt])
                finally:
                    if old is not None:
                        d.file_like = old
            elif k in ('r0', 'rL', 'rA', 'r0L'):
                slicer = tuple(slice(None, None, -1) if m else slice(None) for m in rev_mask(k, len(c['shape'])))
                r = img.dataobj[slicer]
            elif k == 'sb':
                slicer = tuple(slice(0, int(x)) for x in c['shape'])
                r = img.dataobj[slicer]
            elif k == 'as':
                r = np.asarray(img.dataobj)
            elif k == 'sl':
                r = img.dataobj[..., 1]
            elif k == 'sf':
                r = img.dataobj[...]
            elif k == 'un':
                img.uncache()
                cached = None
                dcached = None
                toks.append('-')
            elif k == 'ed':
                if last is None:
                    toks.append('-')
                else:
                    last[(0,) * last.ndim] += 7
                    toks.append('-')
            elif k == 'im':
                b = bool(img.in_memory)
                toks.append('B%d' % b)
                want = c['kind'] == 'A' or cached is not None or dcached is not None
                if b != want and pred is None:
                    pred = f'step {step}: in_memory is {b}, documented model says {want}'
            elif k in ('gf', 'gu'):
                r = img.get_data(caching='fill' if k == 'gf' else 'unchanged')
            elif k in ('hs', 'hh', 'hd'):
                hdr_edit(img.header, tok)
                toks.append('-')
            elif k in ('os', 'oh', 'od'):
                hdr_edit(h0, tok)
                toks.append('-')
            elif k == 'rh':
                h = img.header
                toks.append('H:%s:%s:%d:%s' % ('.'.join(str(int(x)) for x in h.get_data_shape()),
                                               dtname(h.get_data_dtype()), int(h.get_data_offset()),
                                               scl_str(h.get_slope_inter())))
            elif k == 'rs':
                d = img.dataobj
                toks.append('S:%s:%s:%s:%s' % ('.'.join(str(int(x)) for x in d.shape), dtname(d.dtype),
                                               ival(getattr(d, 'slope', 1)), ival(getattr(d, 'inter', 0))))
            else:
                raise RuntimeError('bad op ' + tok)
        except Exception as e:  # a refusal: nothing was returned
            if isinstance(e, RuntimeError):
                raise
            toks.append(refusal(e, k, c, last))
            continue
        if r is None:
            continue
        isnew = id(r) not in num
        if isnew:
            num[id(r)] = len(keep)
            keep.append(r)
        last = r
        toks.append('A%d:%s:%s:%d%d:%s' % (num[id(r)], '.'.join(str(x) for x in r.shape), dtname(r.dtype),
                                           bool(r.flags.writeable), is_mapped(r), vals_str(r)))
        # ---- property predicate on this access
        if pred is None:
            if k in ('f8', 'f4', 'u8', 'u4', 'x8', 'x4', 'y8', 'y4', 'f2', 'fc', 'u2', 'uc'):
                dt = {'8': 'f8', '4': 'f4', '2': 'f2', 'c': 'c8'}[k[1]]
                if dtname(r.dtype) != dt:
                    pred = f'step {step}: get_fdata returned dtype {r.dtype}, asked {dt}'
                elif cached is not None and cached[1] == dt:
                    if r is not cached[0]:
                        pred = f'step {step}: cached {dt} array not returned by identity'
                else:
                    if not isnew and not (c['kind'] == 'A' and r is own):
                        pred = f'step {step}: uncached read returned an earlier array object'
                    elif c['kind'] == 'P' and not np.array_equal(r, filevals):
                        pred = f'step {step}: uncached get_fdata does not reflect the file'
                    elif c['kind'] == 'A' and not np.array_equal(r, own):
                        pred = f"step {step}: get_fdata differs from the image's own array"
                    if k[0] in 'fx':
                        cached = (r, dt)
            elif k in ('gf', 'gu'):
                if dcached is not None:
                    if r is not dcached:
                        pred = f'step {step}: get_data cache not returned by identity'
                else:
                    ref = filevals if c['kind'] == 'P' else own
                    if not np.array_equal(r, ref):
                        pred = f'step {step}: uncached get_data does not reflect the ' + ('file' if c['kind'] == 'P' else 'own array')
                    elif c['kind'] == 'P' and not isnew:
                        pred = f'step {step}: uncached get_data returned an earlier array object'
                    elif c['kind'] == 'A' and r is not own:
                        pred = f"step {step}: get_data is not the image's own array"
                    if k == 'gf':
                        dcached = r
            elif k in ('as', 'sf', 'sl', 'sb', 'r0', 'rL', 'rA', 'r0L'):
                ref = filevals if c['kind'] == 'P' else own
                want = ref[..., 1] if k == 'sl' else ref[slicer] if k[0] == 'r' else ref
                if r.shape != want.shape or not np.array_equal(r, want):
                    pred = f'step {step}: {k} does not reflect the ' + ('file' if c['kind'] == 'P' else 'own array')
                elif c['kind'] == 'P' and not isnew:
                    pred = f'step {step}: proxy read returned an earlier array object'
                elif c['kind'] == 'A' and k == 'as' and r is not own:
                    pred = f"step {step}: asarray(dataobj) is not the image's own array"
    fin = ';'.join(vals_str(x) for x in keep)
    same = 'same'
    if fn:
        after = open(fn, 'rb').read()
        if after != before:
            same = 'CHANGED'
            if pred is None:
                pred = 'the image file was modified by data accesses / edits of returned arrays'
    return ' '.join(toks) + ' | F ' + fin + ' | file=' + same, pred


def canon_model(line, c):
    """Renumber the model's object ids by first occurrence; keep the final values of returned objects."""
    if not line.startswith('ok'):
        return line, 'n/a'
    body, fin, fil, spec = [x.strip() for x in line[2:].split('|')]
    num = {}
    toks = []
    for t in body.split():
        if t[0] == 'A':
            i, rest = t[1:].split(':', 1)
            if i not in num:
                num[i] = len(num)
            toks.append(f'A{num[i]}:{rest}')
        else:
            toks.append(t)
    finals = dict(x.split('=') for x in fin[2:].split(';') if '=' in x)
    order = sorted(num, key=lambda i: num[i])
    n = int(np.prod(c['shape']))
    nv = (n - 1 if c.get('short') else n) if c['kind'] == 'P' else 0
    want_file = ','.join(str(k) for k in range(1, nv + 1))
    same = 'same' if fil == 'file=' + want_file else 'CHANGED'
    return ' '.join(toks) + ' | F ' + ';'.join(finals[i] for i in order) + ' | file=' + same, spec.replace('spec=', '')


# --------------------------------------------------------------------------- parallel runner
_W = {}


def _work(args):
    ci, opss = args
    c = _W['cfgs'][ci]
    out = []
    with warnings.catch_warnings():
        warnings.simplefilter('ignore')
        for ops in opss:
            try:
                out.append(impl_trace(c, ops, _W['workdir']))
            except Exception as e:   # harness-level failure: reported as such
                out.append(('HARNESS-ERROR ' + repr(e)[:200], None))
    return out


def run_impl(cfgs, jobs, workdir, nproc):
    """jobs: list of (cfg index, [ops...]) chunks -> list of result lists in the same order."""
    _W['cfgs'] = cfgs
    _W['workdir'] = workdir
    if nproc <= 1:
        return [_work(j) for j in jobs]
    import multiprocessing as mp
    ctx = mp.get_context('fork')
    with ctx.Pool(nproc) as pool:
        return pool.map(_work, jobs, chunksize=1)


def chunks(l, n):
    for i in range(0, len(l), n):
        yield l[i:i + n]


# --------------------------------------------------------------------------- the check
def known_signature(c, ops, pred):
    """No known finding is registered for C13."""
    return None


def header_class_sweep(chk):
    """Last clause of the statement, evaluated directly for EVERY header class nibabel offers with the generic
    ArrayProxy (the operation-sequence model above runs on NIfTI-1 headers): a proxy built from a header object -
    and an image created from that proxy and header - returns the same data whatever is later done to that header
    object or to the image's header (scale factors, shape, dtype).  Found S-C13a (Spm99AnalyzeHeader hands out its
    slope as a view of its own memory)."""
    import nibabel as nib
    from nibabel.arrayproxy import ArrayProxy
    classes = [(nib.Nifti1Image, 'Nifti1Header'), (nib.Nifti1Pair, 'Nifti1PairHeader'), (nib.Nifti2Image, 'Nifti2Header'),
               (nib.Nifti2Pair, 'Nifti2PairHeader'), (nib.AnalyzeImage, 'AnalyzeHeader'),
               (nib.Spm99AnalyzeImage, 'Spm99AnalyzeHeader'), (nib.Spm2AnalyzeImage, 'Spm2AnalyzeHeader')]
    n = 0
    edits = [('slope', lambda h: h.set_slope_inter(7.0)), ('slope_none', lambda h: h.set_slope_inter(None)),
             ('slope_inter', lambda h: h.set_slope_inter(3.0, 5.0)), ('shape', lambda h: h.set_data_shape((4, 3, 2))),
             ('dtype', lambda h: h.set_data_dtype(np.float32)),
             ('raw_field', lambda h: h.__setitem__('scl_slope', 9.0))]
    for klass, hname in classes:
        for dt in ('i2', 'f4'):
            for slope in (None, 2.0, 0.5):
                for mm in (True, False):
                    h0 = klass.header_class()
                    h0.set_data_dtype(NPDT[dt])
                    h0.set_data_shape((2, 3, 4))
                    if slope is not None:
                        try:
                            h0.set_slope_inter(slope)
                        except Exception:
                            continue            # this class stores no scale factor
                    fn = os.path.join(chk.workdir, f'hc_{hname}_{dt}.img')
                    raw = (np.arange(24) + 1).astype(NPDT[dt])
                    with open(fn, 'wb') as f:
                        f.write(b'\0' * int(h0.get_data_offset()))
                        f.write(raw.tobytes())
                    for target in ('original_header', 'image_header'):
                        for ename, edit in edits:
                            h = h0.copy()
                            prox = ArrayProxy(fn, h, mmap=mm)
                            img = klass(prox, np.eye(4), header=h)
                            before = np.array(np.asarray(prox))
                            sl_before = np.array(prox[1])
                            try:
                                edit(h if target == 'original_header' else img.header)
                            except Exception:
                                continue        # the class refuses this edit: nothing to observe
                            n += 1
                            after = np.asarray(prox)
                            fd = img.get_fdata(caching='unchanged')
                            bad = None
                            if after.shape != before.shape or after.dtype != before.dtype or \
                                    not np.array_equal(after, before):
                                bad = f'np.asarray(proxy) changed: element 1 {before.ravel()[1]!r} -> {after.ravel()[1]!r}'
                            elif not np.array_equal(np.asarray(prox[1]), sl_before):
                                bad = 'proxy[1] changed'
                            elif fd.shape != before.shape or not np.array_equal(fd, before.astype(np.float64)):
                                bad = 'get_fdata(caching="unchanged") no longer equals the proxy data read before the edit'
                            if bad:
                                chk.violation('property_violation',
                                              case={'header_class': hname, 'dtype': dt, 'slope': slope, 'mmap': mm,
                                                    'edited': target, 'edit': ename},
                                              predicate='what a proxy returns is unaffected by later edits to the image '
                                                        'header or to the header object the image was created from: ' + bad)
                                return n
    return n


def run(chk: Check):
    ensure_impl_path()
    chk.rule = ('exhaustive: every operation sequence of depth D over the 14-op alphabet ' + ' '.join(ALPHA) +
                ' followed by the observing epilogue rh rs im, for each image configuration (array image int16/'
                'float32/float64 in C and F layout; proxy image over a NIfTI file of int16/float32/float64 x '
                'scaled(2,1)/unscaled x mmap on/off x nib.load / explicit ArrayProxy(file, header) construction; '
                'plus compressed, shape (2,3,1) [index refusal] and truncated-file configurations; plus the first ten '
                'ops with legacy get_data(fill/unchanged) on five configurations); random: depth '
                '5..30 over the alphabet plus ' + ' '.join(EXTRA) + '; a sequence is non-trivial when it returns '
                'at least one array; distinct by (configuration, sequence)')
    chk.assumptions = ['array values are small integers (|v| < 2^15), exact in int16/float32/float64, so dtype casts '
                       'are the identity on values', 'native little-endian NIfTI-1 single files written by nibabel '
                       'itself; one image per sequence; single thread',
                       'identity is observed with `is` on references kept alive by the harness']
    chk.trusted.append('NumPy view / copy / memmap(mode="c") semantics: modelled (heap of buffers and array objects), '
                       'not verified; checked against NumPy on every sequence')
    import time
    t0 = time.time()
    chk.build()
    chk.run_probes()
    t1 = time.time()
    if not chk.model_ok:
        return
    rng = chk.rng
    thorough = chk.tier == 'thorough'
    # ---- last clause over every header class (direct predicate)
    chk.extra['header_class_sweep_cases'] = header_class_sweep(chk)
    # ---- configurations
    arr_cfgs = [A(dt, order=o) for dt in ('i2', 'f4', 'f8') for o in ('C', 'F')]
    prox_cfgs = [P(dt, scl, mm, ctor=ct) for dt in ('i2', 'f4', 'f8') for scl in (None, (2, 1)) for mm in (True, False)
                 for ct in ('load', 'ctor')]
    odd_cfgs = [P('f8', None, True, gz=True), P('i2', (2, 1), True, gz=True), P('f4', None, False, gz=True),
                P('f8', None, True, shape=(2, 3, 1)), A('f8', shape=(2, 3, 1)), P('i2', (2, 1), False, shape=(2, 3, 1)),
                P('f8', None, True, short=True), P('i2', (2, 1), False, short=True), P('f4', None, True, gz=True, short=True),
                A('f4', shape=(3, 2)), P('f4', None, True, shape=(3, 2)), P('i2', None, True, shape=(2, 1, 2, 2))]
    kfo_cfgs = [P(dt, scl, mm, ctor=ct, kfo=True) for dt in ('i2', 'f4', 'f8') for scl in (None, (2, 1)) for mm in (True, False)
                for ct in ('load', 'ctor')] + [P('f8', None, True, gz=True, kfo=True), P('i2', (2, 1), False, gz=True, kfo=True)]
    cfgs = arr_cfgs + prox_cfgs + odd_cfgs + kfo_cfgs
    prepare_files(cfgs, chk.workdir)
    idx = {cfg_name(c): i for i, c in enumerate(cfgs)}
    assert len(idx) == len(cfgs)

    # ---- case plan: (cfg index, ops)
    plan = []
    d_all = 3 if not thorough else 4
    deep = [A('f8', order='C'), P('f8', None, True), P('i2', (2, 1), True)] if not thorough else \
        [A('f8', order='C'), A('i2', order='C'), P('f8', None, True), P('i2', (2, 1), True), P('f4', None, False, ctor='ctor')]
    d_deep = 4 if not thorough else 5
    main_cfgs = [c for c in arr_cfgs if c['order'] == 'C'] + prox_cfgs
    for c in main_cfgs:
        ci = idx[cfg_name(c)]
        for seq in itertools.product(ALPHA, repeat=d_all):
            plan.append((ci, list(seq) + EPILOGUE))
    for c in kfo_cfgs:        # persistent file handle: every history of length 3 (thorough) / a seeded third of them (quick)
        ci = idx[cfg_name(c)]
        for k, seq in enumerate(itertools.product(ALPHA, repeat=d_all if not thorough else 3)):
            if thorough or c['dt'] == 'f8' and c['scl'] is None and c['mmap'] or (k + chk.seed) % 3 == 0:
                plan.append((ci, list(seq) + EPILOGUE))
    for c in deep:
        ci = idx[cfg_name(c)]
        for seq in itertools.product(ALPHA, repeat=d_deep):
            plan.append((ci, list(seq) + EPILOGUE))
    legacy_cfgs = [A('f8', order='C'), A('i2', order='C'), P('f8', None, True), P('i2', (2, 1), False), P('f4', None, True, ctor='ctor')]
    for c in legacy_cfgs:     # the legacy get_data cache next to the get_fdata cache
        ci = idx[cfg_name(c)]
        for seq in itertools.product(ALPHA[:10] + ['gf', 'gu'], repeat=3 if not thorough else 4):
            if 'gf' in seq or 'gu' in seq:
                plan.append((ci, list(seq) + EPILOGUE))
    # a failing read (file moved away) and full-length / reversed slicers, mixed with the core operations
    new_cfgs = [A(dt, order='C') for dt in ('i2', 'f4', 'f8')] + \
        [P('f8', None, True), P('i2', (2, 1), True), P('f4', None, True), P('f8', None, False), P('i2', (2, 1), False)]
    if thorough:
        new_cfgs = main_cfgs
    base8 = ['f8', 'f4', 'u8', 'as', 'un', 'ed', 'im', 'sl']
    for c in new_cfgs:
        ci = idx[cfg_name(c)]
        for seq in itertools.product(base8 + NEW, repeat=3):
            if any(t in NEW for t in seq):
                plan.append((ci, list(seq) + EPILOGUE))
    # "any float dtype": float16 and complex64 (np.inexact) next to float32 / float64
    odd_dt = ['f2', 'fc', 'u2', 'uc']
    for c in [A('f8', order='C'), A('i2', order='C'), P('f8', None, True), P('i2', (2, 1), True), P('f4', None, False)]:
        ci = idx[cfg_name(c)]
        for seq in itertools.product(['f8', 'f4', 'un', 'ed', 'im', 'as'] + odd_dt, repeat=3):
            if any(t in odd_dt for t in seq):
                plan.append((ci, list(seq) + EPILOGUE))
    for c in odd_cfgs + [c for c in arr_cfgs if c['order'] == 'F']:
        ci = idx[cfg_name(c)]
        for seq in itertools.product(ALPHA + NEW, repeat=2):
            plan.append((ci, list(seq) + EPILOGUE))
    # compressed files are read through a persistent (indexed gzip) opener: pointing file_like elsewhere does
    # not make the next read fail, so the failing-read operations are not used on them
    plan = [(ci, ops) for ci, ops in plan
            if not ((cfgs[ci].get('gz') or cfgs[ci].get('kfo')) and any(t[0] in 'xy' for t in ops))]   # kfo: same reason
    n_exh = len(plan)
    allops = ALPHA + EXTRA
    weights = [4] * 4 + [3, 3, 3, 3, 5, 2] + [1] * 4 + [2] * 13 + [1] * (len(EXTRA) - 13)
    for _ in range(chk.n(2500, 40000)):
        ci = rng.randrange(len(cfgs))
        depth = rng.randrange(5, 31)
        ops = rng.choices(allops, weights=weights, k=depth)
        if cfgs[ci].get('gz') or cfgs[ci].get('kfo'):
            ops = ['im' if t[0] in 'xy' else t for t in ops]
        plan.append((ci, ops))
    chk.exhaustive = False
    chk.extra['exhaustive_core'] = {'depth_all_configs': d_all, 'depth_deep_configs': d_deep,
                                    'deep_configs': [cfg_name(c) for c in deep], 'sequences': n_exh,
                                    'alphabet': ALPHA, 'epilogue': EPILOGUE}

    # ---- run implementation (parallel) and model
    by_cfg = {}
    for k, (ci, ops) in enumerate(plan):
        by_cfg.setdefault(ci, []).append(k)
    jobs = []
    jobidx = []
    for ci, ks in by_cfg.items():
        for ch in chunks(ks, 1500):
            jobs.append((ci, [plan[k][1] for k in ch]))
            jobidx.append(ch)
    nproc = int(os.environ.get('VERIF_C13_PROCS', '6' if not thorough else '10'))
    res = run_impl(cfgs, jobs, chk.workdir, nproc)
    impl = [None] * len(plan)
    for ch, rs in zip(jobidx, res):
        for k, r in zip(ch, rs):
            impl[k] = r
    t2 = time.time()
    lines = [f"{k} {model_prefix(cfgs[ci])} {' '.join(model_ops(cfgs[ci], ops))}" for k, (ci, ops) in enumerate(plan)]
    mod = run_model_parallel(PROP, lines, jobs=6)

    t3 = time.time()
    chk.extra['timing_s'] = {'build_incl_lock_wait': round(t1 - t0, 1), 'implementation': round(t2 - t1, 1),
                             'model': round(t3 - t2, 1)}
    # ---- compare
    spec_bad = 0
    pv, cv, sv = [], [], []      # property violations / correspondence-only / spec-vs-concrete
    for k, (ci, ops) in enumerate(plan):
        c = cfgs[ci]
        itrace, pred = impl[k]
        mtrace, spec = canon_model(mod.get(str(k), '<missing>'), c)
        n_arr = itrace.count(' A') + itrace.startswith('A')
        key = (ci, tuple(ops)) if n_arr else None
        chk.count(key=key, tag='exhaustive' if k < n_exh else 'random',
                  sample={'config': cfg_name(c), 'ops': ' '.join(ops), 'trace': itrace[:300]} if k in (7, n_exh // 2, n_exh + 3) else None)
        chk.tagc('cfg:' + ('array' if c['kind'] == 'A' else 'proxy-' + ('scaled' if c['scl'] else 'unscaled') +
                           ('-mmap' if c['mmap'] else '-nommap')))
        for t in itrace.split(' | ')[0].split():
            if t.startswith('R:'):
                chk.refusal(t[2:])
        case = {'config': c, 'ops': ops}
        if spec != 'ok':
            spec_bad += 1
            chk.disagreements += 1
            sv.append((case, mod.get(str(k)), spec))
        if itrace.startswith('HARNESS-ERROR'):
            chk.violation('harness_error', case=case, predicate=itrace, found_input=False)
            continue
        if pred is not None and not known_signature(c, ops, pred):
            pv.append((case, itrace, mtrace, pred))
        if itrace != mtrace:
            chk.disagreements += 1
            if pred is None:
                cv.append((case, itrace, mtrace))
    pv.sort(key=lambda v: len(v[0]['ops']))      # shortest failing sequences first
    cv.sort(key=lambda v: len(v[0]['ops']))
    for case, itrace, mtrace, pred in pv[:5]:
        chk.violation('property_violation', case=case, impl_output=itrace, model_output=mtrace, predicate=pred)
    for case, itrace, mtrace in cv[:max(1, 5 - len(pv))] if cv else []:
        chk.violation('correspondence', case=case, model_output=mtrace, impl_output=itrace,
                      predicate='model and implementation traces differ; the direct property predicate '
                      'holds on this case', found_input=False,
                      theorem='correspondence C13/Model.v <-> nibabel/dataobj_images.py, arrayproxy.py')
    for case, line, spec in sv[:2]:
        chk.violation('correspondence', case=case, model_output=line, predicate='the extracted abstract '
                      'specification (sstep o abs) and the extracted concrete model (cstep) disagree: ' + spec,
                      found_input=False, theorem='C13_refines_doc_model (runtime cross-check)')
    suppressed = max(0, len(pv) - 5) + max(0, len(cv) - max(1, 5 - len(pv))) + max(0, len(sv) - 2)
    chk.extra['property_violations_found'] = len(pv)
    chk.extra['correspondence_only_disagreements'] = len(cv)
    chk.extra['spec_runtime_disagreements'] = spec_bad
    chk.extra['violation_reports_suppressed_after_first_5'] = suppressed
    chk.extra['unproved_statements'] = []

    # ---- cross-check extraction against evaluation inside Coq on a small fixed sample
    pairs = vm_pairs(cfgs, plan, mod, n_exh)
    imports = ('From Coq Require Import ZArith List Bool. Import ListNotations. Open Scope Z_scope.\n'
               'From NV Require Import C13.Model C13.VmCheck.\n')
    ncase, bad = vm_crosscheck(PROP, imports, pairs)
    chk.vm = {'cases': ncase, 'disagreements': len(bad)}
    if bad:
        chk.disagreements += 1
        chk.violation('correspondence', case={'vm_crosscheck': [pairs[b][1] if isinstance(b, int) and b < len(pairs) else b for b in bad]},
                      predicate='extracted model disagrees with vm_compute evaluation of the model',
                      found_input=False, theorem='extraction cross-check')


# --------------------------------------------------------------------------- vm cross-check
def coq_op(tok):
    p = tok.split(':')
    k = p[0]
    simple = {'f8': 'GetFdata Fill F8', 'f4': 'GetFdata Fill F4', 'fi': 'GetFdata Fill I2', 'u8': 'GetFdata Unchanged F8',
              'u4': 'GetFdata Unchanged F4', 'ui': 'GetFdata Unchanged I2', 'as': 'AsArray', 'sl': 'Slice SLast1',
              'sf': 'Slice SFull', 'un': 'Uncache', 'ed': 'EditLast', 'im': 'InMemory', 'gf': 'GetData Fill', 'gu': 'GetData Unchanged',
              'rh': 'ReadHdr', 'rs': 'ReadSpec', 'x8': 'FdataBroken Fill F8', 'x4': 'FdataBroken Fill F4',
              'y8': 'FdataBroken Unchanged F8', 'y4': 'FdataBroken Unchanged F4', 'sb': 'Slice SFull',
              'f2': 'GetFdata Fill F2', 'fc': 'GetFdata Fill C8', 'u2': 'GetFdata Unchanged F2', 'uc': 'GetFdata Unchanged C8'}
    if k in simple:
        return simple[k]
    if k == 'r':
        return 'Slice (SRev [' + ';'.join('true' if ch == '1' else 'false' for ch in p[1]) + '])'
    pre = 'Hdr' if k[0] == 'h' else 'Orig'
    if k[1] == 's':
        return f'{pre}Scl None' if p[1] == '-' else f'{pre}Scl (Some ({p[1]}, {p[2]}))'
    if k[1] == 'h':
        return f"{pre}Shape [{';'.join(x + '%nat' for x in p[1].split('.'))}]"
    return f'{pre}Dt {p[1].upper()}'


def coq_init(c):
    n = int(np.prod(c['shape']))
    sh = '[' + ';'.join(f'{x}%nat' for x in c['shape']) + ']'
    if c['kind'] == 'A':
        vals = '[' + ';'.join(str(i) for i in range(1, n + 1)) + ']'
        return f"init_array {vals} {sh} {c['dt'].upper()} (mkHdr [9%nat;9%nat] F4 352 (Some (4,4))) {'true' if get_data_expired() else 'false'}"
    nv = n - 1 if c['short'] else n
    vals = '[' + ';'.join(str(i) for i in range(1, nv + 1)) + ']'
    s, i = c['scl'] if c['scl'] else (1, 0)
    return (f"init_proxy (mkFile {'true' if c['gz'] else 'false'} {vals}) (mkHdr {sh} {c['dt'].upper()} 352 (Some ({s},{i}))) "
            f"{'true' if c['mmap'] else 'false'} {'true' if get_data_expired() else 'false'}")


def coq_out_tokens(line):
    """Model output line -> Coq list of `tok` (see C13/VmCheck.v)."""
    body = line[2:].split('|')[0].split()
    out = []
    for t in body:
        if t == '-':
            out.append('TNone')
        elif t[0] == 'A':
            i, sh, dt, fl, vals = t[1:].split(':')
            out.append(f"TArr {i}%nat [{';'.join(x + '%nat' for x in sh.split('.') if x)}] {dt.upper()} "
                       f"{'true' if fl[0] == '1' else 'false'} {'true' if fl[1] == '1' else 'false'} "
                       f"[{';'.join(vals.split(',')) if vals else ''}]")
        elif t[0] == 'B':
            out.append('TBool ' + ('true' if t[1] == '1' else 'false'))
        elif t[0] == 'R':
            out.append('TRef E' + {'not_float': 'NotFloat', 'expired': 'Expired', 'read_only': 'ReadOnly',
                                   'index': 'Index', 'short_file': 'ShortFile', 'unreadable': 'Unreadable'}[t[2:]])
        else:
            out.append('TOther')
    return '[' + '; '.join(out) + ']'


def vm_pairs(cfgs, plan, mod, n_exh):
    pairs = []
    picks = list(range(0, n_exh, max(1, n_exh // 40)))[:40] + list(range(n_exh, min(len(plan), n_exh + 40)))
    for k in picks:
        ci, ops = plan[k]
        line = mod.get(str(k), '')
        if not line.startswith('ok'):
            continue
        ops_c = '[' + '; '.join(coq_op(t) for t in model_ops(cfgs[ci], ops)) + ']'
        pairs.append((f'check_case ({coq_init(cfgs[ci])}) {ops_c} {coq_out_tokens(line)}', f'case {k}'))
    return pairs[:100]


def replay(chk, obj):
    ensure_impl_path()
    case = obj.get('case')
    if isinstance(case, dict) and 'header_class' in case:
        before = len(chk.violations)
        header_class_sweep(chk)                 # deterministic: stops at the first failing case
        bad = len(chk.violations) > before
        print('header-class sweep:', 'the property fails (see the new replay file)' if bad else 'holds on every case')
        import shutil
        shutil.rmtree(chk.workdir, ignore_errors=True)
        return 1 if bad else 0
    if not isinstance(case, dict) or 'ops' not in case:
        print('nothing to replay:', obj.get('predicate'))
        return 1
    c = case['config']
    c['shape'] = tuple(c['shape'])
    if c.get('scl'):
        c['scl'] = tuple(c['scl'])
    prepare_files([c], chk.workdir)
    with warnings.catch_warnings():
        warnings.simplefilter('ignore')
        itrace, pred = impl_trace(c, case['ops'], chk.workdir)
    chk.build()
    mod = run_model(PROP, [f"0 {model_prefix(c)} {' '.join(model_ops(c, case['ops']))}"])
    mtrace, spec = canon_model(mod.get('0', '<missing>'), c)
    print('config :', cfg_name(c))
    print('ops    :', ' '.join(case['ops']))
    print('impl   :', itrace)
    print('model  :', mtrace)
    print('predicate:', pred or 'holds')
    import shutil
    shutil.rmtree(chk.workdir, ignore_errors=True)
    bad = pred is not None or itrace != mtrace
    print('property/correspondence fails on this case' if bad else 'holds on this case')
    return 1 if bad else 0
