"""Regenerate /verif/MANIFEST.json from harness/meta/Cxx.json (one file per claimed property)
and harness/meta/not_applicable.json."""
import json
import os

V = os.path.dirname(os.path.dirname(os.path.abspath(__file__)))
meta = os.path.join(V, 'harness', 'meta')
checks = []
for f in sorted(os.listdir(meta)):
    if not (f.startswith('C') and f.endswith('.json')):
        continue
    m = json.load(open(os.path.join(meta, f)))
    pid = m['property_id']
    checks.append({
        'property_id': pid,
        'quick_cmd': f'./check {pid} --tier quick',
        'thorough_cmd': f'./check {pid} --tier thorough',
        'evidence_file': f'/verif/evidence/{pid}.json',
        'replay_cmd_template': f'./check {pid} --replay {{path}}',
        'engine': 'coq-model+correspondence',
        'level_claimed': {'category': 'proof', 'text': m['level_text'], 'design_ref': m.get('design_ref', 'DESIGN.md section 5')},
        'level_note': m['level_note'],
        'technique': m['technique'],
    })
na_p = os.path.join(meta, 'not_applicable.json')
na = json.load(open(na_p)) if os.path.exists(na_p) else []
claimed = {c['property_id'] for c in checks}
na = [x for x in na if x['property_id'] not in claimed]
hooks_p = os.path.join(meta, 'hooks.json')
hooks = json.load(open(hooks_p))
man = {
    'version': 1,
    'setup_cmd': 'make -C /verif setup',
    'hooks': hooks,
    'engines': [{'name': 'coq-model+correspondence', 'path': '/verif/check',
                 'serves_properties': sorted(claimed),
                 'kind_free_text': 'Coq 8.16 theorems over hand-written Gallina models (coq/Cxx/{Model,Lemmas,Props}.v); models extracted to OCaml (bin/modelrun_cxx) and run against /repo on generated cases by harness/cxx.py on every check; tables regenerated from /repo into coq/Gen/Tables.v'}],
    'checks': checks,
    'not_applicable': na,
    'notes': 'See DESIGN.md. known_findings.json lists recorded findings and fixed defects.',
}
json.dump(man, open(os.path.join(V, 'MANIFEST.json'), 'w'), indent=1)
print('MANIFEST.json:', len(checks), 'checks,', len(na), 'not_applicable')
