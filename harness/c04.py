"""C04 — the voxel-to-world affine survives save/load to the format's precision.

Model: coq/C04/Model.v (decision + codec + exact-rational parts, extracted),
coq/C04/ModelR.v (ideal arithmetic over Coq R, not extracted).  Theorems: coq/C04/Props.v.

Case lines sent to bin/modelrun_c04 (see coq/C04/driver.ml).  Values are float64 bit patterns
(unsigned decimal), header float fields are bit patterns of the field width, rationals "n/d":
  best <sc> <qc> | code <old> <code|-> <has_aff>
  nifti <be> <ver> <hashdr> <sc> <qc> <srow12> <p0> <pix3> <quat3> <qoff3> <hdims> <shape> <c1> <c2>
        <A12> <tab> <detpos> <zooms3> <bcd3>
  analyze <hashdr> <pix3> <hdims> <shape> <c1> <c2> <A12> <tab> <zooms3>
  rblocks <be> <ver> <abhex> <pbhex> | szaff <shape> <zooms> <flip>
  spmorigin <flip> <dims3> <zooms> <origin3> | spmw <flip> <A12> | spmr <flip> <empty> <has_mat> <has_M> <M> <mat>
  allclose <rtol> <atol> <a> <b>
Compared with the implementation at API boundaries: header codes and the bytes of the
qform_code..srow_z block and of pixdim[0:4] in the saved header file, the source and bits of
the loaded affine, set_sform/set_qform code resolution (KeyError), get_best_affine priority,
shape_zoom_affine / get_origin_affine values (exact rationals), the M / mat arrays of the SPM
.mat file and which of them is used on load, np.allclose.
The numeric parts (qform read-back, MGH, SPM .mat floats) are checked by the direct predicate
with the per-column tolerances stated in TOL below (ideal-arithmetic treatment).
"""
import inspect
import io
import itertools
import math
import os
import random
import warnings
from fractions import Fraction

import numpy as np

from common import COQ, Check, ensure_impl_path, run_model, vm_crosscheck

PROP = 'C04'
EPS32 = float(np.finfo(np.float32).eps)
EPS64 = float(np.finfo(np.float64).eps)

# ----------------------------------------------------------------------------- tolerances
TOL = {
    # qform read-back, column j of the rotation/zoom part: |Q_ij - A_ij| <= QF_STRICT * eps * zoom_j
    # (eps = eps32 for NIfTI-1, eps64 for NIfTI-2); translation: 1 ulp of the stored type
    'QF_STRICT': 64.0,
    # what the (b,c,d)-only quaternion storage can deliver near 180 degrees (finding S-C04c):
    # QF_RELAX * eps * zoom_j * (1 + 1 / max(|w|, sqrt(3 eps)))
    'QF_RELAX': 32.0,
    # MGH: column j within MGH * eps32 * norm_j; translation within MGH * eps32 * (|c_ras| scale)
    'MGH': 4.0,
    # SPM .mat (finding S-C04b): rotation part exact, translation within SPM_ULP ulps of
    # max(|t_i|, sum_j |m_ij|)
    'SPM_ULP': 4.0,
}

MEASURED = {}   # worst observed deviations, copied into the evidence


def measure(key, val):
    v = float(val)
    if v > MEASURED.get(key, 0.0):
        MEASURED[key] = float('%.4g' % v)


CLSNAMES = ['n1', 'n1p', 'n2', 'n2p', 'ana', 'spm99', 'spm2', 'mgh']


def classes():
    import nibabel as nib
    from nibabel.freesurfer import MGHImage
    return {'n1': nib.Nifti1Image, 'n1p': nib.Nifti1Pair, 'n2': nib.Nifti2Image, 'n2p': nib.Nifti2Pair,
            'ana': nib.AnalyzeImage, 'spm99': nib.Spm99AnalyzeImage, 'spm2': nib.Spm2AnalyzeImage,
            'mgh': MGHImage}


# ----------------------------------------------------------------------------- tables
def gen_tables():
    """Rewrite coq/C04/Tables.v from the imported objects (fail-closed)."""
    ensure_impl_path()
    import nibabel as nib
    from nibabel.nifti1 import xform_codes
    codes = sorted(int(c) for c in xform_codes.value_set('code'))
    if not all(isinstance(c, int) and 0 <= c < 2 ** 15 for c in codes):
        raise ValueError(f'unexpected xform codes {codes}')
    aligned = int(xform_codes['aligned'])
    unknown = int(xform_codes['unknown'])
    widths = {}
    for nm, H in (('n1', nib.Nifti1Header), ('n2', nib.Nifti2Header)):
        dt = H.template_dtype
        order = ['qform_code', 'sform_code', 'quatern_b', 'quatern_c', 'quatern_d', 'qoffset_x', 'qoffset_y',
                 'qoffset_z', 'srow_x', 'srow_y', 'srow_z']
        off = dt.fields['qform_code'][1]
        cw = dt.fields['qform_code'][0].itemsize
        fw = dt.fields['quatern_b'][0].itemsize
        for f in order:
            fdt, foff = dt.fields[f][:2]
            if foff != off:
                raise ValueError(f'{nm}: field {f} at {foff}, expected {off}: affine block not contiguous')
            if f.endswith('_code'):
                if fdt.kind != 'i' or fdt.itemsize != cw:
                    raise ValueError(f'{nm}: {f} is {fdt}')
                off += cw
            elif f.startswith('srow'):
                if fdt.base.kind != 'f' or fdt.base.itemsize != fw or fdt.shape != (4,):
                    raise ValueError(f'{nm}: {f} is {fdt}')
                off += 4 * fw
            else:
                if fdt.kind != 'f' or fdt.itemsize != fw:
                    raise ValueError(f'{nm}: {f} is {fdt}')
                off += fw
        pdt = dt.fields['pixdim'][0]
        if pdt.base.kind != 'f' or pdt.base.itemsize != fw or pdt.shape != (8,):
            raise ValueError(f'{nm}: pixdim is {pdt}')
        widths[nm] = (cw, fw)
    flips = {}
    for nm, H in (('analyze', nib.AnalyzeHeader), ('spm99', nib.Spm99AnalyzeHeader), ('spm2', nib.Spm2AnalyzeHeader),
                  ('nifti1', nib.Nifti1Header), ('nifti2', nib.Nifti2Header)):
        v = H.default_x_flip
        if not isinstance(v, bool):
            raise ValueError(f'default_x_flip of {nm} is {v!r}')
        flips[nm] = v
    b = lambda v: 'true' if v else 'false'
    txt = f"""(* C04/Tables.v — GENERATED by harness/c04.py:gen_tables from the imported /repo objects
   (nibabel.nifti1.xform_codes, Nifti1Header/Nifti2Header.template_dtype, default_x_flip of
   the header classes).  Do not edit by hand. *)
From Coq Require Import ZArith List Bool.
Import ListNotations.
Open Scope Z_scope.

Definition xform_code_values : list Z := [{';'.join(str(c) for c in codes)}].
Definition aligned_code : Z := {aligned}.
Definition unknown_code : Z := {unknown}.
(* widths (bytes) of the code fields and of the float fields of the contiguous block
   qform_code, sform_code, quatern_b..d, qoffset_x..z, srow_x..z; pixdim has the float width *)
Definition n1_cw : nat := {widths['n1'][0]}.
Definition n1_fw : nat := {widths['n1'][1]}.
Definition n2_cw : nat := {widths['n2'][0]}.
Definition n2_fw : nat := {widths['n2'][1]}.
Definition x_flip_analyze : bool := {b(flips['analyze'])}.
Definition x_flip_spm99 : bool := {b(flips['spm99'])}.
Definition x_flip_spm2 : bool := {b(flips['spm2'])}.
Definition x_flip_nifti1 : bool := {b(flips['nifti1'])}.
Definition x_flip_nifti2 : bool := {b(flips['nifti2'])}.
"""
    p = os.path.join(COQ, 'C04', 'Tables.v')
    old = open(p).read() if os.path.exists(p) else None
    if old != txt:
        with open(p, 'w') as f:
            f.write(txt)


# ----------------------------------------------------------------------------- small helpers
def f64bits(x):
    return int(np.float64(x).view(np.uint64))


def fieldbits(x, ver):
    """Bit pattern NumPy stores for float64 x in a header float field (float32 cast for ver 1)."""
    if ver == 1:
        with np.errstate(over='ignore'):
            return int(np.float32(np.float64(x)).view(np.uint32))
    return f64bits(x)


def fieldvalue(bits, ver):
    if ver == 1:
        return float(np.uint32(bits).view(np.float32))
    return float(np.uint64(bits).view(np.float64))


def zl(l):
    return '[' + ','.join(str(int(x)) for x in l) + ']'


def fr(x):
    f = Fraction(float(x))
    return f'{f.numerator}/{f.denominator}'


def ql(l):
    return '[' + ','.join(fr(x) for x in l) + ']'


def parse_ql(s):
    s = s.strip()[1:-1]
    if not s:
        return []
    return [Fraction(int(t.split('/')[0]), int(t.split('/')[1])) for t in s.split(',')]


def hx(b):
    return 'x' + bytes(b).hex()


def my_allclose(a, b, rtol, atol):
    """np.isclose's formula on finite values, written out (the `close` oracle of the model)."""
    a = np.asarray(a, dtype=np.float64)
    b = np.asarray(b, dtype=np.float64)
    return bool(np.all(np.abs(a - b) <= atol + rtol * np.abs(b)))


def col_norms(A):
    return [math.sqrt(A[0, j] * A[0, j] + A[1, j] * A[1, j] + A[2, j] * A[2, j]) for j in range(3)]


def det_sign_exact(A):
    m = [[Fraction(float(A[i, j])) for j in range(3)] for i in range(3)]
    d = (m[0][0] * (m[1][1] * m[2][2] - m[1][2] * m[2][1]) - m[0][1] * (m[1][0] * m[2][2] - m[1][2] * m[2][0])
         + m[0][2] * (m[1][0] * m[2][1] - m[1][1] * m[2][0]))
    return (d > 0) - (d < 0)


def q2m(q):
    """Rotation matrix of a (not necessarily unit) quaternion, float64, independent of nibabel."""
    w, x, y, z = q
    n = w * w + x * x + y * y + z * z
    s = 2.0 / n
    return np.array([[1 - s * (y * y + z * z), s * (x * y - w * z), s * (x * z + w * y)],
                     [s * (x * y + w * z), 1 - s * (x * x + z * z), s * (y * z - w * x)],
                     [s * (x * z - w * y), s * (y * z + w * x), 1 - s * (x * x + y * y)]])


def szaff_py(shape, zooms, flip):
    s = (list(shape) + [1, 1, 1])[:3] if len(shape) < 3 else list(shape[:3])
    z = (list(zooms) + [1.0, 1.0, 1.0])[:3] if len(zooms) < 3 else list(zooms[:3])
    if flip:
        z[0] = -z[0]
    a = np.eye(4)
    for i in range(3):
        a[i, i] = z[i]
        a[i, 3] = -((s[i] - 1) / 2.0) * z[i]
    return a


# ----------------------------------------------------------------------------- affine generators
def signed_perms():
    out = []
    for p in itertools.permutations(range(3)):
        for sg in itertools.product([1, -1], repeat=3):
            m = np.zeros((3, 3))
            for i in range(3):
                m[i, p[i]] = sg[i]
            out.append(m)
    return out


DIAG_AXES = [(1, 1, 0), (1, 0, 1), (0, 1, 1), (1, 1, 1), (1, -1, 0), (1, 0, -1), (0, 1, -1), (1, -1, 1), (-1, 1, 1),
             (1, 1, -1)]


def make_affine(rot, zooms, refl, t):
    A = np.eye(4)
    A[:3, :3] = rot @ np.diag(zooms) @ np.diag([1.0, 1.0, float(refl)])
    A[:3, 3] = t
    return A


def rand_quat(rng):
    while True:
        q = np.array([rng.gauss(0, 1) for _ in range(4)])
        n = float(np.linalg.norm(q))
        if n > 1e-3:
            return q / n


def rand_zooms(rng, wide):
    if wide and wide is not True:
        return [10.0 ** rng.uniform(-wide, wide) for _ in range(3)]
    if wide:
        return [10.0 ** rng.uniform(-6, 6) for _ in range(3)]
    return [rng.uniform(0.3, 4.0) for _ in range(3)]


def rand_trans(rng, big):
    e = rng.choice([3, 4, 5, 6]) if big else rng.choice([0, 1, 2])
    return [rng.gauss(0, 1) * 10.0 ** e for _ in range(3)]


def core_affines():
    """Seed-independent exhaustive core: every proper signed permutation (all 90/180 degree
    rotations about the coordinate axes and their products) and exact 180 degree rotations
    about the diagonals, with reflection or not, with ordinary and extreme zooms."""
    out = []
    zsets = [[1.0, 1.0, 1.0], [2.0, 3.0, 4.0], [1e-6, 1.0, 1e6], [0.4296875, 0.4296875, 5.5]]
    k = 0
    for m in signed_perms():
        if round(float(np.linalg.det(m))) != 1:
            continue
        for refl in (1, -1):
            z = zsets[k % len(zsets)]
            t = [[0.0, 0.0, 0.0], [-90.0, 126.5, -72.25], [1e5 + 0.5, -2.5e6, 3.0]][k % 3]
            k += 1
            tr = float(np.trace(m))
            w = math.sqrt(max(0.0, 1.0 + tr)) / 2.0
            out.append(dict(kind='perm', A=make_affine(m, z, refl, t), rot=True, w=w, refl=refl, axis_aligned=True))
    for v in DIAG_AXES:
        v = np.array(v, dtype=float)
        v /= np.linalg.norm(v)
        m = 2.0 * np.outer(v, v) - np.eye(3)
        for refl in (1, -1):
            z = zsets[k % len(zsets)]
            k += 1
            out.append(dict(kind='diag180', A=make_affine(m, z, refl, [10.0, -20.0, 30.0]), rot=True, w=0.0,
                            refl=refl, axis_aligned=False))
    return out


def random_affine(rng, kind):
    if kind == 'general':
        while True:
            m = np.array([[rng.gauss(0, 1) for _ in range(3)] for _ in range(3)])
            if np.linalg.cond(m) < 200:
                break
        m = m @ np.diag(rand_zooms(rng, rng.random() < 0.2))
        A = np.eye(4)
        A[:3, :3] = m
        A[:3, 3] = rand_trans(rng, rng.random() < 0.3)
        return dict(kind=kind, A=A, rot=False, w=None, refl=None, axis_aligned=False)
    refl = -1 if kind == 'reflect' or (kind in ('near180', 'rand180', 'extreme', 'zoom32', 'zoom64')
                                       and rng.random() < 0.5) else 1
    wide = {'extreme': True, 'zoom32': 30, 'zoom64': 150}.get(kind, False)
    if kind == 'near180':
        w = 10.0 ** rng.uniform(-9, -0.3)
        v = np.array([rng.gauss(0, 1) for _ in range(3)])
        v /= np.linalg.norm(v)
        q = np.r_[w, v * math.sqrt(1 - w * w)]
    elif kind == 'rand180':
        v = np.array([rng.gauss(0, 1) for _ in range(3)])
        v /= np.linalg.norm(v)
        q = None
        m = 2.0 * np.outer(v, v) - np.eye(3)
        w = 0.0
    else:
        q = rand_quat(rng)
    if q is not None:
        m = q2m(q)
        w = abs(float(q[0])) / float(np.linalg.norm(q))
    A = make_affine(m, rand_zooms(rng, wide), refl, rand_trans(rng, wide is True or rng.random() < 0.2))
    out = dict(kind=kind, A=A, rot=True, w=w, refl=refl, axis_aligned=False)
    if kind == 'zoom64':
        out['vers'] = [2]       # voxel sizes outside the float32 range: float64 headers only
    return out


def huge_affines(rng, n):
    """Voxel sizes 1e-150 .. 1e150 (float64 formats only): seed-independent core whose zoom products
    underflow / overflow float64 (and float32), all tiny, all huge, mixed; plus a random tail."""
    out = []
    quats = [(0.5, 0.5, 0.5, 0.5), (0.8, 0.0, 0.6, 0.0), (0.6, -0.48, 0.0, 0.64), (0.36, 0.48, -0.8, 0.0)]
    zsets = [(1e-108, 3e-109, 2e-108), (1e-150, 1e-150, 1e-150), (7e-120, 1e-100, 3e-115), (1e110, 2e105, 3e120),
             (1e150, 1e150, 1e150), (1e-150, 1.0, 1e150), (1e150, 1e-150, 1e-20), (1e-40, 1e-45, 1e-50),
             (1e40, 1e45, 1e50)]
    k = 0
    for z in zsets:
        for refl in (1, -1):
            q = np.array(quats[k % len(quats)])
            k += 1
            A = make_affine(q2m(q), list(z), refl, [10.0, -20.0, 30.0])
            out.append(dict(kind='zoom64', A=A, rot=True, w=abs(float(q[0])) / float(np.linalg.norm(q)), refl=refl,
                            axis_aligned=False, vers=[2]))
    for _ in range(n):
        out.append(random_affine(rng, 'zoom64'))
    return out


KINDS = ['general', 'rigid_zoom', 'reflect', 'near180', 'rand180', 'extreme', 'zoom32']


# ----------------------------------------------------------------------------- implementation runners
def save_load(K, img, via_files=None):
    """to_file_map / from_file_map through BytesIO (or real files under via_files)."""
    from nibabel.fileholders import FileHolder
    import nibabel as nib
    if via_files:
        ext = {'mgh': '.mgz'}.get(via_files[1], '.nii' if via_files[1] in ('n1', 'n2') else '.img')
        path = os.path.join(via_files[0], 'c04_' + via_files[1] + ext)
        with warnings.catch_warnings():
            warnings.simplefilter('ignore')
            nib.save(img, path)
            out = K.from_filename(path)
            raw = {}
            for k, fh in out.file_map.items():
                try:
                    raw[k] = open(fh.filename, 'rb').read()
                except OSError:
                    raw[k] = b''
            if via_files[1] == 'mgh':
                import gzip
                raw = {k: gzip.decompress(v) for k, v in raw.items()}
        return out, raw
    fm = {k: FileHolder(fileobj=io.BytesIO()) for k in img.file_map}
    with warnings.catch_warnings():
        warnings.simplefilter('ignore')
        img.to_file_map(fm)
        raw = {k: v.fileobj.getvalue() for k, v in fm.items()}
        fm2 = {k: FileHolder(fileobj=io.BytesIO(v)) for k, v in raw.items()}
        out = K.from_file_map(fm2)
    return out, raw


def nifti_hdr_state(hdr, ver):
    fdt = np.float32 if ver == 1 else np.float64
    udt = np.uint32 if ver == 1 else np.uint64

    def bits(v):
        return [int(x) for x in np.atleast_1d(np.asarray(v)).astype(fdt).view(udt)]
    return dict(sc=int(hdr['sform_code']), qc=int(hdr['qform_code']),
                srow=bits(hdr['srow_x']) + bits(hdr['srow_y']) + bits(hdr['srow_z']),
                p0=bits(hdr['pixdim'][0])[0], pix=bits(hdr['pixdim'][1:4]),
                quat=bits([hdr['quatern_b'], hdr['quatern_c'], hdr['quatern_d']]),
                qoff=bits([hdr['qoffset_x'], hdr['qoffset_y'], hdr['qoffset_z']]),
                dims=[int(x) for x in hdr.get_data_shape()])


def block_offsets(H):
    dt = H.template_dtype
    fw = dt.fields['quatern_b'][0].itemsize
    a0 = dt.fields['qform_code'][1]
    a1 = dt.fields['srow_z'][1] + 4 * fw
    p0 = dt.fields['pixdim'][1]
    return a0, a1, p0, p0 + 4 * fw


def kernel_oracle(A):
    """Outputs of the numeric kernel of set_qform for A (column norms by the written-out formula;
    b,c,d from nibabel's own polar+eigh pipeline evaluated in a float64 header = unrounded)."""
    import nibabel as nib
    h2 = nib.Nifti2Header()
    with warnings.catch_warnings():
        warnings.simplefilter('ignore')
        h2.set_qform(A, 1)
    return dict(zooms=col_norms(A), bcd=[float(h2['quatern_b']), float(h2['quatern_c']), float(h2['quatern_d'])],
                detpos=det_sign_exact(A) > 0)


def mk_tab(vals, ver):
    out = []
    for v in vals:
        out += [f64bits(v), fieldbits(v, ver)]
    return zl(out)


# ----------------------------------------------------------------------------- case lists
def nifti_scenarios(chk, affs_core, affs_rand):
    """(aff, cls, hdrspec) triples.  hdrspec None = no header; else dict(sc, qc, bkind, be)."""
    rng = chk.rng
    out = []
    # seed-independent core: 3 fixed affines x all 36 code pairs x 3 kinds of header affine x 4 classes
    fixed = [affs_core[5], affs_core[18], dict(kind='general', A=np.array(
        [[2.0, 0.25, -0.5, -90.0], [0.125, -3.0, 0.75, 126.0], [0.5, 0.25, 4.0, -72.0], [0, 0, 0, 1.0]]),
        rot=False, w=None, refl=None, axis_aligned=False)]
    k = 0
    for sc in range(6):
        for qc in range(6):
            for bkind in ('same', 'close', 'far', 'flipfar'):
                for cls in ('n1', 'n1p', 'n2', 'n2p'):
                    out.append((fixed[k % 3], cls, dict(sc=sc, qc=qc, bkind=bkind, be=(k % 4 == 3))))
                    k += 1
    for a in affs_core:
        for cls in ('n1', 'n1p', 'n2', 'n2p'):
            out.append((a, cls, None))
    # image affine equal / close to the shape-zoom fallback of the header: the shortcut fires against the
    # fallback (no header: __init__ must still force the s/q forms)
    for shp, z in (((2, 3, 4), (1.0, 1.0, 1.0)), ((3, 5, 2), (1.0, 1.0, 1.0))):
        fa = dict(kind='fallback', A=szaff_py(shp, z, True), rot=False, w=None, refl=None, axis_aligned=True)
        for cls in ('n1', 'n1p', 'n2', 'n2p'):
            out.append((fa, cls, None, list(shp)))
            out.append((fa, cls, dict(sc=0, qc=0, bkind='same', be=False), list(shp)))
            out.append((fa, cls, dict(sc=0, qc=0, bkind='close', be=True), list(shp)))
    for a in affs_rand:
        for cls in ('n1', 'n1p', 'n2', 'n2p'):
            r = rng.random()
            if r < 0.45:
                spec = None
            else:
                spec = dict(sc=rng.randrange(6), qc=rng.randrange(6), bkind=rng.choice(['same', 'close', 'close2', 'far', 'flipfar']),
                            be=rng.random() < 0.3)
            out.append((a, cls, spec))
    return out


def perturb(A, bkind, rng_unused=None):
    """Header affine B relative to the image affine A."""
    B = A.copy()
    if bkind == 'same':
        return B
    if bkind == 'close':      # well inside allclose(rtol=1e-5): relative 2e-6 on every entry
        B[:3, :] = A[:3, :] * (1.0 + 2e-6)
        return B
    if bkind == 'close2':     # translation only, 4e-6 relative
        B[:3, 3] = A[:3, 3] * (1.0 - 4e-6) + 1e-9
        return B
    if bkind == 'flipfar':    # far, and with the determinant of the other sign (stale qfac)
        B[:3, :3] = (A[:3, :3] @ np.diag([1.0, 1.0, -1.0])) * 1.5
        B[:3, 3] = A[:3, 3] + 7.0
        return B
    B[:3, :3] = A[:3, :3] * 1.5
    B[:3, 3] = A[:3, 3] + 7.0
    return B


# ----------------------------------------------------------------------------- own evaluation of header transforms
def qform_py(qfac, zooms, bcd, off, eps):
    """get_qform re-implemented in float64 from raw fields (used only to tell WHICH transform the
    loaded affine is, at 1e-5 resolution)."""
    b, c, d = bcd
    w2 = 1.0 - (b * b + c * c + d * d)
    w = 0.0 if abs(w2) < 3 * eps else math.sqrt(max(w2, 0.0))
    R = q2m((w, b, c, d))
    z = [zooms[0], zooms[1], zooms[2] * qfac]
    out = np.eye(4)
    out[:3, :3] = R @ np.diag(z)
    out[:3, 3] = off
    return out


def roundtrip_exact(A, ver):
    E = np.eye(4)
    if ver == 1:
        with np.errstate(over='ignore'):
            E[:3, :] = A[:3, :].astype(np.float32).astype(np.float64)
    else:
        E[:3, :] = A[:3, :]
    return E


def same_bits(a, b):
    a = np.ascontiguousarray(a, dtype=np.float64)
    b = np.ascontiguousarray(b, dtype=np.float64)
    return a.shape == b.shape and bool(np.all((a == b) | ((a == 0) & (b == 0))))


def qform_check(Q, a, eps, ulp_t):
    """Classify a qform read-back Q of the rotation+zoom(+reflection) affine a['A'].
    Returns ('ok'|'relaxed'|'bad', worst_ratio)."""
    A = a['A']
    z = np.array(col_norms(A))
    err = np.abs(Q[:3, :3] - A[:3, :3]).max(axis=0) / z
    terr = np.abs(Q[:3, 3] - A[:3, 3])
    tt = ulp_t * np.maximum(np.abs(A[:3, 3]), 1e-300)
    t_ok = bool(np.all(terr <= tt)) and same_bits(Q[3], [0, 0, 0, 1])
    worst = float(err.max() / eps)
    w_ = abs(a['w']) if a['w'] is not None else 1.0
    measure('qform_err_over_eps_%s_%s' % ('f32' if eps == EPS32 else 'f64', 'w>=0.5' if w_ >= 0.5 else 'w<0.5'), worst)
    if not t_ok:
        return 'bad', worst
    if worst <= TOL['QF_STRICT']:
        return 'ok', worst
    w = abs(a['w']) if a['w'] is not None else 1.0
    relaxed = TOL['QF_RELAX'] * (1.0 + 1.0 / max(w, math.sqrt(3 * eps)))
    if worst <= relaxed and w < 0.5:
        return 'relaxed', worst
    return 'bad', worst


def near180_known(ver, w, axis_aligned, raised):
    """Known-finding id for a qform read-back that exceeds the strict tolerance but is within the
    relaxed bound; None = a violation.  An exception, or an exact 180 degree rotation (w == 0)
    beyond the strict tolerance, is always a violation (S-C04d was repaired in /repo c5ca499a; its
    return is also guarded by the probe S_C04d)."""
    w = abs(w) if w is not None else 1.0
    if raised:
        return None
    return 'S-C04c' if w > 0 else None


KNOWN_TXT = {
    'S-C04a': 'image given a header whose best affine is np.allclose to, but not equal to, the image affine: '
              'update_header keeps the header transform and the saved/reloaded affine is the header\'s, not the image\'s',
    'S-C04b': 'SPM99/SPM2 .mat round trip: translation differs from the saved affine by <= 4 ulp '
              '((t - M.1) + M.1 in float64), rotation part exact',
    'S-C04c': 'qform read-back of a rotation within ~60 degrees of (but not exactly) 180 degrees loses precision as '
              'eps/|w| (only b,c,d are stored; fillpositive snaps |w2| < 3 eps to 0): error up to ~1e4 eps32 (NIfTI-1)',
}


def np_allclose_defaults():
    sig = inspect.signature(np.allclose)
    return float(sig.parameters['rtol'].default), float(sig.parameters['atol'].default)


def A_of(case):
    return np.array([float.fromhex(x) for x in case['A']]).reshape(4, 4)


def case_of(a, **kw):
    d = dict(A=[float(x).hex() for x in a['A'].ravel()], kind=a['kind'], rot=a['rot'], w=a['w'], refl=a['refl'])
    d.update(kw)
    return d


def aff_of_case(case):
    return dict(A=A_of(case), kind=case['kind'], rot=case['rot'], w=case['w'], refl=case['refl'])


def apply_edit(img, edit):
    """Modify an image after construction (or after loading): in-place edits of img.affine, header
    edits, image-level set_sform / set_qform."""
    k = edit['kind']
    with warnings.catch_warnings():
        warnings.simplefilter('ignore')
        if k == 'aff_all':
            img.affine[:] = np.array([float.fromhex(x) for x in edit['A1']]).reshape(4, 4)
        elif k == 'aff_t':
            img.affine[0, 3] += edit['dx']
            img.affine[2, 3] -= 2 * edit['dx']
        elif k == 'aff_col':
            img.affine[:3, 1] *= edit['f']
        elif k == 'hdr_zooms':
            z = list(img.header.get_zooms())
            z[:3] = edit['z']
            img.header.set_zooms(z)
        elif k == 'hdr_pxyz':
            img.header['Pxyz_c'] = edit['c']
        elif k == 'set_sform':
            img.set_sform(np.array([float.fromhex(x) for x in edit['A1']]).reshape(4, 4), code=edit['code'])
        elif k == 'set_qform':
            img.set_qform(np.array([float.fromhex(x) for x in edit['A1']]).reshape(4, 4), code=edit['code'])
        else:
            raise ValueError(k)


def A_eff(case, o):
    """The affine the image had when it was saved."""
    return o['at_save'] if o.get('at_save') is not None else A_of(case)


def coded_string(hdr_like, hdr, ver):
    """Canonical form of get_sform(coded=True) / get_qform(coded=True) of `hdr_like` (a header or an
    image), in the model's terms: None-ness, code, and for a returned matrix the header fields it
    must be made of (the matrix itself is compared with fetch(srow) / the uncoded getter)."""
    from nibabel.spatialimages import HeaderDataError
    st = nifti_hdr_state(hdr, ver)
    with warnings.catch_warnings():
        warnings.simplefilter('ignore')
        S, sc = hdr_like.get_sform(coded=True)
        try:
            Q, qc = hdr_like.get_qform(coded=True)
        except (ValueError, HeaderDataError) as e:
            Q, qc = 'raised', int(hdr['qform_code'])
    if S is None:
        s_ = 'none'
    else:
        E = np.eye(4)
        E[:3, :] = np.array([fieldvalue(b, ver) for b in st['srow']]).reshape(3, 4)
        s_ = 'some' + zl(st['srow']) if same_bits(S, E) else 'some<matrix is not fetch(srow)>'
    if Q is None:
        q_ = 'none'
    elif isinstance(Q, str):
        q_ = 'some' + str(st['p0']) + zl(st['pix']) + zl(st['quat']) + zl(st['qoff'])   # refusal while evaluating
    else:
        with warnings.catch_warnings():
            warnings.simplefilter('ignore')
            ok = same_bits(Q, hdr.get_qform())
        q_ = ('some' + str(st['p0']) + zl(st['pix']) + zl(st['quat']) + zl(st['qoff'])) if ok else 'some<matrix is not get_qform()>'
    return f'ok S:{s_}:{int(sc)} Q:{q_}:{int(qc)}'


def coded_line(cid, st):
    return (f"{cid} coded {st['sc']} {st['qc']} {zl(st['srow'])} {st['p0']} {zl(st['pix'])} {zl(st['quat'])} "
            f"{zl(st['qoff'])}")


# ----------------------------------------------------------------------------- NIfTI image scenario
def obs_nifti(case):
    """Run the implementation on one NIfTI constructor/save/load case.  Returns observables."""
    from nibabel.spatialimages import HeaderDataError
    CL = classes()
    K = CL[case['cls']]
    H = K.header_class
    ver = 1 if case['cls'] in ('n1', 'n1p') else 2
    A = A_of(case)
    shape = tuple(case['shape'])
    data = np.zeros(shape, np.int16)
    rtol, atol = np_allclose_defaults()
    spec = case['spec']
    o = dict(ver=ver, refused=None)
    with warnings.catch_warnings():
        warnings.simplefilter('ignore')
        if spec is None:
            hdr = None
            h0 = H()
            be = False
        else:
            hdr = H(endianness='>' if spec['be'] else '<')
            hdr.set_data_shape(tuple(spec.get('hshape', shape)))
            hdr.set_data_dtype(np.int16)
            B = perturb(A, spec['bkind'])
            hdr.set_sform(B, spec['sc'])
            hdr.set_qform(B, spec['qc'])
            h0 = hdr
            be = spec['be']
        o['be'] = be
        o['state0'] = nifti_hdr_state(h0, ver)
        hc = h0.copy()
        if hc.get_data_shape() != shape:
            hc.set_data_shape(shape)
        try:
            best0 = hc.get_best_affine()
        except (ValueError, HeaderDataError) as e:
            o['refused'] = 'get_best_affine:' + type(e).__name__     # outcome class = site + exception type
            o['refused_msg'] = str(e)[:60]                            # diagnostic only, never compared
            return o
        E = roundtrip_exact(A, ver)
        c1 = my_allclose(A, best0, rtol, atol)
        c2 = c1 if (hdr is not None and c1) else my_allclose(A, E, rtol, atol)
        o.update(c1=c1, c2=c2, best0=best0, expected=E, hashdr=hdr is not None)
        try:
            img = K(data, A, header=hdr)
            if case.get('edit'):
                if case['edit'].get('reload_first'):
                    img, _ = save_load(K, img)
                apply_edit(img, case['edit'])
                A = np.array(img.affine)
                o['at_save'] = A
                h0 = img.header
                o['state0'] = nifti_hdr_state(h0, ver)
                o['be'] = h0.endianness == '>'
                best0 = np.array(h0.get_best_affine())
                E = roundtrip_exact(A, ver)
                c1 = my_allclose(A, best0, rtol, atol)
                o.update(c1=c1, c2=c1 if c1 else my_allclose(A, E, rtol, atol), best0=best0, expected=E, hashdr=True)
            loaded, raw = save_load(K, img, case.get('via'))
        except (ValueError, HeaderDataError) as e:
            o['refused'] = 'save_load:' + type(e).__name__
            o['refused_msg'] = str(e)[:60]
            return o
    hb = raw['header'] if 'header' in raw else raw['image']
    a0, a1, p0, p1 = block_offsets(H)
    o['ablock'] = hb[a0:a1]
    o['pblock'] = hb[p0:p1]
    o['loaded_affine'] = np.array(loaded.affine)
    o['loaded_shape'] = [int(x) for x in loaded.shape]
    o['state2'] = nifti_hdr_state(loaded.header, ver)
    o['loaded_be'] = loaded.header.endianness == '>'
    o['coded_hdr'] = coded_string(loaded.header, loaded.header, ver)
    o['coded_img'] = coded_string(loaded, loaded.header, ver)
    return o


def best_string(st):
    if st['sc'] != 0:
        return 'S ' + zl(st['srow'])
    if st['qc'] != 0:
        return f"Q {st['p0']} {zl(st['pix'])} {zl(st['quat'])} {zl(st['qoff'])}"
    return f"B {zl(st['dims'])} {zl(st['pix'])}"


def expected_by_priority(st, ver, shape):
    """The loaded affine according to the statement's priority rule, from raw header fields."""
    fv = lambda l: [fieldvalue(b, ver) for b in l]
    if st['sc'] != 0:
        E = np.eye(4)
        E[:3, :] = np.array(fv(st['srow'])).reshape(3, 4)
        return 'S', E
    if st['qc'] != 0:
        return 'Q', qform_py(fieldvalue(st['p0'], ver), fv(st['pix']), fv(st['quat']), fv(st['qoff']),
                             EPS32 if ver == 1 else EPS64)
    return 'B', szaff_py(shape, fv(st['pix']), True)


def pred_nifti(case, o):
    """Direct property predicate on one NIfTI case.  Returns (pred, known_id)."""
    if o['refused']:
        return None, None
    L = o['loaded_affine']
    ver = o['ver']
    src, P = expected_by_priority(o['state2'], ver, o['loaded_shape'])
    scale = np.abs(P).max(axis=0) + np.abs(P[:3, 3]).max() * 0 + 1e-300
    if src == 'S':
        if not same_bits(L, P):
            return 'loaded affine is not the stored sform although sform_code != 0', None
    elif not bool(np.all(np.abs(L - P) <= 1e-5 * np.abs(P).max() + 1e-12)):
        return f'loaded affine does not follow the {src} transform of the header (priority rule)', None
    if same_bits(L, o['expected']):
        return None, None
    # the reloaded affine is not the (rounded) image affine
    if o['hashdr'] and o['c1'] and not same_bits(o['best0'], o['expected']):
        return 'reloaded affine differs from the image affine (allclose shortcut kept the header transform)', 'S-C04a'
    return 'reloaded affine is not the %s image affine' % ('float32-rounded' if ver == 1 else 'exact'), None


def lines_nifti(cid, case, o, ker):
    """Model lines + expected canonical strings for one NIfTI case."""
    ver = o['ver']
    A = A_eff(case, o)
    if ker is None:
        ker = kernel_oracle(A)
    st = o['state0']
    a12 = [f64bits(x) for x in A[:3, :].ravel()]
    tabvals = list(A[:3, :].ravel()) + ker['zooms'] + ker['bcd'] + [1.0, -1.0]
    line = (f"{cid}.m nifti {int(o['be'])} {ver} {int(o['hashdr'])} {st['sc']} {st['qc']} {zl(st['srow'])} {st['p0']} "
            f"{zl(st['pix'])} {zl(st['quat'])} {zl(st['qoff'])} {zl(st['dims'])} {zl(case['shape'])} {int(o['c1'])} "
            f"{int(o['c2'])} {zl(a12)} {mk_tab(tabvals, ver)} {int(ker['detpos'])} "
            f"{zl([f64bits(x) for x in ker['zooms']])} {zl([f64bits(x) for x in ker['bcd']])}")
    s2 = o['state2']
    exp = (f"ok {s2['qc']} {s2['sc']} {hx(o['ablock'])} {hx(o['pblock'])} {zl(o['loaded_shape'])} {best_string(s2)}")
    line2 = f"{cid}.r rblocks {int(o['loaded_be'])} {ver} {hx(o['ablock'])} {hx(o['pblock'])}"
    s2b = dict(s2)
    s2b['dims'] = []
    exp2 = (f"ok {s2['sc']} {s2['qc']} {s2['p0']} {zl(s2['pix'])} {zl(s2['quat'])} {zl(s2['qoff'])} {zl(s2['srow'])} "
            f"{best_string(s2b)}")
    return [(line, exp, 'saved header (codes, qform_code..srow_z block, pixdim[0:4], shape, source of best affine)'),
            (line2, exp2, 'parse of the saved affine block'),
            (coded_line(cid + '.ch', s2), o['coded_hdr'], 'header.get_sform/get_qform(coded=True) conventions'),
            (coded_line(cid + '.ci', s2), o['coded_img'], 'image.get_sform/get_qform(coded=True) conventions')]


# ----------------------------------------------------------------------------- header-level API scenario
def obs_hdr(case):
    """Header-level set_sform/set_qform/get_*(coded=True) on fresh NIfTI-1/2 headers."""
    import nibabel as nib
    A = A_of(case)
    a = aff_of_case(case)
    out = {}
    for ver, H in ((1, nib.Nifti1Header), (2, nib.Nifti2Header)):
        if ver not in case.get('vers', [1, 2]):
            continue
        r = {}
        with warnings.catch_warnings():
            warnings.simplefilter('ignore')
            h = H()
            r['s0'] = h.get_sform(coded=True)
            r['q0'] = h.get_qform(coded=True)
            h.set_sform(A, case['scode'])
            S, sc = h.get_sform(coded=True)
            r['S'], r['sc'] = np.array(S), int(sc)
            h.set_qform(A, case['qcode'])
            r['qfac'] = float(h['pixdim'][0])
            r['zooms'] = [float(x) for x in h['pixdim'][1:4]]
            r['bcd'] = [float(h['quatern_b']), float(h['quatern_c']), float(h['quatern_d'])]
            try:
                Q, qc = h.get_qform(coded=True)
                r['Q'], r['qc'] = np.array(Q), int(qc)
            except ValueError as e:
                r['Q'], r['qc'] = None, None
                r['exc'] = type(e).__name__                          # outcome class = exception type
            r['best_is_sform'] = same_bits(h.get_best_affine(), r['S'])
        out[ver] = r
    return out


def pred_hdr(case, o):
    """Returns list of (pred, known_id) for the header-level case."""
    res = []
    A = A_of(case)
    a = aff_of_case(case)
    for ver in sorted(o):
        r = o[ver]
        eps = EPS32 if ver == 1 else EPS64
        if not (r['s0'][0] is None and r['s0'][1] == 0 and r['q0'][0] is None and r['q0'][1] == 0):
            res.append((f'NIfTI-{ver}: coded getters of a fresh header are not (None, 0)', None))
        if r['sc'] != case['scode'] or not same_bits(r['S'], roundtrip_exact(A, ver)):
            res.append((f'NIfTI-{ver}: get_sform(coded=True) is not (rounded affine, code)', None))
        if not r['best_is_sform']:
            res.append((f'NIfTI-{ver}: best affine is not the sform although sform_code != 0', None))
        if not a['rot']:
            continue
        want_qfac = 1.0 if det_sign_exact(A) > 0 else -1.0
        if r['qfac'] != want_qfac:
            res.append((f'NIfTI-{ver}: qfac {r["qfac"]} is not the sign of det', None))
        if r['Q'] is None:
            res.append((f'NIfTI-{ver}: get_qform raised {r["exc"]} for a rotation+zoom affine',
                        near180_known(ver, a['w'], case.get('axis_aligned'), True)))
            continue
        if r['qc'] != case['qcode']:
            res.append((f'NIfTI-{ver}: qform code not preserved', None))
        cl, worst = qform_check(r['Q'], a, eps, eps)
        if cl == 'relaxed':
            res.append((f'NIfTI-{ver} qform at / near 180 degrees (|w|={abs(a["w"]):.3g}) read back with error {worst:.3g} eps',
                        near180_known(ver, a['w'], case.get('axis_aligned'), False)))
        elif cl == 'bad':
            res.append((f'NIfTI-{ver}: qform read back with error {worst:.3g} eps (column-relative) or wrong translation', None))
    return res


# ----------------------------------------------------------------------------- histories on one header
def obs_hist(case):
    """A sequence of set_sform / set_qform calls (affines with determinants of both signs, code
    only, affine only) on ONE NIfTI-1 and ONE NIfTI-2 header; then the getters and the bytes."""
    import nibabel as nib
    affs = [np.array([float.fromhex(x) for x in a['A']]).reshape(4, 4) for a in case['affs']]
    out = {}
    for ver, H in ((1, nib.Nifti1Header), (2, nib.Nifti2Header)):
        r = dict(err=None)
        with warnings.catch_warnings():
            warnings.simplefilter('ignore')
            h = H(endianness='>' if case['be'] else '<')
            r['state0'] = nifti_hdr_state(h, ver)
            try:
                for k, code, idx in case['ops']:
                    getattr(h, 'set_qform' if k == 'q' else 'set_sform')(None if idx is None else affs[idx], code)
            except KeyError:
                r['err'] = 'err key'
            bb = h.binaryblock
            a0, a1, p0, p1 = block_offsets(H)
            r['ablock'], r['pblock'] = bb[a0:a1], bb[p0:p1]
            r['state2'] = nifti_hdr_state(h, ver)
            r['coded'] = coded_string(h, h, ver)
            r['qfac'] = float(h['pixdim'][0])
            r['S'] = np.array(h.get_sform())
            try:
                r['Q'] = np.array(h.get_qform())
            except ValueError as e:
                r['Q'] = None
                r['exc'] = type(e).__name__                          # outcome class = exception type
            try:
                r['best'] = np.array(h.get_best_affine())
            except ValueError:
                r['best'] = None
        out[ver] = r
    return out


def pred_hist(case, o):
    res = []
    lastq = [idx for k, code, idx in case['ops'] if k == 'q' and idx is not None]
    lasts = [idx for k, code, idx in case['ops'] if k == 's' and idx is not None]
    for ver in (1, 2):
        r = o[ver]
        if r['err']:
            continue
        eps = EPS32 if ver == 1 else EPS64
        if lasts:
            A = np.array([float.fromhex(x) for x in case['affs'][lasts[-1]]['A']]).reshape(4, 4)
            if not same_bits(r['S'], roundtrip_exact(A, ver)):
                res.append((f'NIfTI-{ver}: after the history get_sform is not the last affine stored', None))
        st = r['state2']
        if r['best'] is not None:
            src, P = expected_by_priority(st, ver, [0])
            if src == 'S' and not same_bits(r['best'], P):
                res.append((f'NIfTI-{ver}: best affine is not the stored sform although sform_code != 0', None))
            if src == 'Q' and r['Q'] is not None and not same_bits(r['best'], r['Q']):
                res.append((f'NIfTI-{ver}: best affine is not the qform although sform_code = 0, qform_code != 0', None))
        if not lastq:
            continue
        a = aff_of_case(case['affs'][lastq[-1]])
        if not a['rot']:
            continue
        A = a['A']
        want_qfac = 1.0 if det_sign_exact(A) > 0 else -1.0
        if r['qfac'] != want_qfac:
            res.append((f'NIfTI-{ver}: after the history qfac is {r["qfac"]}, the sign of det of the last qform affine is '
                        f'{want_qfac}', None))
        w = abs(a['w'])
        ax = case['affs'][lastq[-1]].get('axis_aligned')
        if r['Q'] is None:
            res.append((f'NIfTI-{ver} get_qform raised: {r.get("exc")}', near180_known(ver, w, ax, True)))
            continue
        cl, worst = qform_check(r['Q'], a, eps, eps)
        if cl == 'relaxed':
            res.append((f'NIfTI-{ver} qform at / near 180 degrees (|w|={w:.3g}) read back with error {worst:.3g} eps',
                        near180_known(ver, w, ax, False)))
        elif cl == 'bad':
            res.append((f'NIfTI-{ver}: after the history get_qform differs from the last affine given to set_qform '
                        f'({worst:.3g} eps, column-relative) or wrong translation', None))
    return res


def lines_hist(cid, case, o):
    out = []
    affs = [np.array([float.fromhex(x) for x in a['A']]).reshape(4, 4) for a in case['affs']]
    kers = [kernel_oracle(A) for A in affs]
    for ver in (1, 2):
        r = o[ver]
        st = r['state0']
        tabvals = [1.0, -1.0]
        atoks = []
        for A, ker in zip(affs, kers):
            tabvals += list(A[:3, :].ravel()) + ker['zooms'] + ker['bcd']
            atoks.append('|'.join([zl([f64bits(x) for x in A[:3, :].ravel()]), str(int(ker['detpos'])),
                                   zl([f64bits(x) for x in ker['zooms']]), zl([f64bits(x) for x in ker['bcd']])]))
        ops = []
        for k, code, idx in case['ops']:
            if isinstance(code, str):
                raise ValueError('string codes are exercised by the code table, not here')
            ops.append(f"{k}:{'-' if code is None else code}:{'-' if idx is None else idx}")
        line = (f"{cid}.v{ver} hist {int(case['be'])} {ver} {st['sc']} {st['qc']} {zl(st['srow'])} {st['p0']} {zl(st['pix'])} "
                f"{zl(st['quat'])} {zl(st['qoff'])} {zl(st['dims'])} {mk_tab(tabvals, ver)} {';'.join(atoks)} {','.join(ops)}")
        if r['err']:
            exp = r['err']
        else:
            s2 = dict(r['state2'])
            exp = f"ok {s2['qc']} {s2['sc']} {hx(r['ablock'])} {hx(r['pblock'])} {best_string(s2)}"
        out.append((line, exp, 'header after a history of set_sform/set_qform calls (codes, affine block, pixdim[0:4])'))
        out.append((coded_line(f'{cid}.c{ver}', r['state2']), r['coded'],
                    'get_sform/get_qform(coded=True) conventions after a history'))
    return out


def gen_histories(chk, core, rand):
    """Histories of 2-4 calls; consecutive qform affines alternate the sign of the determinant
    in the seed-independent part."""
    rng = chk.rng
    out = []
    rot_core = [a for a in core]
    pos = [a for a in rot_core if a['refl'] == 1]
    neg = [a for a in rot_core if a['refl'] == -1]
    k = 0
    for i in range(0, 24):
        p, n, p2 = pos[(5 * i) % len(pos)], neg[(7 * i + 1) % len(neg)], pos[(3 * i + 2) % len(pos)]
        c1, c2 = 1 + i % 5, 1 + (i // 2) % 5
        seqs = [([n, p], [('q', c1, 0), ('q', c2, 1)]),
                ([p, n], [('q', c1, 0), ('q', None, 1)]),
                ([n, p, n], [('q', c1, 0), ('s', c2, 1), ('q', None, 1), ('s', 0, None)]),
                ([n, p2], [('q', None, 0), ('s', None, 0), ('q', c2, 1), ('q', 0, None), ('q', c1, None)])]
        affs, ops = seqs[i % 4]
        out.append((affs, ops, i % 3 == 2))
    rot_rand = [a for a in rand if a['rot']]
    for i in range(len(rot_rand) // 3):
        n = rng.choice([2, 3])
        affs = [rng.choice(rot_rand) for _ in range(n)]
        ops = []
        for j in range(n):
            ops.append((rng.choice(['q', 'q', 's']), rng.choice([None, 0, 1, 2, 3, 4, 5]), j))
            if rng.random() < 0.3:
                ops.append((rng.choice(['q', 's']), rng.choice([None, 0, 2, 7]), None))
        if not any(k == 'q' and idx is not None for k, c, idx in ops):
            ops.append(('q', rng.choice([None, 1, 4]), n - 1))
        out.append((affs, ops, rng.random() < 0.3))
    return out


# ----------------------------------------------------------------------------- image-level qform-only scenario
def obs_imgq(case):
    CL = classes()
    K = CL[case['cls']]
    ver = 1 if case['cls'] in ('n1', 'n1p') else 2
    A = A_of(case)
    data = np.zeros((2, 3, 4), np.int16)
    o = dict(ver=ver, refused=None)
    with warnings.catch_warnings():
        warnings.simplefilter('ignore')
        A0 = (np.array([float.fromhex(x) for x in case['A0']]).reshape(4, 4) if case.get('A0')
              else np.diag([3.0, 3.0, 3.0, 1.0]))
        if case.get('reuse'):
            # header of an image that carried A0, reused for an image with affine A
            img = K(data, A, header=K(data, A0).header)
        else:
            img = K(data, A0)
        img.set_sform(None, code=0)
        try:
            img.set_qform(A, code=case['qcode'])
        except ValueError as e:
            o['refused'] = 'set_qform:' + type(e).__name__
            o['refused_msg'] = str(e)[:60]
            return o
        o['at_save'] = np.array(img.affine)
        loaded, raw = save_load(K, img)
        o['loaded_affine'] = np.array(loaded.affine)
        o['codes'] = (int(loaded.header['sform_code']), int(loaded.header['qform_code']))
        o['sq'] = (loaded.get_sform(coded=True)[0], loaded.get_qform(coded=True)[1])
    return o


def pred_imgq(case, o):
    a = aff_of_case(case)
    ver = o['ver']
    eps = EPS32 if ver == 1 else EPS64
    w = abs(a['w'])
    if o['refused']:
        return ('image.set_qform raised for a rotation+zoom affine: ' + o['refused'],
                near180_known(ver, w, case.get('axis_aligned'), True))
    if not same_bits(o['loaded_affine'], o['at_save']):
        return 'reloaded affine is not the affine the image had when saved (qform only)', None
    if o['codes'] != (0, case['qcode']) or o['sq'][0] is not None or o['sq'][1] != case['qcode']:
        return 'codes of the qform-only image not preserved', None
    cl, worst = qform_check(o['loaded_affine'], a, eps, eps)
    if cl == 'ok':
        return None, None
    if cl == 'relaxed':
        k = near180_known(ver, w, case.get('axis_aligned'), False)
        if k:
            return f'qform-only image at / near 180 degrees (|w|={w:.3g}): error {worst:.3g} eps', k
    return f'qform-only image reloads with error {worst:.3g} eps (column-relative) or wrong translation', None


# ----------------------------------------------------------------------------- Analyze / SPM / MGH scenario
FLIP = {'ana': 'x_flip_analyze', 'spm99': 'x_flip_spm99', 'spm2': 'x_flip_spm2'}


def obs_other(case):
    import scipy.io as sio
    from nibabel.fileholders import FileHolder
    CL = classes()
    cls = case['cls']
    K = CL[cls]
    A = A_of(case)
    shape = tuple(case['shape'])
    data = np.zeros(shape, np.float32 if cls == 'mgh' else np.int16)
    rtol, atol = np_allclose_defaults()
    o = dict(refused=None)
    with warnings.catch_warnings():
        warnings.simplefilter('ignore')
        if case['bkind'] is None:
            hdr = None
            h0 = K.header_class()
            if cls == 'mgh':
                h0.set_data_dtype(np.float32)
        else:
            B = perturb(A, case['bkind'])
            hdr = K(np.zeros(tuple(case.get('hshape', shape)), data.dtype), B).header.copy()
            h0 = hdr
        hc = h0.copy()
        if hc.get_data_shape() != shape:
            hc.set_data_shape(shape)
        best0 = np.array(hc.get_best_affine())
        c1 = my_allclose(A, best0, rtol, atol)
        o.update(hashdr=hdr is not None, c1=c1, best0=best0)
        if cls != 'mgh':
            o['pix0'] = [int(x) for x in np.asarray(h0['pixdim'][1:4]).astype(np.float32).view(np.uint32)]
            o['dims0'] = [int(x) for x in h0.get_data_shape()]
            o['flip'] = bool(K.header_class.default_x_flip)
            zr = [float(np.float32(z)) for z in col_norms(A)]
            after = szaff_py(shape, zr, o['flip'])
            o['c2'] = c1 if (hdr is not None and c1) else my_allclose(A, after, rtol, atol)
        img = K(data, A, header=hdr)
        if case.get('edit'):
            if case['edit'].get('reload_first'):
                img, _ = save_load(K, img)
            apply_edit(img, case['edit'])
            A = np.array(img.affine)
            o['at_save'] = A
            h0 = img.header
            best0 = np.array(h0.get_best_affine())
            c1 = my_allclose(A, best0, rtol, atol)
            o.update(hashdr=True, c1=c1, best0=best0)
            if cls != 'mgh':
                o['pix0'] = [int(x) for x in np.asarray(h0['pixdim'][1:4]).astype(np.float32).view(np.uint32)]
                o['dims0'] = [int(x) for x in h0.get_data_shape()]
                zr = [float(np.float32(z)) for z in col_norms(A)]
                o['c2'] = c1 if c1 else my_allclose(A, szaff_py(shape, zr, o['flip']), rtol, atol)
        if cls == 'mgh':
            hh = img.header
            o['c_save'] = my_allclose(np.array(img.affine), np.array(hh.get_best_affine()), rtol, atol)
            o['pre_fields'] = bytes(np.asarray(hh['delta']).tobytes() + np.asarray(hh['Mdc']).tobytes()
                                    + np.asarray(hh['Pxyz_c']).tobytes())
        if case.get('twostep'):
            # an image with another affine is saved to the same file names first
            prev = np.array([float.fromhex(x) for x in case['twostep']]).reshape(4, 4)
            save_load(K, K(data, prev), case['via'])
        loaded, raw = save_load(K, img, case.get('via'))
        o['loaded_affine'] = np.array(loaded.affine)
        o['loaded_shape'] = [int(x) for x in loaded.shape]
        lh = loaded.header
        if cls == 'mgh':
            o['post_fields'] = bytes(np.asarray(lh['delta']).tobytes() + np.asarray(lh['Mdc']).tobytes()
                                     + np.asarray(lh['Pxyz_c']).tobytes())
            o['delta'] = [float(x) for x in lh['delta']]
            o['Mdc'] = np.array(lh['Mdc'], dtype=np.float64)
            o['Pc'] = [float(x) for x in lh['Pxyz_c']]
        else:
            o['pix2'] = [int(x) for x in np.asarray(lh['pixdim'][1:4]).astype(np.float32).view(np.uint32)]
            o['zooms2'] = [float(x) for x in np.asarray(lh['pixdim'][1:4]).astype(np.float32)]
            o['hdr_affine'] = np.array(lh.get_best_affine())
        if cls in ('spm99', 'spm2'):
            o['origin'] = [int(x) for x in lh['origin'][:3]]
            o['mat_len'] = len(raw.get('mat', b''))
            if o['mat_len'] == 0:
                # observation: no .mat was written; the reloaded affine above is what the header gives
                o['mat_M'] = o['mat_mat'] = None
                o['variants'] = {}
                return o
            mats = sio.loadmat(io.BytesIO(raw['mat']))
            if 'M' not in mats or 'mat' not in mats:
                o['mat_M'] = o['mat_mat'] = None
                o['mat_len'] = -1
                o['variants'] = {}
                return o
            o['mat_M'] = np.array(mats['M'], dtype=np.float64)
            o['mat_mat'] = np.array(mats['mat'], dtype=np.float64)
            # variants of the .mat file: only M (what SPM99 itself wrote), empty, neither key, conflicting
            var = {}
            o['mat_Mconf'] = o['mat_M'] * 2.0 + 3.0
            for name, content in (('Monly', {'M': mats['M']}), ('empty', None), ('neither', {'foo': np.eye(2)}),
                                  ('conflict', {'M': o['mat_Mconf'], 'mat': mats['mat']})):
                bio = io.BytesIO()
                if content is not None:
                    sio.savemat(bio, content, format='4')
                fm = {k: FileHolder(fileobj=io.BytesIO(v)) for k, v in raw.items()}
                fm['mat'] = FileHolder(fileobj=io.BytesIO(bio.getvalue()))
                try:
                    var[name] = np.array(K.from_file_map(fm).affine)
                except ValueError:
                    var[name] = 'err value'
            o['variants'] = var
    return o


def pred_other(case, o):
    cls = case['cls']
    A = A_eff(case, o)
    L = o['loaded_affine']
    shortcut = o['hashdr'] and o['c1']
    if cls == 'ana':
        vs = np.sqrt(np.sum(L[:3, :3] ** 2, axis=0))
        want = np.array([float(np.float32(z)) for z in col_norms(A)])
        if bool(np.all(vs == want)):
            return None, None
        if shortcut:
            return 'Analyze voxel sizes on reload are the header\'s, not the image affine\'s (allclose shortcut)', 'S-C04a'
        return f'Analyze voxel sizes {vs} are not the float32 voxel sizes {want} of the image affine', None
    if cls in ('spm99', 'spm2'):
        bad = []
        todo = [('mat', L)]
        if o['variants']:
            todo.append(('M only', o['variants']['Monly']))
        for nm, LL in todo:
            if isinstance(LL, str):
                bad.append(f'{nm}: load raised')
                continue
            if same_bits(LL, A):
                continue
            scale = np.maximum(np.abs(A[:3, 3]), np.abs(A[:3, :3]).sum(axis=1))
            ulps = np.abs(LL[:3, 3] - A[:3, 3]) / np.spacing(scale)
            if same_bits(LL[:3, :3], A[:3, :3]):
                measure('spm_mat_translation_ulps', ulps.max())
            if same_bits(LL[:3, :3], A[:3, :3]) and same_bits(LL[3], A[3]) and float(ulps.max()) <= TOL['SPM_ULP']:
                bad.append('ulp')
            else:
                bad.append(f'{nm}: reloaded affine differs from the saved one beyond {TOL["SPM_ULP"]} ulp of the translation')
        real = [b for b in bad if b != 'ulp']
        if real:
            if o['mat_len'] <= 0:
                return ('SPM image saved without a usable .mat sidecar (%s): the reloaded affine is not the saved one'
                        % ('empty / not written' if o['mat_len'] == 0 else 'M or mat missing')), None
            return 'SPM .mat: ' + '; '.join(real), None
        if bad:
            return 'SPM .mat round trip not exact: translation differs by a few ulp', 'S-C04b'
        return None, None
    # MGH
    norms = np.array(col_norms(A))
    sh = np.array(case['shape'][:3], dtype=float)
    cerr = np.abs(L[:3, :3] - A[:3, :3]).max(axis=0) / norms
    tscale = np.abs(A[:3, :3]) @ sh + np.abs(A[:3, 3])
    terr = np.abs(L[:3, 3] - A[:3, 3]) / np.maximum(tscale, 1e-300)
    if not shortcut:
        measure('mgh_column_err_over_eps32', cerr.max() / EPS32)
        measure('mgh_translation_err_over_eps32', terr.max() / EPS32)
    if float(cerr.max()) <= TOL['MGH'] * EPS32 and float(terr.max()) <= TOL['MGH'] * EPS32 and same_bits(L[3], [0, 0, 0, 1]):
        return None, None
    if shortcut:
        return 'MGH affine on reload is the header\'s, not the image affine (allclose shortcut)', 'S-C04a'
    return (f'MGH reload error {float(cerr.max()) / EPS32:.3g} eps32 (columns) / {float(terr.max()) / EPS32:.3g} eps32 '
            f'(translation, relative to |A|.shape+|t|)'), None


def frac_aff(M):
    return [Fraction(float(x)) for x in np.asarray(M)[:3, :].ravel()]


def lines_other(cid, case, o):
    """Model lines (+ expected strings, or numeric comparators) of one Analyze/SPM/MGH case."""
    cls = case['cls']
    A = A_eff(case, o)
    out = []
    num = []
    if cls == 'mgh':
        norms_ = np.array(col_norms(A))
        sh_ = np.array(case['shape'][:3], dtype=float)
        cras_ = A[:3, :3] @ (sh_ / 2.0) + A[:3, 3]
        w_ = max(float((np.abs(np.array(o['delta']) - norms_) / norms_).max()),
                 float(np.abs(o['Mdc'].T - A[:3, :3] / norms_).max()),
                 float((np.abs(np.array(o['Pc']) - cras_)
                        / np.maximum(np.abs(A[:3, :3]) @ (sh_ / 2.0) + np.abs(A[:3, 3]), 1e-300)).max())) / EPS32
        # a rewrite from an unchanged affine is idempotent, so both observations can hold at once
        out.append((f"{cid}.u upd 1 {int(o['c_save'])}", ('upd', o['pre_fields'] == o['post_fields'], w_ <= 1.5),
                    'MGH to_file_map: update_header rewrites delta/Mdc/Pxyz_c from the affine at save time unless allclose'))
        # numeric tie of the stored fields to the formulas of ModelR.mgh_affine2header (1.5 ulp32);
        # only when the header was rewritten
        if not (o['hashdr'] and o['c1']):
            norms = np.array(col_norms(A))
            sh = np.array(case['shape'][:3], dtype=float)
            cras = A[:3, :3] @ (sh / 2.0) + A[:3, 3]
            e1 = np.abs(np.array(o['delta']) - norms) / norms
            e2 = np.abs(o['Mdc'].T - A[:3, :3] / norms)
            e3 = np.abs(np.array(o['Pc']) - cras) / np.maximum(np.abs(A[:3, :3]) @ (sh / 2.0) + np.abs(A[:3, 3]), 1e-300)
            worst = max(float(e1.max()), float(e2.max()), float(e3.max())) / EPS32
            if worst > 1.5:
                num.append(('mgh header fields vs ModelR.mgh_affine2header', f'{worst:.3g} eps32', '<= 1.5 eps32'))
        return out, num
    ztab = col_norms(A)
    line = (f"{cid}.m analyze {int(o['hashdr'])} {zl(o['pix0'])} {zl(o['dims0'])} {zl(case['shape'])} {int(o['c1'])} "
            f"{int(o['c2'])} {zl([f64bits(x) for x in A[:3, :].ravel()])} {mk_tab(ztab, 1)} {zl([f64bits(x) for x in ztab])}")
    out.append((line, f"ok {zl(o['pix2'])} {zl(o['loaded_shape'])}", 'saved pixdim[1:4] bits and shape'))
    flip = int(o['flip'])
    if cls == 'ana':
        out.append((f"{cid}.b szaff {zl(o['loaded_shape'])} {ql(o['zooms2'] + [1.0] * (len(o['loaded_shape']) - 3))} {flip}",
                    ('q', frac_aff(o['loaded_affine']), 0.0), 'loaded affine = shape_zoom_affine(shape, zooms)'))
    else:
        dims3 = (o['loaded_shape'] + [1, 1, 1])[:3]
        out.append((f"{cid}.b spmorigin {flip} {zl(dims3)} {ql(o['zooms2'])} {zl(o['origin'])}",
                    ('q1', frac_aff(o['hdr_affine']), 0.0), 'header affine = get_origin_affine'))
        if o['mat_M'] is None:
            num.append(('SPM to_file_map writes M and mat to the .mat file (Model.spm_write)',
                        'no usable .mat (%d bytes)' % o['mat_len'], 'M, mat arrays'))
            return out, num
        out.append((f"{cid}.w spmw {flip} {ql(A[:3, :].ravel())}",
                    ('q2', frac_aff(o['mat_M']), frac_aff(o['mat_mat']), TOL['SPM_ULP']),
                    '.mat arrays M and mat vs exact (A with x flip).from_111, A.from_111'))
        M = ql(o['mat_M'][:3, :].ravel())
        mat = ql(o['mat_mat'][:3, :].ravel())
        out.append((f"{cid}.r1 spmr {flip} 0 1 1 {M} {mat}", ('qr', 'mat', frac_aff(o['loaded_affine']), 2.0),
                    'loaded affine = mat.to_111 (mat overrides M)'))
        v = o['variants']
        out.append((f"{cid}.r5 spmr {flip} 0 1 1 {ql(o['mat_Mconf'][:3, :].ravel())} {mat}",
                    ('qr', 'mat', None if isinstance(v['conflict'], str) else frac_aff(v['conflict']), 2.0),
                    '.mat whose M and mat disagree: mat wins'))
        out.append((f"{cid}.r2 spmr {flip} 0 0 1 {M} {mat}",
                    ('qr', 'M', None if isinstance(v['Monly'], str) else frac_aff(v['Monly']), 2.0),
                    'M-only .mat: loaded affine = flip.M.to_111'))
        out.append((f"{cid}.r3 spmr {flip} 1 0 0 {M} {mat}",
                    'ok keep' if (not isinstance(v['empty'], str) and same_bits(v['empty'], o['hdr_affine'])) else 'impl: ' + str(v['empty'])[:40],
                    'empty .mat keeps the header affine'))
        out.append((f"{cid}.r4 spmr {flip} 0 0 0 {M} {mat}", 'err value' if isinstance(v['neither'], str) else 'impl: loaded',
                    '.mat with neither key is a ValueError'))
    return out, num


def cmp_model(exp, got):
    """Compare one model result with the implementation's canonical value.  None if equal."""
    if isinstance(exp, str):
        return None if exp == got else (got[:200], exp[:200])
    kind = exp[0]
    if kind == 'upd':       # (kept: saved fields == fields before save, rewritten: fields match the affine at save)
        if got == 'ok keep':
            return None if exp[1] else (got, 'saved header fields differ from those before the save')
        if got == 'ok rewrite':
            return None if exp[2] else (got, 'saved header fields are not those of the affine at save time'
                                        + (' (kept unchanged)' if exp[1] else ''))
        return (got, 'ok keep|rewrite')
    if not got.startswith('ok '):
        return (got[:120], 'numeric ' + kind)
    parts = got[3:].split()
    if kind == 'q':         # exact rational equality of 12 entries
        m = parse_ql(parts[0])
        return None if m == exp[1] else (str([float(x) for x in m]), str([float(x) for x in exp[1]]))
    if kind == 'q1':        # 'used' flag then list
        m = parse_ql(parts[1])
        return None if m == exp[1] else (str([float(x) for x in m]), str([float(x) for x in exp[1]]))
    if kind == 'q2':        # M, mat: columns 0..2 exact, translation within ulps of the row scale
        for m, e in ((parse_ql(parts[0]), exp[1]), (parse_ql(parts[1]), exp[2])):
            for i in range(3):
                for j in range(3):
                    if m[4 * i + j] != e[4 * i + j]:
                        return (f'entry {i},{j} = {float(m[4 * i + j])!r}', repr(float(e[4 * i + j])))
                scale = sum(abs(float(x)) for x in m[4 * i:4 * i + 4]) + abs(float(e[4 * i + 3])) + 1e-300
                if abs(float(m[4 * i + 3] - e[4 * i + 3])) > exp[3] * float(np.spacing(scale)):
                    return (f'translation {i} = {float(m[4 * i + 3])!r}', repr(float(e[4 * i + 3])))
        return None
    if kind == 'qr':        # '<src> [..]' within ulps
        if parts[0] != exp[1] or exp[2] is None:
            return (got[:80], f'{exp[1]} ...' if exp[2] is not None else 'load raised')
        m = parse_ql(parts[1])
        for i in range(3):
            for j in range(4):
                scale = 2.0 * sum(abs(float(x)) for x in m[4 * i:4 * i + 3]) + abs(float(m[4 * i + 3])) + 1e-300
                if abs(float(m[4 * i + j] - exp[2][4 * i + j])) > (exp[3] * float(np.spacing(scale)) if j == 3 else 0.0):
                    return (f'entry {i},{j} = {float(m[4 * i + j])!r}', repr(float(exp[2][4 * i + j])))
        return None
    return ('?', '?')


# ----------------------------------------------------------------------------- decision tables (exhaustive)
def decision_tables(chk, lines, expect):
    """get_best_affine priority over all 36 code pairs x 2 header classes and the code
    resolution of set_sform / set_qform over old x code x has_affine: exhaustive."""
    import nibabel as nib
    from nibabel.nifti1 import xform_codes
    codes = sorted(int(c) for c in xform_codes.value_set('code'))
    S = np.array([[2.0, 0, 0, 10], [0, 3, 0, 20], [0, 0, 4, 30], [0, 0, 0, 1]])
    Qa = np.array([[0, -5.0, 0, 1], [6.0, 0, 0, 2], [0, 0, 7, 3], [0, 0, 0, 1]])
    for ver, H in ((1, nib.Nifti1Header), (2, nib.Nifti2Header)):
        for sc in codes:
            for qc in codes:
                h = H()
                h.set_data_shape((5, 6, 7))
                h.set_sform(S, sc)
                h.set_qform(Qa, qc)
                b = h.get_best_affine()
                src = ('S' if same_bits(b, h.get_sform()) else 'Q' if same_bits(b, h.get_qform()) else
                       'B' if same_bits(b, h.get_base_affine()) else '?')
                cid = f'bt{ver}.{sc}.{qc}'
                lines.append(f'{cid} best {sc} {qc}')
                expect[cid] = (f'ok {src}', 'get_best_affine priority', dict(scn='best', ver=ver, sc=sc, qc=qc))
                want = 'S' if sc != 0 else 'Q' if qc != 0 else 'B'
                cs, cq = h.get_sform(coded=True), h.get_qform(coded=True)
                ok = (src == want and (cs[0] is None) == (sc == 0) and cs[1] == sc and (cq[0] is None) == (qc == 0)
                      and cq[1] == qc)
                chk.count(key=('best', ver, sc, qc), tag='decision:best')
                if not ok:
                    chk.violation('property_violation', case=dict(scn='best', ver=ver, sc=sc, qc=qc),
                                  impl_output=f'source {src}, coded sform {cs[1]}, coded qform {cq[1]}',
                                  predicate=f'header with sform_code={sc}, qform_code={qc}: best affine must come from {want} and the coded getters must return (None, 0) exactly for code 0, (matrix, code) otherwise')
        # coded getters never evaluate a transform whose code is 0 (even with an invalid qfac / quaternion)
        for qfac in (0.0, 2.0, -1.0, 1.0):
            for qc in (0, 1):
                for sc in (0, 3):
                    h = H()
                    h.set_sform(S, sc)
                    h.set_qform(Qa, qc)
                    h['pixdim'][0] = qfac
                    h['quatern_b'] = 0.9 if qfac == 2.0 else float(h['quatern_b'])
                    h['quatern_c'] = 0.9 if qfac == 2.0 else float(h['quatern_c'])
                    cid = f'cg{ver}.{qfac}.{qc}.{sc}'
                    lines.append(coded_line(cid, nifti_hdr_state(h, ver)))
                    expect[cid] = (coded_string(h, h, ver), 'coded getters with invalid qform fields',
                                   dict(scn='coded', ver=ver, qfac=qfac, qc=qc, sc=sc))
                    chk.count(key=('coded', ver, qfac, qc, sc), tag='decision:coded')
        for which in ('sform', 'qform'):
            for old in codes:
                for code in [None] + list(range(-1, max(codes) + 3)) + ['aligned', 'unknown', 'mni', 'bogus']:
                    for has_aff in (0, 1):
                        h = H()
                        getattr(h, 'set_' + which)(S, old)
                        try:
                            getattr(h, 'set_' + which)(S if has_aff else None, code)
                            got = 'ok %d' % int(h[which + '_code'])
                        except KeyError:
                            got = 'err key'
                        cnum = code
                        if isinstance(code, str):
                            try:
                                cnum = int(xform_codes[code])
                            except KeyError:
                                cnum = 99
                        cid = f'cd{ver}{which[0]}.{old}.{code}.{has_aff}'
                        lines.append(f"{cid} code {old} {'-' if cnum is None else cnum} {has_aff}")
                        expect[cid] = (got, f'set_{which} code resolution', dict(scn='code', ver=ver, which=which, old=old,
                                                                               code=code, has_aff=has_aff))
                        chk.count(key=('code', ver, which, old, str(code), has_aff), tag='decision:code')


def allclose_cases(chk, lines, expect, pairs):
    rtol, atol = np_allclose_defaults()
    for i, (a, b) in enumerate(pairs):
        cid = f'ac{i}'
        lines.append(f'{cid} allclose {fr(rtol)} {fr(atol)} {ql(a)} {ql(b)}')
        expect[cid] = ('ok %d' % int(bool(np.allclose(a, b))), 'np.allclose vs exact rational formula', dict(scn='allclose', i=i))
        chk.count(tag='decision:allclose')


def edit_scenarios(chk, core, rand):
    """(affine, class, edit) triples: modify after construction / after loading, then save."""
    pool = core[::6] + rand[:max(6, len(rand) // 9)]
    perms = [a for a in core if a['kind'] == 'perm']
    hexA = lambda a: [float(x).hex() for x in a['A'].ravel()]
    out = []
    k = 0
    for i, a in enumerate(pool):
        other = pool[(i + 3) % len(pool)]
        common_modes = [dict(kind='aff_all', A1=hexA(other)), dict(kind='aff_t', dx=1000.0), dict(kind='aff_t', dx=5.0),
                        dict(kind='aff_col', f=1.75), dict(kind='hdr_zooms', z=[1.5, 2.5, 3.5])]
        for cls in CLSNAMES:
            modes = list(common_modes)
            if cls == 'mgh':
                modes.append(dict(kind='hdr_pxyz', c=[1.0, 2.0, 3.0]))
            if cls in ('n1', 'n1p', 'n2', 'n2p'):
                modes.append(dict(kind='set_sform', A1=hexA(other), code=1 + k % 5))
                modes.append(dict(kind='set_qform', A1=hexA(perms[(2 * k + 1) % len(perms)]), code=1 + k % 5))
            for j in (k % len(modes), (k + 3) % len(modes)):
                e = dict(modes[j])
                e['reload_first'] = bool((k + j) % 2)
                out.append((a, cls, e))
            k += 1
    return out


# ----------------------------------------------------------------------------- the check
def handle_pred(chk, case, pred, known, impl_out=None, model_out=None):
    """Route one direct-predicate outcome.  Returns True when the predicate held."""
    if pred is None:
        return True
    if known:
        chk.known(known, KNOWN_TXT[known])
        chk.tagc('known:' + known)
        return False
    chk.violation('property_violation', case=case, impl_output=impl_out, model_output=model_out, predicate=pred)
    return False


def run(chk: Check):
    ensure_impl_path()
    chk.rule = ('seed-independent core: the 24 proper signed permutations (every 90/180 degree rotation about the '
                'coordinate axes) and exact 180 degree rotations about 10 diagonals, each with and without reflection, '
                'zooms from {1, (2,3,4), (1e-6,1,1e6), anisotropic}, small and 1e5..2.5e6 translations; all 36 '
                '(sform_code, qform_code) pairs x header affine {equal, allclose-but-different, far} x 4 NIfTI classes '
                'x both byte orders; exhaustive decision tables (priority, code resolution incl. invalid codes). '
                'Random tail (VERIF_SEED): general non-singular (cond < 200), rigid+zoom, reflection, near-180 '
                '(|w| log-uniform 1e-9..0.5), exact 180 about random axes, zooms 1e-6..1e6 with translations to 1e6, mixed zooms '
                '1e-30..1e30 (all classes) and 1e-150..1e150 with products under/overflowing float64 (NIfTI-2 only); '
                'each x 8 image classes (Nifti1Image, Nifti1Pair, Nifti2Image, Nifti2Pair, AnalyzeImage, '
                'Spm99AnalyzeImage, Spm2AnalyzeImage, MGHImage) x header supplied or not (header affine equal / allclose / far / '
                'far with the determinant of the other sign); histories of 2-6 set_sform/set_qform calls on ONE header and '
                'on one image or a reused header (determinants of both signs, code-only and affine-only calls) followed by '
                'the getters / save / load; LR-flipped volume-centred affines with zooms not representable in float32 '
                '(0.9, 1.1, 2.3) for the Analyze family, also saved over an existing image with another affine; '
                'modify-after-construction-or-load then save, every class (in-place img.affine edits, header zoom / Pxyz_c '
                'edits, image set_sform / set_qform): the reload must be the affine the image had at save time; BytesIO '
                'file maps plus real files under the work directory.  A case is non-trivial when the affine is not a diagonal matrix; '
                'distinct by (class, affine bits, header spec)')
    chk.assumptions = ['affines are finite, non-singular (cond < 200 for the general kind), shapes 3-D with dims <= 64',
                       'voxel sizes within 1e-150..1e150 for float64 headers (below ~1e-154 / above ~1e154 the squares in the '
                       'column-norm computation under/overflow float64) and within 1e-30..1e30 for float32 headers',
                       'float32 rounding, column norms, sign of det (exact rational), polar factor and eigh quaternion '
                       'are inputs to the model (computed by NumPy / exact Fractions in the harness), not modelled',
                       'platform is little-endian; np.allclose defaults read from its signature']
    chk.trusted += ['C04 oracles (Section variables): store (NumPy float64->float32 cast as bits), fetch, qnum_of (column '
                    'norms, sign of det, polar factor, eigh) in Model.v; polar (P.Qs of svd) and eigmax (top eigenvector of '
                    'K by eigh) with the contracts stated in LemmasR.v',
                    'ideal arithmetic: ModelR.v is over Coq R; the float layer of quat2mat/mat2quat/set_qform/get_qform/MGH '
                    'is measured against the stated tolerances, not proved']
    chk.build(gen_tables=gen_tables)
    chk.run_probes()
    if not chk.model_ok:
        return
    rng = chk.rng
    core = core_affines()
    nrand = chk.n(560, 6000)
    rand = [random_affine(rng, KINDS[i % len(KINDS)]) for i in range(nrand)]
    lines = []
    expect = {}       # line id -> (expected, what, case)
    preds = {}        # case id -> predicate held?
    numdis = []
    decision_tables(chk, lines, expect)
    acp = []

    # ---- NIfTI constructor / save / load
    n_refused = 0
    edits = edit_scenarios(chk, core, rand)
    nscen = list(nifti_scenarios(chk, core, rand))
    huge0 = huge_affines(random.Random(chk.seed + 1), max(4, nrand // 25))
    for k, a in enumerate(huge0):
        for cls in ('n2', 'n2p'):
            nscen.append((a, cls, None))
            nscen.append((a, cls, dict(sc=0, qc=1 + k % 5, bkind='same', be=bool(k % 3 == 0))))
    nscen += [(a, cls, None, [3, 4, 5], e) for (a, cls, e) in edits if cls in ('n1', 'n1p', 'n2', 'n2p')]
    for i, scen in enumerate(nscen):
        a, cls, spec = scen[:3]
        shape = scen[3] if len(scen) > 3 else ([2, 3, 4] if i % 5 else [3, 5, 2])
        if spec is not None and i % 7 == 0 and len(scen) == 3:
            spec = dict(spec, hshape=[4, 4, 4])
        case = case_of(a, scn='nifti', cls=cls, spec=spec, shape=shape)
        if len(scen) > 4:
            case['edit'] = scen[4]
        if i % 97 == 5:
            case['via'] = [chk.workdir, cls]
        o = obs_nifti(case)
        nontriv = bool(np.count_nonzero(a['A'][:3, :3] - np.diag(np.diag(a['A'][:3, :3]))))
        chk.count(key=(cls, tuple(case['A']), str(spec), str(case.get('edit'))) if nontriv else None,
                  tag=(f"nifti:{cls}:{a['kind']}:{'hdr' if spec else 'nohdr'}" if not case.get('edit') else
                       f"edit-then-save:{cls}:{case['edit']['kind']}:{'loaded' if case['edit']['reload_first'] else 'new'}"),
                  sample=case if i in (7, 500) else None)
        if o['refused']:
            n_refused += 1
            chk.refusal(o['refused'].split(':')[1])
            chk.violation('property_violation', case=case, impl_output=o['refused'],
                          predicate='constructing/saving an image with this header raised')
            continue
        chk.tagc('shortcut:' + ('fired' if (o['hashdr'] and o['c1']) else 'no'))
        pred, known = pred_nifti(case, o)
        cid = f'n{i}'
        preds[cid] = handle_pred(chk, case, pred, known, impl_out=str(o['loaded_affine'].tolist()))
        for (ln, exp, what) in lines_nifti(cid, case, o, None):
            lines.append(ln)
            expect[ln.split()[0]] = (exp, what, case)
        # loaded affine = fetch of the stored rows (codec)
        if o['state2']['sc'] != 0:
            P = expected_by_priority(o['state2'], o['ver'], o['loaded_shape'])[1]
            if not same_bits(P, o['loaded_affine']):
                numdis.append((cid, case, 'loaded affine vs fetch(srow)', str(o['loaded_affine'].tolist()), str(P.tolist())))
        if spec is not None and len(acp) < 400:
            acp.append((a['A'].ravel().tolist(), o['best0'].ravel().tolist()))

    # ---- header-level and image-level qform / sform API
    huge = huge_affines(rng, max(6, nrand // 12))
    hl = [(a, True) for a in core] + [(a, False) for a in rand] + [(a, False) for a in huge]
    for i, (a, is_core) in enumerate(hl):
        case = case_of(a, scn='hdr', scode=1 + i % 5, qcode=1 + (i // 5) % 5, axis_aligned=a['axis_aligned'])
        if a.get('vers'):
            case['vers'] = a['vers']
        o = obs_hdr(case)
        chk.count(key=('hdr', tuple(case['A'])), tag=f"hdrapi:{a['kind']}")
        ok = True
        for pred, known in pred_hdr(case, o):
            ok = handle_pred(chk, case, pred, known,
                             impl_out={v: (None if o[v]['Q'] is None else o[v]['Q'].tolist()) for v in sorted(o)}) and ok
        preds[f'h{i}'] = ok
        if a['rot']:
            cls = ('n1', 'n2', 'n1p', 'n2p')[i % 4] if not a.get('vers') else ('n2', 'n2p')[i % 2]
            case = case_of(a, scn='imgq', cls=cls, qcode=1 + i % 5, axis_aligned=a['axis_aligned'])
            o = obs_imgq(case)
            chk.count(key=('imgq', cls, tuple(case['A'])), tag=f"imgq:{cls}:{a['kind']}")
            pred, known = pred_imgq(case, o)
            preds[f'q{i}'] = handle_pred(chk, case, pred, known,
                                         impl_out=None if o['refused'] else str(o['loaded_affine'].tolist()))

    # ---- histories on one header / one image (stale state between calls)
    for i, (affs, ops, be) in enumerate(gen_histories(chk, core, rand)):
        case = dict(scn='hist', be=bool(be), ops=[list(x) for x in ops],
                    affs=[dict(case_of(a), axis_aligned=a['axis_aligned']) for a in affs])
        o = obs_hist(case)
        chk.count(key=('hist', i, tuple(tuple(x) for x in case['ops']), tuple(case['affs'][-1]['A'])),
                  tag='hist:%d_ops' % len(ops), sample=case if i == 2 else None)
        for ver in (1, 2):
            if o[ver]['err']:
                chk.refusal('KeyError')
        ok = True
        for pred, known in pred_hist(case, o):
            ok = handle_pred(chk, case, pred, known,
                             impl_out={v: (None if o[v]['Q'] is None else o[v]['Q'].tolist()) for v in (1, 2)}) and ok
        cid = f'hi{i}'
        preds[cid] = ok
        for (ln, exp, what) in lines_hist(cid, case, o):
            lines.append(ln)
            expect[ln.split()[0]] = (exp, what, case)
        # the same through the image API: an image (or a reused header) that carried affs[0], then
        # set_sform(None, 0) + set_qform(last), save, load
        last = [idx for k, c, idx in ops if k == 'q' and idx is not None][-1]
        if last != 0:
            a, a0 = affs[last], affs[0]
            cls = ('n1', 'n2', 'n1p', 'n2p')[i % 4]
            case = case_of(a, scn='imgq', cls=cls, qcode=1 + i % 5, axis_aligned=a['axis_aligned'],
                           A0=[float(x).hex() for x in a0['A'].ravel()], reuse=bool(i % 2))
            oq = obs_imgq(case)
            chk.count(key=('imgq-hist', cls, tuple(case['A']), tuple(case['A0'])), tag=f"imgq-history:{cls}")
            pred, known = pred_imgq(case, oq)
            preds[f'qh{i}'] = handle_pred(chk, case, pred, known,
                                          impl_out=None if oq['refused'] else str(oq['loaded_affine'].tolist()))

    # ---- Analyze, SPM99, SPM2, MGH
    others = [(a, cls, None) for a in core for cls in ('ana', 'spm99', 'spm2', 'mgh')]
    for k, a in enumerate(rand):
        for cls in ('ana', 'spm99', 'spm2', 'mgh'):
            r = rng.random()
            others.append((a, cls, None if r < 0.5 else rng.choice(['same', 'close', 'close2', 'far'])))
    # plain Analyze headers whose fallback affine is (close to) the image affine: the only way the shortcut can fire
    twostep = {}
    for k, z in enumerate([(1.0, 1.0, 1.0), (2.0, 3.0, 4.0), (0.4296875, 0.5, 5.5), (0.9, 1.1, 2.3), (0.1, 0.7, 3.3)]):
        A = szaff_py((3, 4, 5), z, True)
        fa = dict(kind='fallback', A=A, rot=False, w=None, refl=None, axis_aligned=True)
        for cls in ('ana', 'spm99', 'spm2'):
            for bk in (None, 'same', 'close'):
                others.append((fa, cls, bk))
        # saved over an existing image that had another affine (real files)
        for cls in ('spm99', 'spm2'):
            twostep[len(others)] = core[(3 * k + 1) % len(core)]['A']
            others.append((fa, cls, None))
    others += [(a, cls, None, e) for (a, cls, e) in edits if cls in ('ana', 'spm99', 'spm2', 'mgh')]
    for i, oscen in enumerate(others):
        a, cls, bkind = oscen[:3]
        shape = [3, 4, 5] if a['kind'] == 'fallback' else [1 + (i * 7) % 9, 1 + (i * 3) % 6, 1 + (i * 5) % 8]
        case = case_of(a, scn='other', cls=cls, bkind=bkind, shape=shape)
        if len(oscen) > 3:
            case['edit'] = oscen[3]
        if bkind is not None and i % 6 == 0 and a['kind'] != 'fallback':
            case['hshape'] = [2, 2, 2]
        if i % 89 == 3:
            case['via'] = [chk.workdir, cls]
        if i in twostep:
            case['via'] = [chk.workdir, cls]
            case['twostep'] = [float(x).hex() for x in twostep[i].ravel()]
        o = obs_other(case)
        nontriv = bool(np.count_nonzero(a['A'][:3, :3] - np.diag(np.diag(a['A'][:3, :3]))))
        chk.count(key=(cls, tuple(case['A']), str(bkind), str(case.get('edit'))) if nontriv else None,
                  tag=(f"{cls}:{a['kind']}:{'hdr' if bkind else 'nohdr'}" if not case.get('edit') else
                       f"edit-then-save:{cls}:{case['edit']['kind']}:{'loaded' if case['edit']['reload_first'] else 'new'}"),
                  sample=case if i in (11,) else None)
        chk.tagc('shortcut:' + ('fired' if (o['hashdr'] and o['c1']) else 'no'))
        pred, known = pred_other(case, o)
        cid = f'o{i}'
        preds[cid] = handle_pred(chk, case, pred, known, impl_out=str(o['loaded_affine'].tolist()))
        ls, num = lines_other(cid, case, o)
        for (ln, exp, what) in ls:
            lines.append(ln)
            expect[ln.split()[0]] = (exp, what, case)
        for (what, got, want) in num:
            numdis.append((cid, case, what, got, want))
        if bkind is not None and len(acp) < 600:
            acp.append((a['A'].ravel().tolist(), o['best0'].ravel().tolist()))
    allclose_cases(chk, lines, expect, acp)

    # ---- run the model, diff
    mod = run_model(PROP, lines)
    ndis = 0
    for cid, (exp, what, case) in expect.items():
        got = mod.get(cid, '<missing>')
        d = cmp_model(exp, got)
        if d is not None:
            ndis += 1
            chk.disagreements += 1
            base = cid.split('.')[0]
            if ndis <= 5 and preds.get(base, True):
                chk.violation('correspondence', case=case, model_output=d[0], impl_output=d[1],
                              predicate=f'model and implementation disagree at: {what}; the property predicate holds on this case',
                              found_input=False, theorem='correspondence C04/Model.v <-> nibabel')
    for (cid, case, what, got, want) in numdis:
        chk.disagreements += 1
        if preds.get(cid, True):
            chk.violation('correspondence', case=case, model_output=want, impl_output=got,
                          predicate=f'numeric tie broken at: {what}', found_input=False,
                          theorem='correspondence C04/ModelR.v <-> nibabel (stated tolerance)')
    chk.extra['tolerances'] = TOL
    chk.extra['measured_worst'] = dict(sorted(MEASURED.items()))
    chk.extra['unproved_statements'] = [
        'float layer: no theorem bounds the rounding error of set_qform/get_qform/quat2mat/mat2quat/MGH/SPM .mat; '
        'the tolerances in `tolerances` are measured (ideal-arithmetic treatment); the only exact-float statement is '
        'the binary64 witness C04_spm_mat_roundtrip_float_refuted',
        'C04_quat_roundtrip (full: every unit quaternion with w >= 0 is recovered from b,c,d) is false of the faithful '
        'model for 0 < w^2 < |threshold|: proved as C04_quat_roundtrip_partial + C04_fillpositive_near180_refuted; '
        'C04_qform_roundtrip_ideal carries the same exclusion (finding S-C04c)',
        'np.linalg.svd / eigh are oracles (polar, eigmax): C04_qform_roundtrip_ideal is conditional on their three '
        'contracts (shown satisfiable by C04_qform_oracles_satisfiable, not shown to hold of LAPACK)',
        'C04_normalised_quaternion_meets_threshold is stated under the standard rounding model (each stored component '
        '= exact normalised component x (1 + delta), |delta| <= u): it is not derived from an IEEE model of '
        'q / sqrt(q @ q) in longdouble; the probe S_C04d and the exact-180 NIfTI-2 cases check it on every run',
        'update_header theorem is over opaque values: `close` (np.allclose) is an input of the model; its exact-rational '
        'definition Model.allclose is compared with np.allclose on every run but no theorem links the two',
    ]
    # ---- cross-check extraction against evaluation inside Coq
    pairs = []
    for sc in (0, 1, 5):
        for qc in (0, 2):
            want = 'SrcS' if sc else 'SrcQ' if qc else 'SrcB'
            pairs.append((f'match best_src {sc} {qc} with {want} => true | _ => false end', f'best {sc} {qc}'))
    for old, code, ha, want in ((0, None, 1, 2), (3, None, 1, 3), (3, None, 0, 0), (0, 4, 1, 4), (0, 9, 1, None)):
        c = 'None' if code is None else f'(Some {code})'
        w = 'false' if want is None else f'Z.eqb c {want}'
        pairs.append((f'match resolve_code xform_code_values {old} {c} {"true" if ha else "false"} with Some c => {w} '
                      f'| None => {"true" if want is None else "false"} end', f'code {old} {code} {ha}'))
    nv = 0
    for cid, (exp, what, case) in expect.items():
        if cid.endswith('.m') and cid.startswith('n') and nv < 12 and isinstance(exp, str) and case['cls'] in ('n2', 'n2p'):
            ln = [l for l in lines if l.startswith(cid + ' ')][0].split()
            (_, _, be, ver, hashdr, sc, qc, sr, p0, px, qu, qo, hd, shape, c1, c2, a12, tab, dp, zs, bcd) = ln
            cl = lambda s: '[' + s.strip('[]').replace(',', ';') + ']'
            tb = lambda s: 'true' if s == '1' else 'false'
            hdr = f'(mkN {sc} {cl(sr)} {qc} {p0} {cl(px)} {cl(qu)} {cl(qo)} {cl(hd)})'
            ab = '[' + ';'.join(str(x) for x in bytes.fromhex(exp.split()[3][1:])) + ']'
            pairs.append((f'match nifti_save_load xform_code_values aligned_code unknown_code Z (fun z => z) '
                          f'4607182418800017408 13830554455654793216 (fun _ => mkQ {tb(dp)} {cl(zs)} {cl(bcd)}) '
                          f'{"(Some " + hdr + ")" if hashdr == "1" else "None"} {hdr} {cl(shape)} {cl(a12)} {tb(c1)} {tb(c2)} '
                          f'with Some (h2, _) => list_beq Z Z.eqb (affine_block {tb(be)} n2_cw n2_fw h2) {ab} | None => false end',
                          f'nifti {cid}'))
            nv += 1
    # NumPy's float64 -> float32 cast and back == Flocq narrow / widen (C04_sform_float32_exact)
    fvals = [0.1, -0.1, 1.0, 1e-40, -3e-46, 1e39, -1e39, 16777217.0, 0.0, -0.0, 3.4028235677973366e38,
             1.401298464324817e-45, 2.5e-45, 1.0000000596046448, 1.00000017881393433]
    fvals += [float(x) for x in core[9]['A'][:3, :].ravel()] + [float(x) for x in rand[0]['A'][:3, :].ravel()]
    fvals += [float(x) for x in rand[min(5, len(rand) - 1)]['A'][:3, :].ravel()]
    for v in fvals:
        b32_ = fieldbits(v, 1)
        pairs.append((f'narrow_bits_ok {f64bits(v)} {b32_}', f'float32 cast of {v!r}'))
        pairs.append((f'widen_bits_ok {b32_} {f64bits(fieldvalue(b32_, 1))}', f'float64 of float32 {v!r}'))
    imports = ('From Coq Require Import ZArith List Bool.\n'
               'From NV Require Import Base.Bytes C04.Tables C04.Model C04.LemmasF32.\n'
               'Import ListNotations. Open Scope Z_scope.\n'
               'Scheme Equality for list.\n')
    ncase, bad = vm_crosscheck(PROP, imports, pairs)
    chk.vm = {'cases': ncase, 'disagreements': len(bad)}
    if bad:
        chk.disagreements += 1
        chk.violation('correspondence', case={'vm_crosscheck': [pairs[b][1] if isinstance(b, int) and b < len(pairs) else b for b in bad]},
                      predicate='extracted model / implementation bytes disagree with vm_compute evaluation of the model',
                      found_input=False, theorem='extraction cross-check')


def replay(chk, obj):
    ensure_impl_path()
    c = obj.get('case')
    if not isinstance(c, dict) or 'scn' not in c:
        if obj.get('inputs', {}) and obj['inputs'].get('probe_fn'):
            import defect_probes
            r = defect_probes.PROBES[obj['inputs']['probe_fn']]()
            print('defect present' if r else 'defect absent')
            return 1 if r else 0
        print('nothing to replay:', obj.get('predicate'))
        return 1
    scn = c['scn']
    res = []
    if scn == 'nifti':
        c = dict(c)
        c.pop('via', None)
        o = obs_nifti(c)
        print('refused:', o['refused']) if o['refused'] else print('loaded affine:\n', o['loaded_affine'])
        res = [pred_nifti(c, o)] if not o['refused'] else [('refused: ' + o['refused'], None)]
    elif scn == 'hdr':
        res = pred_hdr(c, obs_hdr(c))
    elif scn == 'imgq':
        res = [pred_imgq(c, obs_imgq(c))]
    elif scn == 'hist':
        c = dict(c)
        c['ops'] = [tuple(x) for x in c['ops']]
        res = pred_hist(c, obs_hist(c))
    elif scn == 'other':
        c = dict(c)
        c.pop('via', None)
        if c.get('twostep'):
            c['via'] = [chk.workdir, c['cls']]
        o = obs_other(c)
        print('loaded affine:\n', o['loaded_affine'])
        res = [pred_other(c, o)]
    elif scn == 'best':
        import nibabel as nib
        H = nib.Nifti1Header if c['ver'] == 1 else nib.Nifti2Header
        S = np.diag([2.0, 3.0, 4.0, 1.0])
        Qa = np.array([[0, -5.0, 0, 1], [6.0, 0, 0, 2], [0, 0, 7, 3], [0, 0, 0, 1]])
        h = H()
        h.set_data_shape((5, 6, 7))
        h.set_sform(S, c['sc'])
        h.set_qform(Qa, c['qc'])
        b = h.get_best_affine()
        src = 'S' if same_bits(b, h.get_sform()) else 'Q' if same_bits(b, h.get_qform()) else 'B'
        want = 'S' if c['sc'] else 'Q' if c['qc'] else 'B'
        res = [(None if src == want else f'best affine from {src}, expected {want}', None)]
    else:
        print('correspondence-only case; re-run ./check C04 to compare with the model')
        return 1
    bad = [(p, k) for p, k in res if p is not None and k is None]
    for p, k in res:
        if p is not None:
            print(('known finding %s: ' % k if k else 'property fails: ') + p)
    print('property fails on this case' if bad else 'property holds on this case (or only known findings)')
    return 1 if bad else 0
