"""C09 — any load / modify / save history leaves correct files and a live process.

Model: coq/C09/Model.v (symbolic world: which source value + on-disk dtype + affine each file
holds; images = array image | proxy (path, stored dtype, mmap) with a cache that may be a
memory map = alias of its file; save = read, (copy when mapped from the target: fix 0c06baeb),
truncate, write).  Theorems: coq/C09/Props.v.  Platform / source facts (data offsets, MGH
footer size, page size, class-conversion dtype table) are measured from $VERIF_REPO by
gen_tables() into coq/C09/Tables.v and sent on every case line.

Case lines sent to bin/modelrun_c09 (see coq/C09/driver.ml):
  <id> run <fix> <page> <n> <offs> <foots> <conv> <paths> <fs> <imgs> <ops...>
  ops: L<slot><path><T|F|R> (load, mmap on / off / 'r')  F<slot> (get_fdata + touch every element)
       U<slot> (uncache)  E<slot> (edit a header field)  D<slot> (set_data_dtype f8<->f4)
       S<slot><path> (nib.save)  B<slot> (to_bytes / from_bytes)  T<slot><path> (img.to_filename)
       C<slot><slot2> (slot2 := type(img).from_image(img): two image objects, one dataobj)  M<slot> (edit np.asanyarray(dataobj))
       A<slot><slot2><a|f|v> (slot2 := a NEW image of the same class around np.asanyarray(dataobj) / get_fdata() / np.asarray(dataobj))
       I<slot> (set_data_dtype(int16))  W<slot><path> (save as uint8)  X<slot> (save onto a link to /dev/full)
  result tokens: done | val:<v|G> | saved:<path>:<v|G>:<dtype>:<affine> | bytes:<v|G>:<dtype>:<affine>
                 | ref:<refusal> | crash | dead      (G = garbage: not compared)
Histories run in CHILD processes (harness/c09_child.py), batched, with sentinel lines; a child
killed by SIGBUS = `crash` at the operation that had started.
"""
import itertools
import json
import mmap
import os
import subprocess
from concurrent.futures import ThreadPoolExecutor

import numpy as np

import common
from common import Check, ensure_impl_path, run_model, run_model_parallel, vm_crosscheck

PROP = 'C09'
SMALL = (2, 3, 4)        # 24 voxels: 192 bytes as float64 - inside one page
BIG = (16, 16, 8)        # 2048 voxels: 16384 bytes as float64, 8192 as float32 - beyond one page
# at most one non-unit axis: both C- and F-contiguous (a "contiguous copy" of such a map is the map)
VECS = [(4096, 1, 1), (1, 4096, 1), (1, 1, 1, 4096)]
EXT = {'N': '.nii', 'P': '.img', 'M': '.mgh', 'A': '.img'}

S_C09B = ('get_fdata() of an image whose cached array is the memory map of a plain file (float64 NIfTI) that a later '
          'save of ANOTHER image object has overwritten with a shorter file: SIGBUS when the data exceed a page (silently '
          'different values otherwise); inherent to mmap (the same image saving onto its own file drops its caches '
          'since 29b7b6ce); likewise an image whose OWN array is such a map (built around np.asanyarray(dataobj) / get_fdata() / '
          'np.asarray(dataobj)) after ANOTHER image object has rewritten the file (its own save onto the file re-points it since 4923d550)')
# --------------------------------------------------------------------------- platform / source facts
FACTS = {}


def measure_facts(workdir):
    """Data offsets, trailing bytes, page size and class-conversion dtypes, from the implementation."""
    import nibabel as nib
    from nibabel.freesurfer import MGHImage
    if FACTS:
        return FACTS
    K = {'N': nib.Nifti1Image, 'P': nib.Nifti1Pair, 'M': MGHImage, 'A': nib.Spm2AnalyzeImage}
    d = os.path.join(workdir, 'facts')
    os.makedirs(d, exist_ok=True)
    aff = np.diag([2., 3, 4, 1])
    data = (np.arange(24) % 7 + 1).reshape(SMALL, order='F')
    off, foot = {}, {}
    for f in 'NPMA':
        dt = np.float32
        fn = os.path.join(d, 'm' + EXT[f])
        K[f](data.astype(dt), aff).to_filename(fn)
        img = nib.load(fn)
        off[f] = int(img.dataobj.offset)
        foot[f] = os.path.getsize(fn) - off[f] - data.size * 4
        if not (0 <= off[f] < 4096 and 0 <= foot[f] < 4096):
            raise RuntimeError(f'unexpected layout of {f}: offset {off[f]} trailing {foot[f]}')
    conv = []
    # the class a file gets when an image of class a is saved under a name of family b ('.img' names hold a
    # NIfTI pair or an SPM Analyze image; family A = family P = '.img')
    cls_of = {nib.Nifti1Image: 'N', nib.Nifti1Pair: 'P', MGHImage: 'M', nib.Spm2AnalyzeImage: 'A'}
    tclass = {}
    for a in 'NPMA':
        for b in 'NPM':
            fn = os.path.join(d, f't_{a}{b}' + EXT[b])
            nib.save(K[a](data.astype(np.float32), aff), fn)
            k = type(nib.load(fn))
            if k not in cls_of:
                raise RuntimeError(f'save of {a} under a {b} name loads as {k}: outside the modelled classes')
            tclass[(a, b)] = cls_of[k]
        tclass[(a, 'A')] = tclass[(a, 'P')]
    for a in 'NPMA':
        for b in 'NPM':
            if a == b or tclass[(a, b)] == a:
                continue
            for dt in ('f4', 'f8', 'i2', 'u1'):
                if a == 'M' and dt == 'f8':
                    continue
                b_cls = tclass[(a, b)]
                img = K[a](data.astype(np.float32 if a == 'M' else np.float64), aff)
                img.set_data_dtype({'f4': np.float32, 'f8': np.float64, 'i2': np.int16, 'u1': np.uint8}[dt])
                fn = os.path.join(d, f'c_{a}{b}{dt}' + EXT[b])
                try:
                    nib.save(img, fn)
                except Exception:
                    continue
                r = np.dtype(nib.load(fn).get_data_dtype())
                names = {('f', 4): 'f4', ('f', 8): 'f8', ('i', 2): 'i2', ('u', 1): 'u1'}
                if (r.kind, r.itemsize) not in names:
                    raise RuntimeError(f'conversion {a}->{b} of {dt} gives {r}: outside the modelled dtypes')
                conv.append((a, b_cls, dt, names[(r.kind, r.itemsize)]))
    # classes whose header has a slope but no intercept field (the writer cannot shift the data)
    nointer = {f: bool(getattr(K[f].header_class, 'has_data_slope', False) and
                       not getattr(K[f].header_class, 'has_data_intercept', False)) for f in 'NPMA'}
    conv = sorted(set(conv))
    FACTS.update(off=off, foot=foot, conv=conv, page=mmap.PAGESIZE, nointer=nointer, tclass=tclass)
    import shutil
    shutil.rmtree(d, ignore_errors=True)
    return FACTS


def gen_tables():
    ensure_impl_path()
    wd = os.path.join(common.VERIF, '.work', f'C09.facts.{os.getpid()}')
    os.makedirs(wd, exist_ok=True)
    try:
        f = measure_facts(wd)
    finally:
        import shutil
        shutil.rmtree(wd, ignore_errors=True)
    fm = {'N': 'Nii', 'P': 'Pair', 'M': 'Mgh', 'A': 'Spm'}
    txt = ['(* C09/Tables.v — GENERATED by harness/c09.py:gen_tables from the imported nibabel ($VERIF_REPO).',
           '   data offsets and trailing bytes of the image file per format, mmap.PAGESIZE, and the on-disk',
           '   dtype chosen when nib.save() converts between image classes.  Do not edit. *)',
           'From Coq Require Import ZArith List.', 'From NV Require Import C09.Model.', 'Import ListNotations.',
           'Open Scope Z_scope.',
           'Definition platform_off (f : fmt) : Z := match f with ' +
           ' | '.join(f'{fm[k]} => {f["off"][k]}' for k in 'NPMA') + ' end.',
           'Definition platform_foot (f : fmt) : Z := match f with ' +
           ' | '.join(f'{fm[k]} => {f["foot"][k]}' for k in 'NPMA') + ' end.',
           f'Definition platform_page : Z := {f["page"]}.',
           'Definition platform_conv : list (fmt * fmt * dtype * dtype) := [' +
           '; '.join(f'({fm[a]}, {fm[b]}, {d.upper()}, {r.upper()})' for a, b, d, r in f['conv']) + '].',
           'Definition platform_nointer (f : fmt) : bool := match f with ' +
           ' | '.join(f'{fm[k]} => {"true" if f["nointer"][k] else "false"}' for k in 'NPMA') + ' end.',
           'Definition platform_tclass (x n : fmt) : fmt := match x, n with ' +
           ' | '.join(f'{fm[a]}, {fm[b]} => {fm[f["tclass"][(a, b)]]}' for a in 'NPMA' for b in 'NPMA') + ' end.',
           '(* scale: the scale identities the array writers compute, per history; mixed: data of both signs;',
           '   lowdim: fewer than three axes *)',
           'Definition platform_cfg (n : Z) (paths : list pinfo) (fids : list nat) (fx : bool)',
           '    (scale : list (fmt * dtype * nat * nat)) (mixed lowdim : bool) : cfg :=',
           '  mkCfg n platform_page paths fids platform_off platform_foot platform_conv fx scale platform_nointer',
           '        mixed lowdim true true platform_tclass true true.', '']
    p = os.path.join(common.COQ, 'C09', 'Tables.v')
    new = '\n'.join(txt)
    if not os.path.exists(p) or open(p).read() != new:
        with open(p, 'w') as fh:
            fh.write(new)


# --------------------------------------------------------------------------- configurations
def path(name, fmt, init=None, link=None):
    """A path NAME.  link = (kind, index of the name it aliases): 'sym' symbolic link, 'hard' hard link,
    'abs' the absolute spelling of the same name (the others are relative to the child's cwd)."""
    gz = name.endswith(('.gz', '.mgz'))
    return dict(name=name, fmt=fmt, gz=gz, init=init, link=link)


def file_ids(paths):
    """name index -> file identity (names linked to another name share its identity)"""
    ids, nxt = [], 0
    for p in paths:
        if p['link'] is not None:
            ids.append(ids[p['link'][1]])
        else:
            ids.append(nxt)
            nxt += 1
    return ids


CONFIGS = {
    'nii': [path('a.nii', 'N', (0, 'f8', 0)), path('b.nii', 'N', (1, 'f8', 1)), path('a.nii.gz', 'N')],
    'nii-mixed': [path('a.nii', 'N', (0, 'f4', 0)), path('b.nii.gz', 'N', (1, 'f8', 1)), path('c.nii', 'N', (3, 'f8', 3))],
    'pair': [path('a.img', 'P', (0, 'f8', 0)), path('b.img', 'P', (1, 'f4', 1)), path('a.img.gz', 'P')],
    'mgh': [path('a.mgh', 'M', (0, 'f4', 0)), path('b.mgz', 'M', (1, 'f4', 1)), path('c.mgh', 'M')],
    'cross': [path('a.nii', 'N', (0, 'f8', 0)), path('a.mgh', 'M', (1, 'f4', 1)), path('a.img', 'P')],
    'cross2': [path('a.img', 'P', (0, 'f8', 0)), path('a.nii', 'N'), path('a.mgz', 'M')],
    # SPM2 Analyze triples (.img/.hdr/.mat): a.img has an oblique affine (only the .mat can hold it), b.img the
    # affine its header gives by itself; all names of the set belong to this class
    'spm': [path('a.img', 'A', (0, 'f8', 2)), path('b.img', 'A', (1, 'f8', 3)), path('c.img', 'A')],
    # 1-D / 2-D volumes stored as int16 with slope 2, intercept 1 (MGHImage pads them to three axes by
    # reshaping the proxy); predicate-only histories
    'lowdim': [path('a.nii', 'N', (0, 'i2s', 0)), path('b.mgh', 'M'), path('c.nii', 'N')],
    'lowdim-z': [path('a.nii', 'N', (0, 'i2s', 0)), path('b.mgz', 'M'), path('c.nii.gz', 'N')],
    # class conversions with SPM Analyze: Analyze -> NIfTI single / MGH by extension; a NIfTI or MGH image saved
    # back under the .img name replaces the Analyze triple by a NIfTI pair (the class of a .img name is its content's)
    'spm-cross': [path('a.img', 'A', (0, 'f8', 2)), path('b.nii', 'N'), path('c.mgh', 'M')],
    'img-mix': [path('a.img', 'A', (0, 'f8', 2)), path('b.img', 'P', (1, 'f8', 1)), path('c.img', 'P')],
    # one file reached by several names: saving onto "another name" is saving onto the mapped file
    'nii-links': [path('a.nii', 'N', (0, 'f8', 0)), path('s.nii', 'N', link=('sym', 0)), path('h.nii', 'N', link=('hard', 0))],
    'nii-links2': [path('a.nii', 'N', (0, 'f4', 0)), path('h.nii', 'N', link=('hard', 0)), path('a.nii', 'N', link=('abs', 0))],
    'nii-links3': [path('a.nii', 'N', (0, 'f8', 0)), path('a.nii', 'N', link=('abs', 0)), path('b.nii', 'N', (1, 'f8', 1))],
    'pair-links': [path('a.img', 'P', (0, 'f8', 0)), path('s.img', 'P', link=('sym', 0)), path('h.img', 'P', link=('hard', 0))],
    'pair-links2': [path('a.img', 'P', (0, 'f4', 0)), path('h.img', 'P', link=('hard', 0)), path('a.img', 'P', link=('abs', 0))],
    'mgh-links': [path('a.mgh', 'M', (0, 'f4', 0)), path('s.mgh', 'M', link=('sym', 0)), path('h.mgh', 'M', link=('hard', 0))],
    'mgh-links2': [path('a.mgh', 'M', (0, 'f4', 0)), path('a.mgh', 'M', link=('abs', 0)), path('b.mgh', 'M', (1, 'f4', 1))],
}
LINK_CONFIGS = [c for c in CONFIGS if 'links' in c]
UNMODELLED = ()      # every family is in the symbolic model now
LOWDIM_SHAPES = [(24,), (4, 6), (4096,), (64, 64)]
ARRAY_SLOT = dict(v=2, fmt='N', dt='f8', aff=2)
ARRAY_SLOT_SPM = dict(v=2, fmt='A', dt='f8', aff=3)

ALPHA = ['L00T', 'L00F', 'L01T', 'L10T', 'L11T', 'F0', 'F1', 'U0', 'E0', 'D0', 'D1', 'S00', 'S01', 'S10', 'S11', 'B0']
ALL_OPS = [f'L{s}{p}{m}' for s in '01' for p in '012' for m in 'TFR'] + [f'{k}{s}' for k in 'FUEDBXI' for s in '01'] + \
    [f'S{s}{p}' for s in '01' for p in '012'] + [f'T{s}{p}' for s in '01' for p in '012'] + ['C01', 'C10', 'M0', 'M1'] + \
    ['A01a', 'A10a', 'A01f', 'A10f', 'A01v']


PRESET = (0.5, 0.5)      # slope, intercept of the 'i2s' sources (raw 2V-1 decodes to V)
_SCALE_CACHE = {}


def scale_table(shape, shift):
    """The scale factors nibabel's array writers compute for each (class, integer dtype, value array) of a history:
    ([(fmt, dt, v, id)], [[slope, inter, id]]); id 1 is the preset of the 'i2s' sources."""
    key = (tuple(shape), shift)
    if key in _SCALE_CACHE:
        return _SCALE_CACHE[key]
    import c09_child
    from nibabel.arraywriters import WriterError, get_slope_inter, make_array_writer
    c09_child.SHIFT[0] = shift
    ids = {PRESET: 1}
    rows = []
    for f, (hs, hi) in (('N', (True, True)), ('P', (True, True)), ('A', (True, False))):
        for dt in ('i2', 'u1'):
            for v in range(c09_child.NVAL):
                data = c09_child.value(v, shape).astype(np.float64)
                try:
                    w = make_array_writer(data, np.dtype({'i2': np.int16, 'u1': np.uint8}[dt]), hs, hi)
                except WriterError:
                    continue
                sl, it = get_slope_inter(w)
                k = (float(1.0 if sl is None else sl), float(0.0 if it is None else it))
                if k == (1.0, 0.0):
                    rows.append((f, dt, v, 0))
                    continue
                k = (float('%.6g' % k[0]), float('%.6g' % k[1]))
                if k not in ids:
                    ids[k] = len(ids) + 1
                rows.append((f, dt, v, ids[k]))
    c09_child.SHIFT[0] = 0
    out = (rows, [[a, b, i] for (a, b), i in ids.items()])
    _SCALE_CACHE[key] = out
    return out


def history_flags(shape, tag, ops, cfgname):
    shift = 10 if tag == 'refused_save' else 0
    approx = any(t[0] in 'IW' for t in ops) or any(p['init'] is not None and p['init'][1] == 'i2s' for p in CONFIGS[cfgname])
    return shift, approx


def model_line(hid, cfgname, shape, imgs, ops, facts, fix=1, shift=0):
    paths = CONFIGS[cfgname]
    n = int(np.prod(shape))
    conv = ';'.join(f'{a}:{b}:{d}:{r}' for a, b, d, r in facts['conv']) or '-'
    rows, _ = scale_table(shape, shift)
    scale = ';'.join(f'{f}:{d}:{v}:{k}' for f, d, v, k in rows) or '-'
    flags = f"{int(shift != 0)}{int(len(shape) < 3)}1111"
    return (f"{hid} run {fix} {facts['page']} {n} " + ','.join(str(facts['off'][k]) for k in 'NPMA') + ' ' +
            ','.join(str(facts['foot'][k]) for k in 'NPMA') + ' ' + conv + ' ' + scale + ' ' +
            ''.join(str(int(facts['nointer'][k])) for k in 'NPMA') + ' ' + flags + ' ' +
            ''.join(facts['tclass'][(a, b)] for a in 'NPMA' for b in 'NPMA') + ' ' +
            ','.join(p['fmt'] + str(int(p['gz'])) for p in paths) + ' ' +
            ','.join(str(i) for i in file_ids(paths)) + ' ' +
            ','.join('-' if p['init'] is None else (('%d:i2:%d:1' % (p['init'][0], p['init'][2]) if p['init'][1] == 'i2s' else
                                                     '%d:%s:%d:0' % p['init']) + ':' + p['fmt']) for p in paths if p['link'] is None) + ' ' +
            ','.join('-' if s is None else f"A:{s['v']}:{s['fmt']}:{s['dt']}:{s['aff']}" for s in imgs) + ' ' +
            ' '.join(ops))


# --------------------------------------------------------------------------- child runner
def run_children(hists, workdir, nproc, batch=250, crash_cap=60):
    """hists: list of child job dicts -> {id: {'res': [tokens], 'pred': [(k, what, sig)], 'ops_info': {k: str}}}"""
    child = os.path.join(os.path.dirname(os.path.abspath(__file__)), 'c09_child.py')
    env = common.impl_env()
    batches = [hists[i:i + batch] for i in range(0, len(hists), batch)]
    out = {}
    stats = {'children': 0, 'crashes': 0, 'timeouts': 0}

    def run_batch(bi_jobs):
        bi, jobs = bi_jobs
        res = {}
        todo = list(jobs)
        rnd = 0
        while todo:
            if stats['crashes'] + stats['timeouts'] > crash_cap:
                # far more dead children than the known findings explain: stop (violations are reported
                # from what has run; the rest is recorded as skipped)
                for j in todo:
                    res[str(j['id'])] = {'res': [], 'pred': [], 'info': {}, 'status': 'skipped'}
                break
            rnd += 1
            wd = os.path.join(workdir, f'b{bi}_{rnd}')
            os.makedirs(wd, exist_ok=True)
            jf = os.path.join(wd, 'jobs.json')
            with open(jf, 'w') as f:
                json.dump(todo, f)
            stats['children'] += 1
            try:
                p = subprocess.run([common.PY, child, jf, wd], capture_output=True, text=True, env=env,
                                   timeout=120 + len(todo))
                rc, so, se = p.returncode, p.stdout, p.stderr
            except subprocess.TimeoutExpired as e:
                rc, so, se = 'timeout', (e.stdout or b'').decode() if isinstance(e.stdout, bytes) else (e.stdout or ''), ''
                stats['timeouts'] += 1
            cur = None
            ended = set()
            pending = None
            for ln in so.splitlines():
                w = ln.split(' ', 3)
                if w[0] == 'BEGIN':
                    cur = w[1]
                    res[cur] = {'res': [], 'pred': [], 'info': {}, 'status': 'running'}
                elif w[0] == 'OP':
                    pending = (w[1], int(w[2]))
                    if len(w) > 3 and ' ' in w[3]:
                        res[w[1]]['info'][int(w[2])] = w[3].split(' ', 1)[1]
                elif w[0] == 'RES':
                    res[w[1]]['res'].append(w[3])
                    pending = None
                elif w[0] == 'PRED':
                    what, sig = w[3].split(' sig=')
                    res[w[1]]['pred'].append((int(w[2]), what, sig))
                elif w[0] == 'END':
                    res[w[1]]['status'] = 'ended'
                    ended.add(w[1])
            ids = [str(j['id']) for j in todo]
            if rc == 0 and len(ended) == len(todo):
                todo = []
                continue
            # the child died: attribute to the operation that had started
            if pending is not None and res.get(pending[0], {}).get('status') == 'running':
                hid, k = pending
                r = res[hid]
                sig = 'signal %s' % (-rc) if isinstance(rc, int) and rc < 0 else f'exit {rc}: {se[-200:]}'
                r['status'] = 'crashed'
                r['crash'] = (k, sig)
                r['res'].append('crash' if isinstance(rc, int) and rc < 0 else 'died:' + sig.replace(' ', '_'))
                stats['crashes'] += 1
                done_upto = ids.index(hid)
            elif cur is not None and cur in ids:
                done_upto = ids.index(cur) if res[cur]['status'] == 'ended' else ids.index(cur) - 1
                if res[cur]['status'] != 'ended':
                    res[cur] = {'res': ['died:between_ops'], 'pred': [], 'info': {}, 'status': 'crashed',
                                'crash': (len(res[cur]['res']), f'exit {rc}: {se[-200:]}')}
                    done_upto = ids.index(cur)
            else:
                # nothing ran at all: report once and give up on this batch
                for j in todo:
                    res[str(j['id'])] = {'res': ['died:child_failed'], 'pred': [], 'info': {}, 'status': 'crashed',
                                         'crash': (0, f'exit {rc}: {se[-300:]}')}
                todo = []
                continue
            todo = todo[done_upto + 1:]
        return res

    with ThreadPoolExecutor(nproc) as ex:
        for r in ex.map(run_batch, list(enumerate(batches))):
            out.update(r)
    return out, stats


# --------------------------------------------------------------------------- comparison
def tok_match(m, i):
    """Model token vs implementation token; the model's G (garbage) is a wildcard for the value."""
    if m == i:
        return True
    mp, ip = m.split(':'), i.split(':')
    if mp[0] != ip[0] or len(mp) != len(ip):
        return False
    if mp[0] == 'val':
        return mp[1] == 'G'
    if mp[0] == 'saved':      # garbage data: neither the value nor the scale factors computed from it are compared
        return mp[1] == ip[1] and mp[2] == 'G' and mp[3:5] == ip[3:5]
    if mp[0] == 'bytes':
        return mp[1] == 'G' and mp[2:] == ip[2:]
    return False


PLAN_INFO = {}


def plan_cases(chk):
    rng = chk.rng
    thorough = chk.tier == 'thorough'
    plan = []      # (cfgname, shape, imgs, ops, tag)

    def add(cfgname, shape, imgs, prefix, depth, first=None, tag='exhaustive'):
        firsts = first if first is not None else ALPHA
        for f in firsts:
            for rest in itertools.product(ALPHA, repeat=depth - 1):
                ops = list(prefix) + [f] + list(rest)
                # an operation on a slot that holds no image yet is refused and changes nothing: the
                # history is equivalent to the shorter one without it, which is enumerated anyway
                loaded = [imgs[0] is not None, imgs[1] is not None]
                skip = False
                for t in ops:
                    if t[0] == 'L':
                        loaded[int(t[1])] = True
                    elif not loaded[int(t[1])]:
                        skip = True
                        break
                if not skip:
                    plan.append((cfgname, shape, imgs, ops, 'enum'))

    first_loads = ['L00T', 'L00F', 'L01T']
    for cfgname in CONFIGS:
        if cfgname.startswith('lowdim'):
            continue
        for shape in (SMALL, BIG):
            if not thorough and cfgname in LINK_CONFIGS and (shape == SMALL or cfgname.endswith(('2', '3'))):
                continue      # quick: three of the link name sets get the generic depth-3 core, on big data only
            add(cfgname, shape, [None, None], [], 3 if not thorough else 4, first=first_loads)
    # several names of one file: also loads through the third name, and saves onto it
    for cfgname in LINK_CONFIGS:
        for shape in (SMALL, BIG):
            for l in ('L02T', 'L01T', 'L00T'):
                for sv in ('S00', 'S01', 'S02'):
                    plan.append((cfgname, shape, [None, None], [l, sv, 'F0'], 'exhaustive'))
                    plan.append((cfgname, shape, [None, None], [l, 'F0', sv, 'F0', 'B0'], 'exhaustive'))
    for cfgname in ('nii', 'cross') if thorough else ('nii',):
        add(cfgname, SMALL, [None, ARRAY_SLOT], [], 3, first=first_loads + ['S10', 'S11', 'F1'])
    # to_filename (no class conversion), a second image object on the same dataobj (from_image), in-place edits of
    # np.asanyarray(dataobj), mixed with loads, reads and saves
    alpha2 = ['T00', 'T01', 'C01', 'M0', 'S00', 'S01', 'F0', 'F1', 'D0', 'U0', 'S10', 'S11', 'T11', 'M1', 'L10T']
    for cfgname in ('nii', 'pair', 'mgh', 'cross', 'spm', 'spm-cross', 'img-mix') if not thorough else [c for c in CONFIGS if not c.startswith('lowdim')]:
        for shape in (SMALL, BIG):
            if not thorough and shape == BIG and cfgname not in ('nii', 'pair'):
                continue
            for f in first_loads:
                for rest in itertools.product(alpha2, repeat=2):
                    ops = [f] + list(rest)
                    if any(t[0] in 'TCM' for t in ops) and not (ops[1][1] == '1' and ops[1][0] != 'L'):
                        plan.append((cfgname, shape, [None, None], ops, 'enum'))
    # mmap='r' (read-only map): same aliasing as the copy-on-write map; edits of the array are refused
    for cfgname in ('nii', 'pair', 'mgh', 'nii-links'):
        for shape in (SMALL, BIG):
            for ops in (['L00R', 'S00', 'F0'], ['L00R', 'F0', 'M0', 'S00', 'F0'], ['L00R', 'F0', 'L10R', 'D1', 'S10', 'F1', 'U0', 'F0'],
                        ['L00R', 'M0', 'S01', 'L11R', 'F1', 'S10', 'F0']):
                plan.append((cfgname, shape, [None, None], ops, 'exhaustive'))
    for shape in (SMALL, BIG):
        for ops in (['L00T', 'F0', 'C01', 'D0', 'S00', 'F0', 'F1'], ['L00T', 'C01', 'S10', 'F0', 'F1', 'S01'],
                    ['L00T', 'C01', 'F1', 'D1', 'T10', 'F1', 'F0'], ['L00T', 'M0', 'F0', 'M0', 'T00', 'M0', 'F0']):
            for cfgname in ('nii', 'pair', 'spm', 'nii-links'):
                plan.append((cfgname, shape, [None, None], ops, 'exhaustive'))
    # SPM Analyze <-> NIfTI / MGH: every sequence of saves across the three names after loading, then reloads
    sv3 = ['S00', 'S01', 'S02', 'L01T', 'L02T', 'L00T', 'F0', 'T00', 'T01']
    for cfgname in ('spm-cross', 'img-mix'):
        for shape in (SMALL, BIG):
            for seq in itertools.product(sv3, repeat=3 if (thorough or shape == SMALL) else 2):
                if seq[0][0] != 'L':
                    plan.append((cfgname, shape, [None, None], ['L00T'] + list(seq), 'enum'))
    # a NEW image object of the same class around np.asanyarray(dataobj) (a), get_fdata() (f) or np.asarray(dataobj)
    # (v: a base-class view of the map), then saves onto the mapped file / elsewhere, reads, dtype changes
    alpha3 = ['A01a', 'A01f', 'A01v', 'S10', 'S11', 'F1', 'D1', 'S00', 'F0', 'U0']
    for cfgname in ('nii', 'pair', 'mgh', 'spm', 'nii-links'):
        for shape in (SMALL, BIG):
            for seq in itertools.product(alpha3, repeat=3):
                if seq[0][0] == 'A':
                    plan.append((cfgname, shape, [None, None], ['L00T'] + list(seq), 'enum'))
    for cfgname in ('nii', 'pair', 'mgh', 'spm', 'nii-links'):
        for ops in (['L00T', 'A01v', 'S10'], ['L00T', 'A01v', 'F1', 'T10'], ['L00T', 'A01v', 'S11', 'F1', 'S10']):
            plan.append((cfgname, BIG, [None, None], ops, 'exhaustive'))
    for cfgname in ('nii', 'pair', 'mgh', 'spm', 'cross', 'nii-mixed'):
        for shape in (SMALL, BIG):
            for ops in (['L00F', 'A01a', 'S10', 'F1', 'F0'], ['L00R', 'A01a', 'S10', 'F1'], ['L00T', 'A01a', 'A10a', 'S00', 'F0'],
                        ['L00T', 'F0', 'A01f', 'D0', 'S00', 'F1'], ['L00T', 'A01a', 'S12', 'L02T', 'F0', 'F1'],
                        ['L01T', 'A01a', 'T11', 'S10', 'F1', 'B1']):
                plan.append((cfgname, shape, [None, None], ops, 'exhaustive'))
    # vector-like volumes (one non-unit axis, beyond a page): own-file saves and everything else of depth 2
    for cfgname in ('nii', 'pair', 'mgh'):
        for shape in VECS:
            add(cfgname, shape, [None, None], [], 3, first=['L00T'])
    for cfgname in ('nii-links', 'mgh-links', 'pair-links'):
        for shape in VECS:
            for ops in (['L01T', 'S00', 'F0'], ['L00T', 'S01', 'F0'], ['L02T', 'F0', 'S00', 'F0']):
                plan.append((cfgname, shape, [None, None], ops, 'exhaustive'))
    # SPM Analyze: different images (oblique / header-derived affine) saved onto the same names, any order
    sv = ['S00', 'S01', 'S02', 'S10', 'S11', 'S12', 'F0', 'F1', 'X0']
    for shape, depth in ((SMALL, 3), (BIG, 2)):
        for seq in itertools.product(sv, repeat=depth):
            plan.append(('spm', shape, [None, None], ['L00T', 'L11T'] + list(seq), 'enum'))
    for seq in itertools.product(['S10', 'S11', 'S12', 'L00T', 'S00', 'S02'], repeat=3):
        plan.append(('spm', SMALL, [None, ARRAY_SLOT_SPM], list(seq), 'enum'))
    # a save that fails with ENOSPC (link to /dev/full), then healthy saves
    for cfgname in ('nii', 'pair', 'mgh', 'spm', 'cross'):
        for shape in (SMALL, BIG):
            for ops in (['L00T', 'X0', 'S01', 'F0'], ['L00T', 'F0', 'X0', 'S00', 'F0'], ['L00T', 'D0', 'X0', 'S01', 'S02'],
                        ['L00F', 'X0', 'X0', 'S02', 'B0'], ['L01T', 'X0', 'S00', 'L10T', 'F1']):
                plan.append((cfgname, shape, [None, None], ops, 'exhaustive'))
    # a filled cache that is the memory map itself, then everything of depth 3
    for cfgname in ('nii', 'pair', 'cross'):
        for shape in (SMALL, BIG):
            if not thorough and (cfgname == 'cross' or (cfgname == 'pair' and shape == SMALL)):
                continue
            add(cfgname, shape, [None, None], ['L00T', 'F0'], 3)
    for shape in (BIG,) if not thorough else (SMALL, BIG):
        add('nii', shape, [None, None], ['L00T', 'F0', 'L10T'], 3)
    # mmap=False: the cache is a copy, nothing below may crash or change under the image
    for shape in (BIG,) if not thorough else (SMALL, BIG):
        add('nii', shape, [None, None], ['L00F', 'F0'], 3)
    if thorough:
        for cfgname in ('nii', 'pair'):
            add(cfgname, BIG, [None, None], ['L00T', 'F0'], 4)
        add('nii', BIG, [None, None], ['L00T', 'F0', 'L10T'], 4)
        add('mgh', SMALL, [None, None], ['L00T', 'F0'], 3)
        add('nii-mixed', BIG, [None, None], ['L01T', 'F0', 'L10T'], 3)
    # quick tier: the explicit histories all run; of the enumerated sets a seed-independent core (every third
    # history of each enumeration, in enumeration order) plus a seeded random sample of the rest; thorough: all
    enum = [h for h in plan if h[4] == 'enum']
    plan = [h for h in plan if h[4] != 'enum']
    if thorough:
        plan += [h[:4] + ('exhaustive',) for h in enum]
        sampled = {'enumerated': len(enum), 'core': len(enum), 'random_rest': 0}
    else:
        core = [h for i, h in enumerate(enum) if i % 3 == 0]
        rest = [h for i, h in enumerate(enum) if i % 3 != 0]
        extra = rng.sample(rest, len(rest) // 8)
        plan += [h[:4] + ('exhaustive',) for h in core] + [h[:4] + ('enum_sample',) for h in extra]
        sampled = {'enumerated': len(enum), 'core': len(core), 'random_rest': len(extra)}
    PLAN_INFO.clear()
    PLAN_INFO.update(sampled)
    n_exh = len(plan)
    names = [c for c in CONFIGS if not c.startswith('lowdim')]
    for _ in range(chk.n(1500, 20000)):
        cfgname = rng.choice(names)
        shape = rng.choice([SMALL, BIG, BIG, VECS[rng.randrange(3)]])
        imgs = [None, (ARRAY_SLOT_SPM if cfgname == 'spm' else ARRAY_SLOT) if rng.random() < 0.3 else None]
        depth = rng.randrange(4, 11)
        ops = [rng.choice(['L00T', 'L01T', 'L00F', 'L02T'])]
        w = [3 if o[0] in 'LS' else 2 if o[0] in 'FD' else 1 for o in ALL_OPS]
        ops += rng.choices(ALL_OPS, weights=w, k=depth - 1)
        plan.append((cfgname, shape, imgs, ops, 'random'))
    # fault histories with an INTEGER on-disk dtype (I<slot> = set_data_dtype(int16)): the failing save has
    # already put freshly computed scale factors into the header.  Outside the float-only symbolic model:
    # judged by the direct predicate alone (reload within the quantisation step of the data held before)
    for cfgname in ('nii', 'pair', 'spm'):
        for shape in (SMALL, BIG):
            for ops in (['L00T', 'I0', 'X0', 'S01'], ['L00T', 'I0', 'X0', 'S02', 'S00'], ['L00T', 'I0', 'S01', 'X0', 'S02'],
                        ['L00F', 'I0', 'X0', 'X0', 'S01', 'L11T', 'F1']):
                plan.append((cfgname, shape, [None, None], ops, 'fault_int16'))
    for shape in (SMALL, BIG):
        for ops in (['I1', 'X1', 'S11'], ['I1', 'X1', 'S10', 'S12'], ['I1', 'S12', 'X1', 'S11']):
            plan.append(('nii', shape, [None, ARRAY_SLOT], ops, 'fault_int16'))
            plan.append(('spm', shape, [None, ARRAY_SLOT_SPM], ops, 'fault_int16'))
    # scaled 1-D / 2-D sources moved between formats (NIfTI -> MGH/MGZ -> NIfTI): decoded DATA compared
    for cfgname in ('lowdim', 'lowdim-z'):
        for shape in LOWDIM_SHAPES:
            for ops in (['L00T', 'S01'], ['L00F', 'S01'], ['L00T', 'F0', 'S01', 'S02'], ['L00T', 'S01', 'L11T', 'S12', 'F1'],
                        ['L00T', 'S02', 'L12T', 'S11'], ['L00T', 'S01', 'S00', 'F0']):
                plan.append((cfgname, shape, [None, None], ops, 'scaled_lowdim'))
    # saves the class must refuse (W<slot><path>: uint8 storage of mixed-sign data, SPM Analyze has no intercept)
    # onto the image's own files and onto earlier valid images: nothing on disk may change
    for shape in (SMALL, BIG):
        for ops in (['L00T', 'W00'], ['L00F', 'W00', 'F0'], ['L00T', 'W01', 'L11T', 'F1'], ['L00T', 'F0', 'W00', 'F0', 'S02'],
                    ['L01T', 'W00', 'W01', 'S02'], ['L00T', 'S02', 'W02', 'L12T', 'F1']):
            plan.append(('spm', shape, [None, None], ops, 'refused_save'))
        for ops in (['W10', 'S12'], ['W11', 'L01T', 'F0'], ['S12', 'W12', 'L02T', 'F0']):
            plan.append(('spm', shape, [None, ARRAY_SLOT_SPM], ops, 'refused_save'))
    return plan, n_exh


def run(chk: Check):
    ensure_impl_path()
    chk.rule = ('histories over 2 image slots and 3 path names per configuration (NIfTI single plain/gz, NIfTI .img/.hdr '
                'pair plain/gz, MGH/MGZ, cross-format name sets, and name sets in which a symbolic link, a hard link or '
                'the absolute spelling reach the SAME file as another name - used as load and as save targets), data of 24 voxels (inside one page) and 2048 '
                'voxels (16 KiB as float64: a truncated map gives SIGBUS), optionally an in-memory array image in slot 1. '
                'Exhaustive core: first op a load, then every sequence of depth 3 (quick) / 4 (thorough) over the 16-op '
                'alphabet ' + ' '.join(ALPHA) + ' (minus sequences that address an image slot before it is loaded: '
                'refused no-ops); and every depth-3 continuation of the prefixes [L00T F0] (cache = the '
                'memory map), [L00T F0 L10T] and [L00F F0]; vector-like volumes (4096,1,1), (1,4096,1), (1,1,1,4096) with own-file '
                'saves; SPM2 Analyze triples with an oblique and a header-derived affine saved onto the same names in '
                'every order; saves that fail with ENOSPC (link to /dev/full) followed by healthy ones; the same with an '
                'int16 on-disk dtype, scaled int16 1-D / 2-D sources moved NIfTI -> MGH/MGZ -> NIfTI, and saves SPM Analyze must '
                'refuse (uint8 storage of mixed-sign data) onto own and earlier files (all in the symbolic model: integer '
                'dtypes with scale identities measured from the array writers). Random: depth 4..10 over all 38 ops and 3 paths. A history is '
                'non-trivial when it contains at least one successful save; distinct by (configuration, size, history)')
    chk.assumptions = ['voxel values are small integers exact in float32/float64; every image of a history has the same '
                       'shape; on-disk dtypes float32/float64 only (integer dtypes would bring C02 scaling into play)',
                       'SIGBUS semantics of a private file mapping after truncation (Linux): touching a page wholly '
                       'beyond the page-rounded end of file kills the process - an assumed model of the OS, checked here '
                       'against the running kernel on every history',
                       'one process, no concurrent writers; files written by nibabel itself',
                       'affines are compared to 1e-2 absolute (which of four well separated affines; storage precision '
                       'is C04); data saved with an integer on-disk dtype (fault histories only) to 0.05 (C02)']
    chk.trusted.append('OS mmap / truncate semantics (modelled: alias_read, roundup to mmap.PAGESIZE)')
    chk.trusted.append('class-conversion dtype table, data offsets and trailing bytes measured from the implementation '
                       'at run time (C09/Tables.v, fail-closed generator)')
    import time
    t0 = time.time()
    chk.build(gen_tables=gen_tables)
    t1 = time.time()
    chk.run_probes()
    t2 = time.time()
    if not chk.model_ok:
        return
    facts = measure_facts(chk.workdir)
    chk.extra['platform_facts'] = {'offsets': facts['off'], 'trailing': facts['foot'], 'page': facts['page'],
                                   'conversions': ['%s->%s %s=>%s' % c for c in facts['conv']]}
    plan, n_exh = plan_cases(chk)
    chk.extra['exhaustive_core'] = {'histories': n_exh, 'alphabet': ALPHA, 'enumerations': dict(PLAN_INFO)}
    jobs = []
    for k, (cfgname, shape, imgs, ops, tag) in enumerate(plan):
        shift, approx = history_flags(shape, tag, ops, cfgname)
        jobs.append(dict(id=k, shape=list(shape), paths=CONFIGS[cfgname], imgs=imgs, ops=ops, shift=shift, approx=approx,
                         scales=scale_table(shape, shift)[1]))
    # interleave so that every child gets a mix (crashing histories are spread over the batches)
    nproc = int(os.environ.get('VERIF_C09_PROCS', '10' if chk.tier == 'quick' else '12'))
    impl, stats = run_children(jobs, chk.workdir, nproc, crash_cap=200 if chk.tier == 'quick' else 3000)
    chk.extra['child_processes'] = stats
    chk.extra['timing_s'] = {'build_incl_lock_wait': round(t1 - t0, 1), 'probes': round(t2 - t1, 1),
                             'children': round(time.time() - t2, 1)}
    lines = [model_line(k, cfgname, shape, imgs, ops, facts, shift=history_flags(shape, tag, ops, cfgname)[0])
             for k, (cfgname, shape, imgs, ops, tag) in enumerate(plan)]
    mod = run_model_parallel(PROP, lines, jobs=6)

    pv, cv = [], []
    n_crash_known = 0
    n_skipped = 0
    for k, (cfgname, shape, imgs, ops, tag) in enumerate(plan):
        r = impl.get(str(k))
        case = {'config': cfgname, 'shape': list(shape), 'imgs': imgs, 'ops': ops}
        if r is None:
            chk.violation('harness_error', case=case, predicate='history was not run', found_input=False)
            continue
        if r['status'] == 'skipped':
            n_skipped += 1
            continue
        itoks = r['res'] + ['dead'] * (len(ops) - len(r['res']))
        mline = mod.get(str(k), '<missing>')
        mtoks = mline.split()[1:] if mline.startswith('ok') else [mline]
        nsave = sum(t.startswith('saved:') for t in itoks)
        chk.count(key=(cfgname, shape, tuple(ops), bool(imgs[1])) if nsave else None, tag=tag,
                  sample={'config': cfgname, 'shape': list(shape), 'ops': ' '.join(ops), 'impl': ' '.join(itoks)}
                  if k in (5, n_exh // 3, n_exh + 2) else None)
        chk.tagc('cfg:' + cfgname)
        chk.tagc('size:' + ('small' if tuple(shape) == SMALL else 'big'))
        for t in itoks:
            if t.startswith('ref:'):
                chk.refusal(t[4:].split(':')[0] if not t.startswith('ref:other') else t[4:40])
            elif t == 'crash':
                chk.tagc('outcome:crash')
            elif t.endswith(':G') or ':G:' in t:
                chk.tagc('outcome:garbage')
        # ---- the property predicate, from the child's own observations (independent of the model)
        fails = []
        if r['status'] == 'crashed':
            kc, sig = r['crash']
            info = r['info'].get(kc, '')
            if itoks[kc] == 'crash' and 'rewritten=other' in info and (ops[kc][0] == 'F' or 'alias=array' in info):
                n_crash_known += 1
                chk.known('S-C09b', S_C09B)
                chk.tagc('known:S-C09b:' + ('array' if 'alias=array' in info else 'cache'))

            else:
                fails.append(f'the interpreter died at step {kc} ({ops[kc]}): {sig}')
        for kp, what, sig in r['pred']:     # (S-C09c, once classified here by its signature, is fixed: 29b7b6ce)
            stale_map_garbage = ('alias=array rewritten=other' in r['info'].get(kp, '') and kp < len(mtoks) and
                                 mtoks[kp].startswith('saved:') and mtoks[kp].split(':')[2] == 'G' and
                                 (what.startswith('file_differs') or what.startswith('unusable')))
            if stale_map_garbage:
                # the saver's own array is a memory map of a file rewritten (with another layout) since the image was
                # built around it: what it holds is garbage already - the model says so too (G) - and garbage with
                # NaN / huge values does not survive a dtype change
                chk.known('S-C09b', S_C09B)
                chk.tagc('known:S-C09b:save_of_stale_array_map')
            else:
                fails.append(f'step {kp} ({ops[kp]}): {what}' + (f' [{sig}]' if sig != '-' else ''))
        bad_other = [t for t in itoks if t.startswith('ref:other') or t.startswith('died:')]
        if fails and tag not in UNMODELLED:
            pv.append((case, itoks, mtoks, '; '.join(fails)))
        # ---- correspondence (the integer-dtype fault histories are outside the model: predicate only)
        if tag in UNMODELLED:
            want = {'fault_int16': ('ref:nospace', 'saved:'), 'scaled_lowdim': ('saved:',), 'refused_save': ('ref:writer',)}[tag]
            if fails:
                pv.append((case, itoks, ['<not modelled>'], '; '.join(fails)))
            elif not all(any(t.startswith(w) for t in itoks) for w in want) or bad_other:
                cv.append((case, itoks, ['<not modelled: expected ' + ' and '.join(want) + ' and no unexpected error>']))
            continue
        agree = len(mtoks) == len(itoks) and all(tok_match(m, i) for m, i in zip(mtoks, itoks))
        if not agree:
            chk.disagreements += 1
            if not fails:
                cv.append((case, itoks, mtoks))
        elif bad_other and not fails:
            cv.append((case, itoks, mtoks))
    pv.sort(key=lambda v: len(v[0]['ops']))
    cv.sort(key=lambda v: len(v[0]['ops']))
    for case, itoks, mtoks, what in pv[:5]:
        chk.violation('property_violation', case=case, impl_output=' '.join(itoks), model_output=' '.join(mtoks), predicate=what)
    for case, itoks, mtoks in cv[:max(1, 5 - len(pv))] if cv else []:
        chk.violation('correspondence', case=case, impl_output=' '.join(itoks), model_output=' '.join(mtoks),
                      predicate='model and implementation traces differ; the direct property predicate holds (or the '
                      'difference is a known finding) on this history', found_input=False,
                      theorem='correspondence C09/Model.v <-> nibabel load/save')
    chk.extra['property_violations_found'] = len(pv)
    chk.extra['correspondence_only_disagreements'] = len(cv)
    chk.extra['known_crashes_S_C09b'] = n_crash_known
    chk.extra['histories_skipped_after_crash_cap'] = n_skipped
    if n_skipped and not pv and not cv:
        chk.violation('harness_error', case=None, predicate=f'{n_skipped} histories skipped after the crash cap without '
                      'any violation found', found_input=False)
    chk.extra['unproved_statements'] = [
        'no step of ANY history crashes is FALSE of the faithful model: C09_no_crash_refuted (S-C09b: a cached memory '
        'map of a file that ANOTHER image object later shortens); proved instead: C09_save_never_crashes (all '
        'histories), C09_no_crash (every history on which the computed predicate `affected` is false), '
        'C09_affected_is_real (tightness), C09_no_crash_partial (static sufficient condition)',
        'C09_save_never_crashes / C09_files_decode carry the side condition backed (no unbacked live map: else S-C09b); '
        'S-C09d (9bb93cff) and S-C09e (4923d550) are fixed: C09_view_of_map_refuted / C09_map_saver_refuted keep their '
        'witnesses with the repairs switched off; C09_usable has no own-array exclusion any more',
        'C09_files_decode: the file holds written(g, fmt, dtype, v): it decodes to v except when MGH (no scaling) clips '
        'data of both signs to uint8 (lemma written_val); integer quantisation itself is C02\'s subject; C09_usable '
        'carries the same exclusion and the side conditions names_wf / classes_ok (invariant of every run)']

    # ---- vm cross-check of the extracted binary on a small fixed sample
    pairs = []
    step = max(1, n_exh // 30)
    for k in list(range(0, n_exh, step))[:30] + list(range(n_exh, min(len(plan), n_exh + 30))):
        cfgname, shape, imgs, ops, tag = plan[k]
        mline = mod.get(str(k), '')
        if mline.startswith('ok'):
            pairs.append((coq_case(cfgname, shape, imgs, ops, mline.split()[1:], history_flags(shape, tag, ops, cfgname)[0]),
                          f'case {k}'))
    imports = ('From Coq Require Import ZArith List Bool. Import ListNotations. Open Scope Z_scope.\n'
               'From NV Require Import C09.Model C09.Tables C09.VmCheck.\n')
    ncase, bad = vm_crosscheck(PROP, imports, pairs)
    chk.vm = {'cases': ncase, 'disagreements': len(bad)}
    if bad:
        chk.disagreements += 1
        chk.violation('correspondence', case={'vm_crosscheck': [pairs[b][1] if isinstance(b, int) and b < len(pairs) else b for b in bad]},
                      predicate='extracted model disagrees with vm_compute evaluation of the model',
                      found_input=False, theorem='extraction cross-check')


# --------------------------------------------------------------------------- vm cross-check terms
def coq_case(cfgname, shape, imgs, ops, mtoks, shift=0):
    fm = {'N': 'Nii', 'P': 'Pair', 'M': 'Mgh', 'A': 'Spm'}
    paths = CONFIGS[cfgname]
    n = int(np.prod(shape))
    ps = '[' + '; '.join(f"mkP {fm[p['fmt']]} {'true' if p['gz'] else 'false'}" for p in paths) + ']'
    fs = '[' + '; '.join('None' if p['init'] is None else
                         (f"Some (mkK (Some {p['init'][0]}%nat) I2 {p['init'][2]}%nat 1%nat {fm[p['fmt']]})" if p['init'][1] == 'i2s' else
                          f"Some (mkK (Some {p['init'][0]}%nat) {p['init'][1].upper()} {p['init'][2]}%nat 0%nat {fm[p['fmt']]})")
                         for p in paths if p['link'] is None) + ']'
    rows, _ = scale_table(shape, shift)
    sc = '[' + '; '.join(f'({fm[f]}, {d.upper()}, {v}%nat, {k}%nat)' for f, d, v, k in rows) + ']'
    fids = '[' + '; '.join(f'{i}%nat' for i in file_ids(paths)) + ']'
    im = '[' + '; '.join('None' if s is None else
                         f"Some (mkI (SArray (Some {s['v']}%nat)) {fm[s['fmt']]} {s['dt'].upper()} {s['aff']}%nat CNone)"
                         for s in imgs) + ']'

    def op(t):
        k = t[0]
        if k == 'L':
            return f"Load {t[1]}%nat {t[2]}%nat {'true' if t[3] in 'TR' else 'false'}"
        if k == 'S':
            return f'Save {t[1]}%nat {t[2]}%nat'
        if k == 'W':
            return f'SaveU8 {t[1]}%nat {t[2]}%nat'
        if k == 'T':
            return f'ToFilename {t[1]}%nat {t[2]}%nat'
        if k == 'C':
            return f'Clone {t[1]}%nat {t[2]}%nat'
        if k == 'A':
            return f"Wrap {t[1]}%nat {t[2]}%nat {dict(a='WAny', f='WFdata', v='WView')[t[3]]}"
        return {'F': 'Fdata', 'U': 'Uncache', 'E': 'EditHdr', 'D': 'SetDtype', 'B': 'ToBytes', 'X': 'SaveFull',
                'I': 'SetInt', 'M': 'EditMap'}[k] + f' {t[1]}%nat'

    def v(x):
        return 'None' if x == 'G' else f'(Some {x}%nat)'

    def out(t):
        p = t.split(':')
        if p[0] == 'done':
            return 'ODone'
        if p[0] == 'val':
            return f'OVal {v(p[1])}'
        if p[0] == 'saved':
            return f'OSaved {p[1]}%nat {v(p[2])} {p[3].upper()} {p[4]}%nat {p[5]}%nat'
        if p[0] == 'bytes':
            return f'OBytes {v(p[1])} {p[2].upper()} {p[3]}%nat'
        if p[0] == 'ref':
            return 'ORefused ' + {'noimage': 'ENoImage', 'nofile': 'ENoFile', 'short_read': 'EShortRead',
                                  'no_conversion': 'ENoConversion', 'not_serializable': 'ENotSerializable',
                                  'nospace': 'ENoSpace', 'writer': 'EWriter', 'class': 'EClass'}[p[1]]
        return {'crash': 'OCrash', 'dead': 'ODead'}[p[0]]

    return (f"check_case (platform_cfg {n} {ps} {fids} true {sc} {'true' if shift else 'false'} "
            f"{'true' if len(shape) < 3 else 'false'}) (mkW {fs} {im} false) "
            f"[{'; '.join(op(t) for t in ops)}] [{'; '.join(out(t) for t in mtoks)}]")


def replay(chk, obj):
    ensure_impl_path()
    case = obj.get('case')
    if not isinstance(case, dict) or 'ops' not in case:
        if obj.get('inputs', {}) and obj['inputs'].get('probe_fn'):
            import defect_probes
            r = defect_probes.PROBES[obj['inputs']['probe_fn']]()
            print('defect present' if r else 'defect absent')
            return 1 if r else 0
        print('nothing to replay:', obj.get('predicate'))
        return 1
    facts = measure_facts(chk.workdir)
    shift = 10 if any(t[0] == 'W' for t in case['ops']) else 0
    approx = history_flags(tuple(case['shape']), '', case['ops'], case['config'])[1]
    job = dict(id=0, shape=case['shape'], paths=CONFIGS[case['config']], imgs=case['imgs'], ops=case['ops'],
               shift=shift, approx=approx, scales=scale_table(tuple(case['shape']), shift)[1])
    impl, stats = run_children([job], chk.workdir, 1)
    r = impl['0']
    chk.build(gen_tables=gen_tables)
    mod = run_model(PROP, [model_line(0, case['config'], tuple(case['shape']), case['imgs'], case['ops'], facts, shift=shift)])
    itoks = r['res'] + ['dead'] * (len(case['ops']) - len(r['res']))
    mtoks = mod.get('0', '<missing>').split()[1:]
    print('config :', case['config'], case['shape'])
    print('ops    :', ' '.join(case['ops']))
    print('impl   :', ' '.join(itoks))
    print('model  :', ' '.join(mtoks))
    print('crash  :', r.get('crash'))
    print('predicate lines:', r['pred'])
    import shutil
    shutil.rmtree(chk.workdir, ignore_errors=True)
    modelled = True
    bad = r['status'] == 'crashed' or bool(r['pred']) or (modelled and (len(mtoks) != len(itoks) or
                                                                          not all(tok_match(m, i) for m, i in zip(mtoks, itoks))))
    print('property/correspondence fails on this history' if bad else 'holds on this history')
    return 1 if bad else 0
