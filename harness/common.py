"""Shared machinery of the /verif checks: Coq build + proof obligations, extracted-model
runner, correspondence bookkeeping, known findings, evidence and replay files.

Every per-property module `harness/cNN.py` exposes

    PROP = 'CNN'
    def run(chk):            # generate cases, run implementation + model, report
    def replay(chk, obj):    # re-execute one replay file (optional)

and uses the `Check` object below.  Nothing here is property specific.
"""
import fcntl
import hashlib
import json
import os
import random
import re
import subprocess
import sys
import time

VERIF = os.path.dirname(os.path.dirname(os.path.abspath(__file__)))
REPO = os.environ.get('VERIF_REPO', '/repo')
COQ = os.path.join(VERIF, 'coq')
BIN = os.path.join(VERIF, 'bin')
PY = '/venv/bin/python'
COQ_TIMEOUT = int(os.environ.get('VERIF_COQ_TIMEOUT', '1500'))

TRUSTED_BASE_COMMON = [
    'Coq 8.16.1 kernel (coqc); vm_compute used for finite-domain lemmas and witnesses; no native_compute',
    'extraction: Require Extraction + ExtrOcamlBasic only (bool, option, unit, list, prod, sumbool, sumor -> OCaml; Z/N/positive/nat stay inductive); OCaml 4.13.1 ocamlfind ocamlopt; zarith only in the driver for decimal printing',
    'OCaml driver coq/ocaml/drvlib.ml + coq/<prop>/driver.ml (parsing/printing of case lines)',
    'Python correspondence harness harness/common.py + harness/<prop>.py (generators, canonicalisers)',
]


def sh(cmd, timeout=None, cwd=None, env=None, input=None):
    r = subprocess.run(cmd, shell=isinstance(cmd, str), cwd=cwd, env=env, input=input,
                       capture_output=True, text=True, timeout=timeout)
    return r.returncode, r.stdout, r.stderr


def impl_env():
    env = dict(os.environ)
    env['PYTHONPATH'] = REPO
    env['PYTHONHASHSEED'] = '0'
    env.setdefault('NIBABEL_VERIF', '1')
    return env


def ensure_impl_path():
    import logging
    logging.disable(logging.WARNING)
    """Make `import nibabel` resolve to REPO's working tree in this process."""
    if sys.path[0] != REPO:
        sys.path.insert(0, REPO)
    import nibabel
    got = os.path.dirname(os.path.dirname(os.path.abspath(nibabel.__file__)))
    if os.path.realpath(got) != os.path.realpath(REPO):
        raise RuntimeError(f'nibabel imported from {got}, expected {REPO}')


# --------------------------------------------------------------------------- Coq build
class BuildLock:
    def __enter__(self):
        os.makedirs(COQ, exist_ok=True)
        self.f = open(os.path.join(COQ, '.lock'), 'w')
        fcntl.flock(self.f, fcntl.LOCK_EX)
        return self

    def __exit__(self, *a):
        fcntl.flock(self.f, fcntl.LOCK_UN)
        self.f.close()


def coq_sources():
    out = []
    for root, dirs, files in os.walk(COQ):
        dirs[:] = sorted(d for d in dirs if d not in ('ocaml', '.work'))
        for f in sorted(files):
            if f.endswith('.v') and f != 'Extract.v' and not f.startswith('cases_'):
                out.append(os.path.relpath(os.path.join(root, f), COQ))
    return out


def write_coqproject():
    srcs = coq_sources()
    txt = '-Q . NV\n' + '\n'.join(srcs) + '\n'
    p = os.path.join(COQ, '_CoqProject')
    old = open(p).read() if os.path.exists(p) else None
    if old != txt or not os.path.exists(os.path.join(COQ, 'Makefile.coq')):
        with open(p, 'w') as f:
            f.write(txt)
        rc, o, e = sh('coq_makefile -f _CoqProject -o Makefile.coq', cwd=COQ, timeout=120)
        if rc:
            raise RuntimeError('coq_makefile failed: ' + e)
    return srcs


def make_targets(targets, jobs=16):
    """make the given .vo targets (full .vo build, never -vos)."""
    cmd = ['timeout', str(COQ_TIMEOUT), 'make', '-f', 'Makefile.coq', f'-j{jobs}', '-k'] + targets
    rc, o, e = sh(cmd, cwd=COQ, timeout=COQ_TIMEOUT + 60)
    return rc, o + e


def prop_dir(prop):
    return os.path.join(COQ, prop)


def prop_vfiles(prop):
    d = prop_dir(prop)
    return sorted(f for f in os.listdir(d) if f.endswith('.v') and not f.startswith('cases_'))


def build_binary(prop, force=False):
    """Extract coq/<prop>/Extract.v and compile bin/modelrun_<prop>. Returns (ok, log)."""
    d = prop_dir(prop)
    ext = os.path.join(d, 'Extract.v')
    if not os.path.exists(ext):
        return True, 'no Extract.v'
    low = prop.lower()
    out = os.path.join(BIN, f'modelrun_{low}')
    deps = [os.path.join(d, 'driver.ml'), os.path.join(COQ, 'ocaml', 'drvlib.ml'), ext]
    for root, _, files in os.walk(COQ):
        if os.path.basename(root) in ('ocaml',):
            continue
        deps += [os.path.join(root, f) for f in files if f.endswith('.vo') and
                 (root.endswith('Base') or root.endswith('Gen') or root == d) and not f.startswith('Props')
                 and not f.startswith('Lemmas')]
    if not force and os.path.exists(out):
        mt = os.path.getmtime(out)
        if all(os.path.getmtime(x) <= mt for x in deps if os.path.exists(x)):
            return True, 'up to date'
    od = os.path.join(d, 'ocaml')
    os.makedirs(od, exist_ok=True)
    os.makedirs(BIN, exist_ok=True)
    rc, o, e = sh(['timeout', '600', 'coqc', '-Q', '../..', 'NV', '../Extract.v'], cwd=od, timeout=660)
    if rc:
        return False, 'extraction failed:\n' + o + e
    mod = f'{low}_model'
    with open(os.path.join(od, 'main.ml'), 'w') as f:
        f.write('module BigZ = Z\n')
        f.write(f'open {mod.capitalize()}\n')
        f.write(open(os.path.join(COQ, 'ocaml', 'drvlib.ml')).read())
        f.write(open(os.path.join(d, 'driver.ml')).read())
    tmp = out + f'.tmp{os.getpid()}'
    rc, o, e = sh(['timeout', '600', 'ocamlfind', 'ocamlopt', '-w', '-a', '-O2' if False else '-inline', '20',
                   '-package', 'zarith', '-linkpkg', f'{mod}.mli', f'{mod}.ml', 'main.ml', '-o', tmp],
                  cwd=od, timeout=660)
    if rc:
        return False, 'ocaml build failed:\n' + o + e
    os.replace(tmp, out)
    return True, 'built'


THM_RE = re.compile(r'^\s*(Theorem|Example)\s+([A-Za-z0-9_\']+)', re.M)


def parse_props(prop, text_out):
    """Pair each `Print Assumptions X.` in Props.v with its output block."""
    src = open(os.path.join(prop_dir(prop), 'Props.v')).read()
    src_nc = re.sub(r'\(\*.*?\*\)', '', src, flags=re.S)
    names = [m.group(2) for m in THM_RE.finditer(src_nc)]
    printed = re.findall(r'Print Assumptions\s+([A-Za-z0-9_\']+)\s*\.', src_nc)
    blocks = []
    cur = None
    for line in text_out.splitlines():
        if line.startswith('Closed under the global context'):
            blocks.append([])
            cur = None
        elif line.startswith('Axioms:'):
            cur = []
            blocks.append(cur)
        elif cur is not None and line.strip():
            if re.match(r'^\S', line) and ':' in line:
                cur.append(line.split(':')[0].strip())
            elif re.match(r'^\S+$', line.strip()) and not line.startswith(' '):
                cur.append(line.strip())
    thms = []
    for i, n in enumerate(printed):
        ax = blocks[i] if i < len(blocks) else None
        thms.append({'name': n, 'axioms': ax if ax is not None else ['<no Print Assumptions output>']})
    unprinted = [n for n in names if n not in printed]
    return thms, unprinted


FORBIDDEN = re.compile(r'\b(Admitted|admit|Axiom|Parameter|Conjecture|Admit Obligations|Unset Guard Checking|'
                       r'bypass_check|Unset Positivity Checking|Unset Universe Checking|type-in-type)\b')


def scan_forbidden(prop):
    bad = []
    dirs = [prop_dir(prop), os.path.join(COQ, 'Base'), os.path.join(COQ, 'Gen')]
    for d in dirs:
        if not os.path.isdir(d):
            continue
        for f in os.listdir(d):
            if f.endswith('.v'):
                txt = re.sub(r'\(\*.*?\*\)', '', open(os.path.join(d, f)).read(), flags=re.S)
                for m in FORBIDDEN.finditer(txt):
                    bad.append(f'{os.path.basename(d)}/{f}: {m.group(0)}')
    return bad


def build_prop(prop, gen_tables=None):
    """Regenerate tables, build everything the property needs, compile Props.v capturing
    Print Assumptions.  Returns dict(obligations=[{name, ok, axioms|error}], model_ok, log)."""
    res = {'obligations': [], 'model_ok': True, 'log': ''}
    with BuildLock():
        if gen_tables is not None:
            try:
                gen_tables()
            except Exception as e:  # translator is fail-closed
                res['obligations'].append({'name': 'Gen/Tables.v (translator)', 'ok': False, 'error': repr(e)})
                res['model_ok'] = False
                return res
        write_coqproject()
        vfiles = [f for f in prop_vfiles(prop) if f not in ('Props.v', 'Extract.v')]
        targets = [f'{prop}/{f}o' for f in vfiles]
        rc, log = make_targets(targets)
        res['log'] = log[-4000:]
        failed = []
        for f in vfiles:
            if not os.path.exists(os.path.join(prop_dir(prop), f + 'o')):
                failed.append(f)
        # rc != 0 with all .vo present can only mean a dependency outside failed; report it
        if rc and not failed:
            failed.append('(dependency)')
        model_files = [f for f in vfiles if f.startswith('Model')]
        res['model_ok'] = all(os.path.exists(os.path.join(prop_dir(prop), f + 'o')) for f in model_files)
        if res['model_ok']:
            ok, blog = build_binary(prop)
            if not ok:
                res['model_ok'] = False
                res['obligations'].append({'name': 'extraction', 'ok': False, 'error': blog[-1500:]})
        for f in failed:
            m = re.search(r'File "\./%s/%s".*?(?=\nmake|\Z)' % (prop, re.escape(f)), log, flags=re.S)
            res['obligations'].append({'name': f'{prop}/{f}', 'ok': False,
                                       'error': (m.group(0) if m else log[-1500:])[:1500]})
        if not failed:
            rc, o, e = sh(['timeout', str(COQ_TIMEOUT), 'coqc', '-Q', '.', 'NV', f'{prop}/Props.v'],
                          cwd=COQ, timeout=COQ_TIMEOUT + 60)
            if rc:
                res['obligations'].append({'name': f'{prop}/Props.v', 'ok': False, 'error': (o + e)[-1500:]})
            else:
                thms, unprinted = parse_props(prop, o)
                for t in thms:
                    res['obligations'].append({'name': t['name'], 'ok': True, 'axioms': t['axioms']})
                for n in unprinted:
                    if not n.endswith('_nonvacuous'):
                        res['obligations'].append({'name': n, 'ok': True, 'axioms': ['<not printed>']})
                    else:
                        res['obligations'].append({'name': n, 'ok': True, 'axioms': []})
        bad = scan_forbidden(prop)
        if bad:
            res['obligations'].append({'name': 'no-axioms-or-admits scan', 'ok': False, 'error': '; '.join(bad)})
    return res


# --------------------------------------------------------------------------- model runner
def run_model(prop, lines, timeout=900, chunk=None):
    """Feed case lines ('<id> <op> args') to bin/modelrun_<prop>; return {id: result}."""
    exe = os.path.join(BIN, f'modelrun_{prop.lower()}')
    if not lines:
        return {}
    data = '\n'.join(lines) + '\n'
    p = subprocess.run([exe], input=data, capture_output=True, text=True, timeout=timeout)
    if p.returncode != 0:
        raise RuntimeError(f'model runner failed rc={p.returncode}: {p.stderr[-500:]}')
    out = {}
    for ln in p.stdout.splitlines():
        i, _, r = ln.partition(' ')
        out[i] = r
    return out


def run_model_parallel(prop, lines, jobs=8, timeout=900):
    if len(lines) < 2000 or jobs <= 1:
        return run_model(prop, lines, timeout)
    from concurrent.futures import ThreadPoolExecutor
    n = (len(lines) + jobs - 1) // jobs
    parts = [lines[i:i + n] for i in range(0, len(lines), n)]
    out = {}
    with ThreadPoolExecutor(jobs) as ex:
        for r in ex.map(lambda p: run_model(prop, p, timeout), parts):
            out.update(r)
    return out


def vm_crosscheck(prop, imports, pairs, timeout=600):
    """Cross-check extraction + driver against evaluation inside coqc.
    `pairs` = list of (coq_term_string, expected_coq_term_string); the comparison
    `term = expected` is decided inside Coq by vm_compute on a boolean list; returns
    (n_cases, [indices that disagree]).  Terms must be of a type with decidable equality
    supplied by the caller as a boolean expression string already (i.e. each pair is
    (bool_expr, description))."""
    if not pairs:
        return 0, []
    work = os.path.join(COQ, '.work')
    os.makedirs(work, exist_ok=True)
    name = f'cases_{prop}_{os.getpid()}'
    src = [imports, 'Definition checks : list bool := [']
    src.append(';\n'.join(f'({b})' for b, _ in pairs))
    src.append('].')
    src.append('Definition bad := filter (fun p => negb (snd p)) (combine (List.seq 0 (length checks)) checks).')
    src.append('Eval vm_compute in (length checks, map fst bad).')
    path = os.path.join(work, name + '.v')
    with open(path, 'w') as f:
        f.write('\n'.join(src) + '\n')
    rc, o, e = sh(['timeout', str(timeout), 'coqc', '-Q', '..', 'NV', name + '.v'], cwd=work, timeout=timeout + 30)
    for ext in ('.v', '.vo', '.glob', '.vok', '.vos'):
        try:
            os.remove(os.path.join(work, name + ext))
        except OSError:
            pass
    try:
        os.remove(os.path.join(work, '.' + name + '.aux'))
    except OSError:
        pass
    if rc:
        return len(pairs), ['coqc failed: ' + (o + e)[-800:]]
    m = re.search(r'=\s*\((\d+)(?:%nat)?,\s*\[(.*?)\]\)', o.replace('\n', ' '))
    if not m:
        return len(pairs), ['unparsed: ' + o[-300:]]
    bad = [int(x.replace('%nat', '')) for x in m.group(2).split(';') if x.strip()]
    return int(m.group(1)), bad


# --------------------------------------------------------------------------- findings
def load_findings():
    p = os.path.join(VERIF, 'known_findings.json')
    if not os.path.exists(p):
        return []
    return json.load(open(p))['findings']


# --------------------------------------------------------------------------- the Check object
class Check:
    def __init__(self, prop, tier='quick', seed=0):
        self.prop = prop
        self.tier = tier
        self.seed = seed
        self.rng = random.Random(seed)
        self.t0 = time.time()
        self.evaluations = 0
        self.nontrivial = set()
        self.samples = []
        self.dist = {}
        self.violations = []          # (kind, replay_path, found_input)
        self.known_hits = {}
        self.refusals = {}
        self.obligations = []
        self.extra = {}
        self.assumptions = []
        self.trusted = list(TRUSTED_BASE_COMMON)
        self.rule = ''
        self.exhaustive = False
        self.disagreements = 0
        self.findings = [f for f in load_findings() if f['property'] == prop]
        self.workdir = os.path.join(VERIF, '.work', f'{prop}.{os.getpid()}')
        os.makedirs(self.workdir, exist_ok=True)
        os.makedirs(os.path.join(VERIF, 'evidence'), exist_ok=True)
        self.replay_dir = os.path.join(VERIF, 'replays')
        os.makedirs(self.replay_dir, exist_ok=True)
        self.model_ok = True
        self.vm = {'cases': 0, 'disagreements': 0}

    # ---- scale by tier
    def n(self, quick, thorough):
        return thorough if self.tier == 'thorough' else quick

    # ---- build
    def build(self, gen_tables=None):
        r = build_prop(self.prop, gen_tables)
        self.obligations = r['obligations']
        self.model_ok = r['model_ok']
        self.build_log = r['log']
        if self.tier == 'thorough' and all(o['ok'] for o in self.obligations):
            # independent re-check of the compiled theorems (and everything they depend on)
            with BuildLock():
                rc, o, e = sh(['timeout', '1800', 'coqchk', '-silent', '-o', '-Q', '.', 'NV', f'NV.{self.prop}.Props'],
                              cwd=COQ, timeout=1900)
            txt = (o + e)
            m = re.search(r'\* Axioms:(.*?)\* Constants/Inductives relying on type-in-type', txt, flags=re.S)
            axioms = ' '.join(m.group(1).split()) if m else '<unparsed>'
            self.extra['coqchk'] = {'rc': rc, 'axioms': axioms,
                                    'type_in_type': '<none>' in txt.split('type-in-type:')[-1][:30] if 'type-in-type:' in txt else None}
            self.obligations.append({'name': f'coqchk -o NV.{self.prop}.Props', 'ok': rc == 0,
                                     'axioms': [] if axioms == '<none>' else [axioms],
                                     **({'error': txt[-800:]} if rc else {})})
        return r

    # ---- counting
    def count(self, key=None, tag=None, sample=None):
        self.evaluations += 1
        if key is not None:
            self.nontrivial.add(key if isinstance(key, (str, int, tuple)) else repr(key))
        if tag is not None:
            self.dist[tag] = self.dist.get(tag, 0) + 1
        if sample is not None and len(self.samples) < 8:
            self.samples.append(sample)

    def tagc(self, tag, k=1):
        self.dist[tag] = self.dist.get(tag, 0) + k

    def refusal(self, enum):
        self.refusals[enum] = self.refusals.get(enum, 0) + 1

    # ---- violations
    def _replay_path(self, kind):
        h = hashlib.sha1(f'{time.time()}{len(self.violations)}{kind}'.encode()).hexdigest()[:8]
        return os.path.join(self.replay_dir, f'{self.prop}_{kind}_{h}.json')

    def violation(self, kind, case, model_output=None, impl_output=None, predicate=None,
                  found_input=True, theorem=None, inputs=None):
        """kind: property_violation | correspondence | proof_obligation | regression"""
        path = self._replay_path(kind)
        obj = {'property': self.prop, 'tier': self.tier, 'seed': self.seed, 'kind': kind,
               'theorem': theorem, 'case': case, 'inputs': inputs, 'model_output': model_output,
               'impl_output': impl_output, 'predicate': predicate,
               'failing_input_found': bool(found_input),
               'how_to_run': f'./check {self.prop} --replay {path}'}
        with open(path, 'w') as f:
            json.dump(obj, f, indent=1, default=str)
        self.violations.append((kind, path, found_input))
        return path

    def known(self, fid, what):
        self.known_hits[fid] = what

    # ---- finishing
    def finish(self):
        # proof obligations that failed and have not been turned into a violation by the caller
        failed = [o for o in self.obligations if not o['ok']]
        already = any(k == 'proof_obligation' for k, _, _ in self.violations)
        if failed and not already:
            found = any(fi for _, _, fi in self.violations)
            if not found:
                self.violation('proof_obligation', case=None, theorem=failed[0]['name'],
                               predicate=failed[0].get('error', '')[:1500], found_input=False)
        for fid, what in sorted(self.known_hits.items()):
            print(f'KNOWN-FINDING: property={self.prop} {fid} {what}')
        # report: violations with a concrete input first
        vs = sorted(self.violations, key=lambda v: (not v[2],))
        seen = set()
        for kind, path, found in vs[:5]:
            line = f'VIOLATION property={self.prop} replay={path}'
            if not found:
                line += ' no-failing-input-found'
            if line not in seen:
                print(line)
                seen.add(line)
        self.write_evidence()
        try:
            import shutil
            shutil.rmtree(self.workdir, ignore_errors=True)
        except Exception:
            pass
        sys.stdout.flush()
        return 1 if self.violations else 0

    def write_evidence(self):
        n_obl = len(self.obligations) + 1  # + the correspondence obligation
        corr_ok = self.disagreements == 0 and self.model_ok
        discharged = sum(1 for o in self.obligations if o['ok']) + (1 if corr_ok else 0)
        axioms = sorted({a for o in self.obligations for a in o.get('axioms', []) if not a.startswith('<')})
        cov = {
            'obligations': n_obl,
            'discharged': discharged,
            'checker_cmd': f'cd /verif/coq && make -f Makefile.coq {self.prop}/*.vo && coqc -Q . NV {self.prop}/Props.v  (full .vo build; run by ./check {self.prop})',
            'trusted_base': self.trusted + ([f'axioms reported by Print Assumptions: {", ".join(axioms)}'] if axioms
                                            else ['Print Assumptions: every property theorem is closed under the global context']),
            'theorems': [{'name': o['name'], 'ok': o['ok'], 'axioms': o.get('axioms', []),
                          **({'error': o['error'][:300]} if not o['ok'] else {})} for o in self.obligations],
            'correspondence_disagreements': self.disagreements,
            'evaluations': self.evaluations,
            'distinct_nontrivial': len(self.nontrivial),
            'rule': self.rule,
            'samples': self.samples[:8] or ['<none>'],
            'exhaustive': bool(self.exhaustive),
            'input_distribution': dict(sorted(self.dist.items())),
            'refusals': self.refusals,
            'known_findings_reproduced': sorted(self.known_hits),
            'vm_crosscheck': self.vm,
        }
        cov.update(self.extra)
        ev = {'property_id': self.prop, 'tier': self.tier, 'seed': int(self.seed), 'level': 'proof',
              'coverage': cov, 'assumptions': self.assumptions, 'wall_s': round(time.time() - self.t0, 2),
              'violations': len(self.violations)}
        p = os.path.join(VERIF, 'evidence', f'{self.prop}.json')
        if os.path.realpath(REPO) != os.path.realpath('/repo'):
            # a run against a private copy (sensitivity / seeded-change experiment) must not
            # overwrite the evidence of the real tree
            d = os.path.join(VERIF, '.work', 'evidence_other_tree')
            os.makedirs(d, exist_ok=True)
            p = os.path.join(d, f'{self.prop}.json')
        tmp = p + f'.tmp{os.getpid()}'
        with open(tmp, 'w') as f:
            json.dump(ev, f, indent=1, default=str)
        os.replace(tmp, p)

    # ---- regression probes for fixed / known findings
    def run_probes(self):
        """Probes of findings of this property (harness/defect_probes.py) in a child."""
        ids = [f['id'] for f in self.findings if f.get('probe_fn')]
        if not ids:
            return
        fns = [f['probe_fn'] for f in self.findings if f.get('probe_fn')]
        rc, o, e = sh([PY, os.path.join(VERIF, 'harness', 'defect_probes.py')] + fns, env=impl_env(), timeout=600,
                      cwd=self.workdir)
        state = {}
        for ln in o.splitlines():
            parts = ln.split(None, 1)
            if len(parts) == 2:
                state[parts[0]] = parts[1]
        for f in self.findings:
            fn = f.get('probe_fn')
            if not fn:
                continue
            st = state.get(fn, 'PROBE-ERROR missing')
            self.count(key=('probe', fn), tag='defect_probe')
            if f['status'] == 'fixed':
                if st.startswith('PRESENT'):
                    self.violation('regression', case=f'probe {fn}', predicate=f"fixed defect {f['id']} has returned: {f['what']}",
                                   impl_output=st, inputs={'probe_fn': fn, 'finding': f['id']})
                elif st.startswith('PROBE-ERROR'):
                    self.violation('regression', case=f'probe {fn}', predicate=f"probe of fixed defect {f['id']} could not run: {st}",
                                   impl_output=st, found_input=False, inputs={'probe_fn': fn, 'finding': f['id']})
            else:
                if st.startswith('PRESENT'):
                    self.known(f['id'], f['what'])


def main(modname, argv=None):
    """Entry point used by /verif/check."""
    import argparse
    import importlib
    ap = argparse.ArgumentParser()
    ap.add_argument('prop')
    ap.add_argument('--tier', default=os.environ.get('VERIF_TIER', 'quick'))
    ap.add_argument('--replay')
    a = ap.parse_args(argv)
    seed = int(os.environ.get('VERIF_SEED', '0') or 0)
    sys.path.insert(0, os.path.join(VERIF, 'harness'))
    mod = importlib.import_module(a.prop.lower())
    chk = Check(a.prop, a.tier if a.tier in ('quick', 'thorough') else 'quick', seed)
    if a.replay:
        obj = json.load(open(a.replay))
        if hasattr(mod, 'replay'):
            rc = mod.replay(chk, obj)
        else:
            print('replay not supported for', a.prop)
            rc = 2
        import shutil
        shutil.rmtree(chk.workdir, ignore_errors=True)
        sys.exit(rc)
    try:
        mod.run(chk)
    except Exception:
        import traceback
        tb = traceback.format_exc()
        print(tb)
        chk.violation('harness_error', case=None, predicate=tb[-1500:], found_input=False)
    sys.exit(chk.finish())
