"""C02 — Rescaled integer storage: bounded error, no wrap-around, or a loud refusal.

(stage 0: table generator only; the check is added below)
"""
import io
import os
import sys
import warnings

import numpy as np

from common import COQ, Check, ensure_impl_path, run_model, vm_crosscheck

PROP = 'C02'

MAX_REPLAYS_PER_KIND = 12


def limit_violations(chk):
    """A broken implementation fails on thousands of generated cases; write a replay file for the
    first few of each kind only and count the rest in the evidence."""
    orig = chk.violation
    seen = {}

    def violation(kind, *a, **kw):
        seen[kind] = seen.get(kind, 0) + 1
        if seen[kind] <= MAX_REPLAYS_PER_KIND:
            return orig(kind, *a, **kw)
        chk.extra.setdefault('violations_without_replay_file', {})
        chk.extra['violations_without_replay_file'][kind] = seen[kind] - MAX_REPLAYS_PER_KIND
        return None
    chk.violation = violation


INT_NAMES = ['uint8', 'int8', 'uint16', 'int16', 'uint32', 'int32', 'uint64', 'int64']
FLT_NAMES = ['float16', 'float32', 'float64', 'longdouble']


# --------------------------------------------------------------------------- tables
def platform_facts():
    """Facts of the running NumPy/CPython/nibabel that the model is evaluated for.
    Fail-closed: anything unexpected raises."""
    ensure_impl_path()
    from nibabel import casting
    from nibabel.casting import type_info, best_float, OK_FLOATS, TRUNC_UINT64
    facts = {}
    fmts = []
    for name in FLT_NAMES:
        t = getattr(np, name)
        ti = type_info(t)
        fi = np.finfo(t)
        prec = int(ti['nmant']) + 1
        emax = int(ti['maxexp'])
        if int(fi.nmant) + 1 != prec or int(fi.maxexp) != emax:
            raise RuntimeError(f'type_info and finfo disagree for {name}')
        if int(fi.max) != 2 ** emax - 2 ** (emax - prec) if name != 'longdouble' else False:
            raise RuntimeError(f'unexpected max for {name}')
        if fi.minexp != 2 - emax:
            raise RuntimeError(f'{name}: not an IEEE-style exponent range')
        # conversion quirks of t(python_int), probed
        via, via_emax, strlim = 0, 0, 0
        with warnings.catch_warnings():
            warnings.simplefilter('ignore')
            if prec < 53 and emax > prec + 40:
                # double rounding through a C double?  2^(prec+36)+2^36/… use a generic probe:
                k = prec + 36
                probe = 2 ** k + 2 ** (k - prec) + 1     # just above a tie at precision prec
                got = int(t(probe)) - 2 ** k
                if got == 2 ** (k - prec + 1):
                    via = 0
                elif got == 0:
                    via, via_emax = 53, 1024
                else:
                    raise RuntimeError(f'{name}(int) conversion not understood: {got}')
            elif prec < 53:
                via, via_emax = 53, 1024        # float16: every in-range integer is exact in double
            if prec > 53:
                k = prec + 6
                probe = 2 ** k + 2 ** (k - prec) + 1
                got = int(t(probe)) - 2 ** k
                if got != 2 ** (k - prec + 1):
                    raise RuntimeError(f'{name}(int) is not correctly rounded: {got}')
                lim = sys.get_int_max_str_digits()
                if lim:
                    try:
                        t(10 ** lim)
                        ok_above = True
                    except ValueError:
                        ok_above = False
                    try:
                        t(10 ** lim - 1)
                        ok_below = True
                    except ValueError:
                        ok_below = False
                    if ok_below and not ok_above:
                        strlim = lim
                    elif ok_below and ok_above:
                        strlim = 0
                    else:
                        raise RuntimeError('longdouble(int) string limit not understood')
            if prec == 53:
                # the C double itself: PyLong_AsDouble raises OverflowError instead of returning inf
                try:
                    t(2 ** emax)
                    raise RuntimeError('float64(2**1024) did not raise')
                except OverflowError:
                    via, via_emax = 53, emax
        fmts.append(dict(name=name, prec=prec, emax=emax, via=via, via_emax=via_emax, strlim=strlim))
    facts['fmts'] = fmts
    bf = best_float()
    facts['best_float'] = FLT_NAMES[[getattr(np, n) for n in FLT_NAMES].index(bf)]
    facts['ok_floats'] = [FLT_NAMES[[getattr(np, n) for n in FLT_NAMES].index(t)] for t in OK_FLOATS]
    facts['trunc_uint64'] = bool(TRUNC_UINT64)
    itys = []
    for n in INT_NAMES:
        ii = np.iinfo(n)
        signed = ii.min < 0
        w = ii.bits
        if int(ii.min) != (-(2 ** (w - 1)) if signed else 0) or int(ii.max) != (2 ** (w - 1) - 1 if signed else 2 ** w - 1):
            raise RuntimeError('unexpected integer type ' + n)
        itys.append(dict(name=n, signed=signed, width=w))
    facts['itys'] = itys
    # header capabilities
    from nibabel.nifti1 import Nifti1Header
    from nibabel.nifti2 import Nifti2Header
    from nibabel.spm99analyze import Spm99AnalyzeHeader
    from nibabel.spm2analyze import Spm2AnalyzeHeader
    from nibabel.analyze import AnalyzeHeader
    from nibabel.freesurfer.mghformat import MGHHeader, MGHImage
    import inspect
    caps = []
    for nm, h in (('nifti1', Nifti1Header), ('nifti2', Nifti2Header), ('spm99', Spm99AnalyzeHeader),
                  ('spm2', Spm2AnalyzeHeader), ('analyze', AnalyzeHeader)):
        s, i = h.has_data_slope, h.has_data_intercept
        if not isinstance(s, bool) or not isinstance(i, bool):
            raise RuntimeError('capabilities not boolean for ' + nm)
        # dtype in which the loaded header hands the slope to the array proxy
        f32 = False
        if s:
            hh = h()
            hh['scl_slope'] = 2
            sl = hh.get_slope_inter()[0]
            dt = np.asanyarray(sl).dtype
            if dt == np.float32:
                f32 = True
            elif dt != np.float64:
                raise RuntimeError(f'{nm}: slope dtype {dt}')
        caps.append(dict(name=nm, slope=s, inter=i, direct=False, f32=f32))
    # MGH writes through array_to_file directly (no writer, no scale factors): established by
    # behaviour, not by source text (harmless refactors change the text): out-of-range floats are
    # rounded and clipped without an error
    def _mgh_direct():
        import io as _io
        from nibabel.fileholders import FileHolder as _FH
        hd = MGHHeader()
        hd.set_data_dtype(np.int16)
        im = MGHImage(np.array([[[1e6, -1e6, 0.4]]], dtype=np.float64), np.eye(4), header=hd)
        fm = {'image': _FH(fileobj=_io.BytesIO())}
        try:
            im.to_file_map(fm)
            fm['image'].fileobj.seek(0)
            back = np.asarray(MGHImage.from_file_map(fm).dataobj).ravel().tolist()
        except Exception:
            return False
        return back == [32767, -32768, 0]
    if hasattr(MGHHeader, 'has_data_slope') or not _mgh_direct():
        raise RuntimeError('MGH write path changed')
    caps.append(dict(name='mgh', slope=False, inter=False, direct=True, f32=False))
    facts['caps'] = caps
    return facts


def coq_bool(b):
    return 'true' if b else 'false'


def tables_text(facts):
    L = ['(* C02/Tables.v — GENERATED by harness/c02.py:gen_tables() from the running NumPy, CPython and',
         '   the nibabel header classes of $VERIF_REPO.  Do not edit. *)',
         'From Coq Require Import ZArith List Bool.',
         'From NV Require Import C02.Model.',
         'Import ListNotations.',
         'Open Scope Z_scope.',
         '']
    for f in facts['fmts']:
        L.append(f"Definition fmt_{f['name']} : fmt := mkFmt {f['prec']} {f['emax']} {f['via']} {f['via_emax']} {f['strlim']}.")
    L.append('Definition all_fmts : list fmt := [' + '; '.join('fmt_' + f['name'] for f in facts['fmts']) + '].')
    L.append('(* OK_FLOATS in order; best_float() *)')
    L.append('Definition ok_floats : list fmt := [' + '; '.join('fmt_' + n for n in facts['ok_floats']) + '].')
    L.append(f"Definition best_float : fmt := fmt_{facts['best_float']}.")
    L.append(f"Definition trunc_uint64 : bool := {coq_bool(facts['trunc_uint64'])}.")
    L.append('')
    for t in facts['itys']:
        L.append(f"Definition ity_{t['name']} : ity := mkIty {coq_bool(t['signed'])} {t['width']}.")
    L.append('Definition all_itys : list ity := [' + '; '.join('ity_' + t['name'] for t in facts['itys']) + '].')
    L.append('')
    for c in facts['caps']:
        L.append(f"Definition caps_{c['name']} : caps := mkCaps {coq_bool(c['slope'])} {coq_bool(c['inter'])} {coq_bool(c['direct'])} {coq_bool(c['f32'])}.")
    L.append('Definition all_caps : list caps := [' + '; '.join('caps_' + c['name'] for c in facts['caps']) + '].')
    L.append('')
    return '\n'.join(L)


def gen_tables():
    txt = tables_text(platform_facts())
    p = os.path.join(COQ, 'C02', 'Tables.v')
    old = open(p).read() if os.path.exists(p) else None
    if old != txt:
        with open(p, 'w') as f:
            f.write(txt)


# --------------------------------------------------------------------------- integer layer
def np_flt(i):
    return getattr(np, FLT_NAMES[i])


def zs(v):
    """integer -> text for the model driver (hex for huge values: CPython limits decimal conversion)"""
    v = int(v)
    return str(v) if v.bit_length() < 4000 else hex(v)


def canon_float_int(r):
    """canonical form of a float scalar that should hold an integer value"""
    if np.isnan(r):
        return 'nan'
    if np.isinf(r):
        return 'pinf' if r > 0 else 'ninf'
    return 'fin ' + zs(int(r))


def classify_scaling(slope, inter):
    """the decision of calc_scale for integer data, from the (float32) values the writer reports"""
    if slope == 1.0 and inter == 0:
        return 'ok none'
    if slope == -1.0 and inter == 0:
        return 'ok flip'
    if slope == 1.0:
        return 'ok inter %d' % int(inter)
    return 'ok range'


def impl_int_op(op, args):
    """Run one integer-layer operation on the implementation; returns the canonical string."""
    from nibabel import casting
    from nibabel.arraywriters import WriterError, make_array_writer, get_slope_inter
    with warnings.catch_warnings():
        warnings.simplefilter('ignore')
        try:
            if op == 'fl2':
                return 'ok %d' % casting.floor_log2(args[0])
            if op == 'conv':
                try:
                    return 'ok ' + canon_float_int(np_flt(int(args[0]))(args[1]))
                except OverflowError:
                    return 'err overflow'
            if op == 'fe':
                return 'ok ' + canon_float_int(casting.floor_exact(args[1], np_flt(int(args[0]))))
            if op == 'ce':
                return 'ok ' + canon_float_int(casting.ceil_exact(args[1], np_flt(int(args[0]))))
            if op == 'sr':
                mn, mx = casting.shared_range(np_flt(int(args[0])), getattr(np, INT_NAMES[int(args[1])]))
                return 'ok ' + canon_float_int(mn) + ' ' + canon_float_int(mx)
            if op == 'ia':
                t = INT_NAMES[int(args[0])]
                return 'ok %d' % int(casting.int_abs(np.array(int(args[1]), dtype=t)))
            if op == 'wrap':
                t = INT_NAMES[int(args[0])]
                v = int(args[1])
                # C cast of an out-of-range integer = modular store; via a wide two's complement view
                u = np.array([v % 2 ** 64], dtype=np.uint64)
                return 'ok %d' % int(u.astype(t)[0])
            if op == 'cc':
                return 'ok %d' % int(np.can_cast(np.dtype(INT_NAMES[int(args[0])]), np.dtype(INT_NAMES[int(args[1])])))
            if op == 'iu':
                # the (u)int -> (u)int decision, observed through the PUBLIC writer API only: the
                # scaling the writer reports (slope, inter), classified by value
                k, tin, tout, mn, mx = int(args[0]), INT_NAMES[int(args[1])], INT_NAMES[int(args[2])], int(args[3]), int(args[4])
                hs, hi = {0: (False, False), 1: (True, False), 2: (True, True)}[k]
                data = np.array([mn, mx], dtype=tin)
                try:
                    w = make_array_writer(data, np.dtype(tout), hs, hi)
                except WriterError:
                    return 'err writer'
                slope, inter = get_slope_inter(w)
                return classify_scaling(float(np.float32(slope)), float(np.float32(inter)))
        except ValueError as e:
            return 'err value'
        except AssertionError:
            return 'err assert'
    raise RuntimeError('bad op ' + op)


def _next_int_above(t, x):
    """smallest integer representable in float type t that is > x (x representable); None if none"""
    from fractions import Fraction
    with np.errstate(all='ignore'):
        nx = np.nextafter(t(x), t(np.inf))
    if not np.isfinite(nx):
        return None
    if t is np.longdouble:
        d = nx - t(x)                     # exact (a power of two)
        return x + 1 if d < 1 else x + int(d)
    f = Fraction(float(nx))
    return x + 1 if f < x + 1 else int(f)


def int_predicate(op, a, r):
    """Direct statement of what the integer-layer function must return, evaluated on the
    implementation's own result r (independent of the model).  None = holds."""
    with warnings.catch_warnings():
        warnings.simplefilter('ignore')
        if op in ('fe', 'ce'):
            t = np_flt(a[0])
            v = a[1] if op == 'fe' else -a[1]           # ceil_exact(v) = -floor_exact(-v)
            fmax = int(np.finfo(t).max)
            if r == 'err value':
                return None if t is np.longdouble and abs(v).bit_length() > 4000 else 'unexpected ValueError'
            if not r.startswith('ok'):
                return 'unexpected ' + r
            x = r.split(None, 2)[1:]
            if op == 'ce':      # mirror the result
                x = {'pinf': ['ninf'], 'ninf': ['pinf']}.get(x[0], x if x[0] != 'fin' else ['fin', str(-int(x[1], 0))])
            if x[0] == 'pinf':
                return None if v > fmax else f'+inf returned although {zs(v)[:40]} <= largest finite'
            if x[0] == 'ninf':
                return None if v < -fmax else f'-inf returned although {zs(v)[:40]} >= -largest finite'
            if x[0] != 'fin':
                return 'not a number: ' + r[:40]
            X = int(x[1], 0)
            if X.bit_length() > 1100 and t is not np.longdouble:
                return 'result beyond the format'
            if int(t(X)) != X:
                return f'{zs(X)[:40]} is not representable in {t.__name__}'
            if X > v:
                return f'floor result {zs(X)[:40]} > {zs(v)[:40]}'
            nx = _next_int_above(t, X)
            if nx is not None and nx <= v:
                return f'{zs(nx)[:40]} is representable and lies in ({zs(X)[:40]}, {zs(v)[:40]}]: result is not the nearest'
            return None
        if op == 'sr':
            t = np_flt(a[0])
            ii = np.iinfo(INT_NAMES[a[1]])
            p = r.split()
            if p[0] != 'ok' or p[1] != 'fin' or p[3] != 'fin':
                return 'shared_range not finite: ' + r
            mn, mx = int(p[2], 0), int(p[4], 0)
            if not (int(ii.min) <= mn <= 0 <= mx <= int(ii.max)):
                return f'shared range [{mn}, {mx}] not inside the integer type'
            if int(t(mn)) != mn or int(t(mx)) != mx:
                return 'shared range bound not representable'
            nx = _next_int_above(t, mx)
            if nx is not None and nx <= int(ii.max):
                return f'max {mx} is not the largest representable value <= {int(ii.max)}'
            nb = _next_int_above(t, -mn)
            if nb is not None and -nb >= int(ii.min):
                return f'min {mn} is not the smallest representable value >= {int(ii.min)}'
            return None
        if op == 'ia':
            return None if r == 'ok %d' % abs(a[1]) else f'int_abs({a[1]}) gave {r}'
        if op == 'iu':
            k, tin, tout, mn, mx = a
            oi = np.iinfo(INT_NAMES[tout])
            lo, hi = int(oi.min), int(oi.max)
            # the decision is observed through the public (slope, inter) only; slope 1 can also come
            # out of range scaling (constant data, float32 rounding of the slope), so the value class
            # alone does not say that the data fit: the reload-error predicate on the array cases
            # (incl. the offset-decision boundary arrays) is the direct check of these decisions
            if r == 'err writer':
                fits = lo <= mn and mx <= hi
                legit = (k == 0 and not fits) or (k == 1 and lo == 0 and mn < 0 < mx)
                return None if legit else 'refused although the data fit / the writer can scale'
            return None
    return None


def interesting_ints(rng, n_random, fmts, big=True):
    """Integers around every rounding boundary of the formats: powers of two, +-1, half gaps,
    ties, the overflow thresholds, the integer type limits, plus random bit patterns."""
    vals = set()
    for f in fmts:
        p, em = f['prec'], f['emax']
        for k in list(range(0, 72)) + [p + 36, p + 37, 100, 127, 128, 129, 1023, 1024, em - 1, em]:
            if k > 1100 and not big:
                continue
            b = 2 ** k
            g = 2 ** max(0, k + 1 - p)
            for d in (0, 1, -1, 2, g // 2, g // 2 + 1, g // 2 - 1, g, g + 1, g - 1, 3 * g // 2, 3 * g // 2 + 1,
                      3 * g // 2 - 1, -g // 2, -g // 2 - 1, -g // 2 + 1):
                vals.add(b + d)
        mx = 2 ** em - 2 ** (em - p)
        hg = 2 ** (em - p - 1)
        if em <= 1100 or big:
            for d in (0, 1, -1, hg, hg - 1, hg + 1, 2 * hg, 2 * hg - 1):
                vals.add(mx + d)
        if f['via']:
            # double rounding: just above/below a tie of prec, within half a gap of the via precision
            for k in (p + 30, p + 33, 60, 62, 63, 64, 90):
                g = 2 ** (k + 1 - p)
                gv = 2 ** max(0, k + 1 - f['via'])
                for q in (0, 1, 2, 3, 2 ** (p - 1) - 1):
                    tie = 2 ** k + q * g + g // 2
                    for d in (0, 1, -1, gv // 2, gv // 2 + 1, gv // 2 - 1, -(gv // 2), -(gv // 2) - 1, gv, -gv):
                        vals.add(tie + d)
        if f['strlim']:
            for d in (0, 1, -1):
                vals.add(10 ** f['strlim'] + d)
    for w in (8, 16, 32, 64):
        for b in (2 ** w, 2 ** (w - 1)):
            for d in (-2, -1, 0, 1):
                vals.add(b + d)
    for _ in range(n_random):
        bits = rng.choice([rng.randrange(1, 70), rng.randrange(1, 70), rng.randrange(1, 200), rng.randrange(1, 1100)])
        v = rng.getrandbits(bits) | (1 << (bits - 1))
        if rng.random() < 0.5:
            # long run of ones/zeros after the leading bits: near-tie patterns
            keep = rng.randrange(1, bits + 1)
            v = (v >> (bits - keep)) << (bits - keep)
            v += rng.choice([0, 1, -1, (1 << (bits - keep)) >> 1])
        vals.add(v)
    out = set()
    for v in vals:
        out.add(v)
        out.add(-v)
    out.add(0)
    return sorted(out)


# --------------------------------------------------------------------------- float layer plumbing
KINFO = {0: (11, 16, 'float16', 'uint16'), 1: (24, 128, 'float32', 'uint32'), 2: (53, 1024, 'float64', 'uint64')}


def bits_to_sf(bits, k):
    """IEEE bit pattern of format k -> the model's text form (canonical mantissa/exponent)."""
    prec, emax = KINFO[k][:2]
    w = {0: 16, 1: 32, 2: 64}[k]
    ebits = w - prec
    s = bits >> (w - 1)
    E = (bits >> (prec - 1)) & ((1 << ebits) - 1)
    F = bits & ((1 << (prec - 1)) - 1)
    if E == (1 << ebits) - 1:
        return 'n' if F else 'i%d' % s
    if E == 0:
        if F == 0:
            return 'z%d' % s
        return 'f%d:%d:%d' % (s, F, 3 - emax - prec)
    return 'f%d:%d:%d' % (s, F + (1 << (prec - 1)), E - (emax - 1) - (prec - 1))


def sf_to_fraction(t):
    """model text form -> exact value (Fraction) or the strings 'nan', 'inf', '-inf'"""
    from fractions import Fraction
    if t == 'n':
        return 'nan'
    if t[0] == 'i':
        return '-inf' if t[1] == '1' else 'inf'
    if t[0] == 'z':
        return Fraction(0)
    s, m, e = t[1:].split(':')
    v = Fraction(int(m)) * (Fraction(2) ** int(e))
    return -v if s == '1' else v


def float_to_sf(x, k):
    """numpy float scalar of format k -> model text form"""
    dt = np.dtype(KINFO[k][2])
    bits = int(np.array(x, dtype=dt).view(KINFO[k][3]))
    return bits_to_sf(bits, k)


def canon_zero(t):
    return 'z0' if t == 'z1' else t


def layout(flat, shape, mem):
    """flat = elements in logical Fortran order; returns the array of that shape in memory layout mem:
    C, F (contiguous), T (transposed view of a C array: F-like strides, not owning), S (every second
    element of a wider C buffer: non-contiguous)"""
    a = flat.reshape(shape, order='F')
    if mem == 'C':
        return np.ascontiguousarray(a)
    if mem == 'F':
        return np.asfortranarray(a)
    if mem == 'T':
        return np.ascontiguousarray(a.T).T
    if mem == 'S':
        buf = np.zeros(a.shape[:-1] + (a.shape[-1] * 2,), dtype=a.dtype)
        buf[..., ::2] = a
        return buf[..., ::2]
    raise ValueError(mem)


def case_array(case):
    if case['kind'] == 'f':
        k = case['k']
        flat = np.array(case['bits'], dtype=KINFO[k][3]).view(KINFO[k][2])
    else:
        flat = np.array(case['vals'], dtype=INT_NAMES[case['t']])
    if 'shape' in case:
        return layout(flat, tuple(case['shape']), case.get('mem', 'C'))
    return flat


def case_data_text(case):
    if case['kind'] == 'f':
        return 'f%d %d %s' % (case['k'], len(case['bits']), ' '.join(bits_to_sf(b, case['k']) for b in case['bits']))
    return 'i%d %d %s' % (case['t'], len(case['vals']), ' '.join(str(v) for v in case['vals']))


CLASS_CAPS = ['nifti1', 'nifti2', 'spm99', 'spm2', 'analyze', 'mgh']      # order of all_caps in Tables.v
CLASS_OUT = {'nifti1': list(range(8)), 'nifti2': list(range(8)), 'spm99': [0, 3, 5], 'spm2': [0, 3, 5],
             'analyze': [0, 3, 5], 'mgh': [0, 3, 5]}
WKIND_OF_CLASS = {'nifti1': 2, 'nifti2': 2, 'spm99': 1, 'spm2': 1, 'analyze': 0}


def image_class(name):
    import nibabel as nib
    from nibabel.spm99analyze import Spm99AnalyzeImage
    from nibabel.spm2analyze import Spm2AnalyzeImage
    from nibabel.analyze import AnalyzeImage
    from nibabel.freesurfer.mghformat import MGHImage
    return {'nifti1': nib.Nifti1Image, 'nifti2': nib.Nifti2Image, 'spm99': Spm99AnalyzeImage,
            'spm2': Spm2AnalyzeImage, 'analyze': AnalyzeImage, 'mgh': MGHImage}[name]


def classify_exception(e, state=None):
    """Outcome class of a refusal: by exception TYPE, refined only by observable state (the scaling
    the writer reported before the write, when known) -- never by message text or by the name of
    the raising function.  state = (slope, inter) floats or None."""
    from nibabel.arraywriters import WriterError, ScalingError
    from nibabel.spatialimages import HeaderDataError, HeaderTypeError
    if isinstance(e, ScalingError):
        return 'scaling'
    if isinstance(e, WriterError):
        return 'writer'
    if isinstance(e, HeaderTypeError):
        return 'header_type'
    if isinstance(e, HeaderDataError):
        return 'header_data'
    if isinstance(e, AssertionError):
        return 'assert'
    if isinstance(e, ValueError):
        if state is not None:
            slope, inter = state
            if not (np.isfinite(slope) and np.isfinite(inter)):
                return 'value_notfinite'
            if slope == 0:
                return 'value_slopezero'
            return 'value_nanfill'
        return 'value'
    return f'other:{type(e).__name__}:{str(e)[:60]}'


def same_status(impl, model):
    """refusal classes of implementation and model agree (the model's finer classes are merged where
    the implementation raises one exception type and the state is not observable)"""
    if impl == model:
        return True
    if impl == 'err value':
        return model.startswith('err value')
    if impl == 'err assert':
        return model.startswith('err assert')
    return False


def warning_sites(wl):
    """(site, message) of the RuntimeWarnings recorded.  site is decided by the module the warning
    was raised in (public module file name) and NumPy's own message, never by nibabel source text
    or private function names: an invalid cast in volumeutils is the data cast of the write, one
    in arraywriters is the test cast of the scaling calculation."""
    out = []
    for w in wl:
        if not issubclass(w.category, RuntimeWarning):
            continue
        base = os.path.basename(w.filename)
        msg = str(w.message)
        invalid_cast = 'invalid value' in msg and 'cast' in msg          # NumPy's text
        if invalid_cast and base == 'volumeutils.py':
            site = 'write_cast'
        elif invalid_cast and base == 'arraywriters.py':
            site = 'range_scale_testcast'
        else:
            site = f'{base}'
        out.append((site, msg))
    return out


def back_text(back):
    """canonical text of the reloaded array: ints, or float64 values in the model's form"""
    if back.dtype.kind in 'iu':
        return '2:' + ','.join(str(int(v)) for v in back.ravel())
    if back.dtype == np.float64:
        return '2:' + ','.join(float_to_sf(v, 2) for v in back.ravel())
    if back.dtype == np.float32:
        return '1:' + ','.join(float_to_sf(v, 1) for v in back.ravel())
    return '3:' + ','.join(repr(v) for v in back.ravel())


def impl_write(case):
    """Run the implementation on one array case.  Returns dict(status='ok'|'err <enum>', slope, inter
    (model text form of the float32 values), raw (ints), back (array), warn (sites))."""
    from nibabel.arraywriters import make_array_writer, get_slope_inter
    from nibabel.volumeutils import apply_read_scaling, array_to_file
    arr = case_array(case)
    out = np.dtype(INT_NAMES[case['out']])
    res = {}
    state = None
    with warnings.catch_warnings(record=True) as wl:
        warnings.simplefilter('always')
        try:
            if case['route'] == 'w':
                hs, hi = {0: (False, False), 1: (True, False), 2: (True, True)}[case['wk']]
                w = make_array_writer(arr, out, hs, hi)
                slope, inter = get_slope_inter(w)
                state = (float(slope), float(inter))
                bio = io.BytesIO()
                w.to_fileobj(bio)
                raw = np.frombuffer(bio.getvalue(), dtype=out)
                slope32, inter32 = np.float32(slope), np.float32(inter)
                if float(slope32) != float(slope) or float(inter32) != float(inter):
                    raise RuntimeError('writer slope/inter are not float32 values')
                # reload as ArrayProxy does: Python floats from the header fields
                back = apply_read_scaling(raw, np.asanyarray(float(slope32)), np.asanyarray(float(inter32)))
            else:
                from nibabel.fileholders import FileHolder
                klass = image_class(case['cls'])
                hdr = klass.header_class()
                hdr.set_data_dtype(out)
                img = klass(arr if arr.ndim >= 3 else arr.reshape(arr.shape + (1,) * (3 - arr.ndim)), np.eye(4), header=hdr)
                fm = {k: FileHolder(fileobj=io.BytesIO()) for k in klass.make_file_map()}
                img.to_file_map(fm)
                fm2 = {k: FileHolder(fileobj=io.BytesIO(v.fileobj.getvalue())) for k, v in fm.items()}
                img2 = klass.from_file_map(fm2)
                ps, pi = img2.dataobj.slope, img2.dataobj.inter
                slope32, inter32 = np.float32(ps), np.float32(pi)
                if float(slope32) != float(ps) or float(inter32) != float(pi):
                    raise RuntimeError('proxy slope/inter are not float32 values')
                raw = np.asarray(img2.dataobj.get_unscaled()).ravel(order='F')
                if raw.dtype.newbyteorder('=') != out:
                    raise RuntimeError(f'on-disk dtype {raw.dtype} is not {out}')
                back = np.asarray(img2.dataobj).ravel(order='F')
                res['proxy_slope'] = float(img2.dataobj.slope)
                res['proxy_inter'] = float(img2.dataobj.inter)
            res.update(status='ok', slope=float_to_sf(slope32, 1), inter=float_to_sf(inter32, 1),
                       raw=[int(v) for v in raw.ravel()], back=back, slope_f=float(slope32), inter_f=float(inter32))
        except Exception as e:  # noqa: every exception is a refusal, classified by type and site
            res.update(status='err ' + classify_exception(e, state))
    res['warn'] = warning_sites(wl)
    return res


def model_line(i, case):
    if case['route'] == 'w':
        return f"{i} w {case['wk']} {case['out']} {case_data_text(case)}"
    return f"{i} img {CLASS_CAPS.index(case['cls'])} {case['out']} {case_data_text(case)}"


def parse_model(r):
    """model output -> dict like impl_write's"""
    if r.startswith('err'):
        return {'status': r}
    p = r.split()
    d = {'status': 'ok', 'slope': p[1], 'inter': p[2]}
    for tok in p[3:]:
        k, _, v = tok.partition('=')
        d[k] = v
    d['raw'] = [int(x) for x in d['raw'].strip('[]').split(',') if x]
    return d


# --------------------------------------------------------------------------- array cases
def _fbits(vals, k):
    with np.errstate(all='ignore'):
        a = np.array(vals, dtype=np.float64).astype(KINFO[k][2])
    return [int(b) for b in np.atleast_1d(a).view(KINFO[k][3])]


def fcase(k, vals, out, **kw):
    return dict(kind='f', k=k, bits=_fbits(vals, k), out=out, **kw)


def icase(t, vals, out, **kw):
    ii = np.iinfo(INT_NAMES[t])
    return dict(kind='i', t=t, vals=[max(int(ii.min), min(int(ii.max), int(v))) for v in vals], out=out, **kw)


CONSTS = [16777219.0, 0.1, -3.7, 1e30, 2.0 ** 53 + 2, 65504.0, 1e-40, 7.0, 33554435.0, -16777217.0, 1e38, 3e38,
          1e-45, 255.0, 256.0, -128.5, 1e300, -1e-310, 4294967297.0, 0.5, -0.5, 2.0 ** 63, -2.0 ** 63 - 1025]


QUICK_CORE_SKIP = ('nifti2', 'spm2')      # same code path as nifti1 / spm99 up to the header class


def routes_for(out, rng=None, all_routes=False):
    """the ways a case can be written: the three writer classes directly, and every image class
    that supports the on-disk type"""
    r = [dict(route='w', wk=wk) for wk in (2, 1, 0)]
    r += [dict(route='img', cls=c) for c in CLASS_CAPS if out in CLASS_OUT[c]]
    return r


def offset_boundaries(t, out):
    """(min, max) pairs on the boundary of the offset-only decision of _iu2iu: the data range equals
    the output range (+-1) and the minimum is (not) a float32, so that floor_exact(min) moves the
    data by 0, 1 or 2 against the upper limit"""
    ti, oi = np.iinfo(INT_NAMES[t]), np.iinfo(INT_NAMES[out])
    R = int(oi.max) - int(oi.min)
    res = []
    if R >= 2 ** 24:
        return res
    for base in (2 ** 24 + 1, 2 ** 24 + 2, 2 ** 25 + 2, 2 ** 25 + 3, -(2 ** 24) - 1 - R, -(2 ** 25) - 3 - R, 5, -5 - R):
        for span in (R, R - 1, R + 1):
            if int(ti.min) <= base and base + span <= int(ti.max):
                res.append([base, base + span])
    return res


def core_cases(quick=False):
    """seed-independent part: constants, type-limit ranges, NaN/inf mixtures, all-NaN, all-zero, tiny and
    huge ranges x every integer on-disk type x every route"""
    cases = []
    nan, inf = float('nan'), float('inf')
    for out in range(8):
        ii = np.iinfo(INT_NAMES[out])
        lo, hi = float(ii.min), float(ii.max)
        arrays = []
        for k in (0, 1, 2):
            arrays += [(k, [c] * 2) for c in CONSTS[:8]] if k != 2 else [(k, [c] * 2) for c in CONSTS]
            arrays += [(k, [0.0, hi]), (k, [lo, 0.0]), (k, [lo, hi]), (k, [0.0, hi + 0.49]), (k, [lo - 0.49, 1.0]),
                       (k, [0.0, hi * 2]), (k, [1.0, 2.0, hi + 1]), (k, [lo - 1, -1.0]),
                       (k, [nan, 1.5, 3.0]), (k, [nan, inf, -inf, -34.567]), (k, [nan, nan]), (k, [inf, -inf]),
                       (k, [0.0, 0.0]), (k, [0.0, nan]), (k, [0.0, inf]), (k, [-0.0, 0.0, 5.0]), (k, [nan, 10.0, 60.0]),
                       (k, [nan, -10.0, -60.0]), (k, [1e-40, 1e38]), (k, [1.8e-41, -4.4e-41, 7.7e-41]),
                       (k, [-1e-40, 3e38]), (k, [1e-7, 2e-7]), (k, [100.0, 100.0 + 2.0 ** -10]),
                       (k, [-3e38, 3e38]), (k, [nan, 1e30, inf]), (k, [-5.0, 250.0]), (k, [-250.0, 0.0]),
                       # an extreme FINITE value of exactly 0 next to infinities: a clip threshold of 0 is a threshold
                       # (seeded C02-10: `mx or dt_mx` treated it as "none given")
                       (k, [-2.0, -1.0, 0.0, inf]), (k, [0.0, 1.0, 2.0, -inf]), (k, [-250.0, 0.0, inf, -inf]),
                       (k, [0.0, 300.0, inf, -inf]), (k, [-0.0, -7.5, inf]), (k, [nan, -3.0, 0.0, inf]),
                       (k, [nan, 3.0, 0.0, -inf])]
        for k, vals in arrays:
            for r in routes_for(out):
                if quick and r.get('cls') in QUICK_CORE_SKIP:
                    continue
                cases.append(fcase(k, vals, out, **r))
        for t in range(8):
            ti = np.iinfo(INT_NAMES[t])
            tl, th = int(ti.min), int(ti.max)
            for vals in list(([tl, th], [tl, 0], [0, th], [th - 200, th], [tl, tl + 200], [0, 0], [3, 3], [tl, tl],
                         [th, th], [-5, 250], [-250, 0], [-1, 1], [100, 300], [2 ** 24 + 1, 2 ** 24 + 201],
                         [-2 ** 31, 2 ** 31 - 1], [0, 2 ** 32], [2 ** 53 + 1, 2 ** 53 + 3])) + offset_boundaries(t, out):
                for nr, r in enumerate(routes_for(out)):
                    if quick and (r.get('cls') in QUICK_CORE_SKIP or
                                  (r['route'] == 'img' and (nr + t + out + len(cases)) % 2)):
                        continue
                    cases.append(icase(t, vals, out, **r))
    return cases


SHAPES = [(4, 4), (2, 3, 4), (3, 1, 5), (4, 4, 1), (2, 2, 2, 2), (2, 8), (5, 3), (1, 4, 3)]


def slab_array(shape, mem, slabs):
    """Build the logical-F-order element list of an array of `shape` whose finite_range slabs (rows
    along the slowest memory axis) are the given lists.  For C-like layouts the slabs run along the
    first axis, for F-like layouts (F, T) along the last."""
    sl = np.array(slabs, dtype=np.float64)
    if mem in ('C', 'S'):
        a = sl.reshape(shape)                       # slab i = a[i]
    else:
        a = sl.reshape(shape[::-1]).T               # slab i = a[..., i]
    return a.ravel(order='F')


def slab_dims(shape, mem):
    n = shape[0] if mem in ('C', 'S') else shape[-1]
    return n, int(np.prod(shape)) // n


def slab_patterns(nsl, size, big=1000.0):
    """NaN / inf / extreme placements relative to the slabs (the cached flags of finite_range are per
    slab): every pattern is a list of nsl slabs of `size` values"""
    nan, inf = float('nan'), float('inf')

    def base():
        return [[float((3 * i + 7 * j) % 10) + 0.25 for j in range(size)] for i in range(nsl)]
    pats = []
    last = nsl - 1
    p = base(); p[last][0] = nan; p[last][size - 1] = big; pats.append(('clean_first_nan_later_max_same', p))
    if nsl > 2:
        p = base(); p[1][0] = nan; p[last][size - 1] = big; pats.append(('clean_first_nan_mid_max_after', p))
        p = base(); p[1] = [nan] * size; p[last][0] = -big; pats.append(('all_nan_slab_mid_min_after', p))
        p = base(); p[1] = [inf] * size; p[last][0] = big; pats.append(('all_inf_slab_mid_max_after', p))
    p = base(); p[0][0] = nan; p[last][size - 1] = big; pats.append(('nan_first_max_last', p))
    p = base(); p[0][size - 1] = big; p[last][0] = nan; p[last][size - 1] = -big; pats.append(('max_first_nan_later_min_same', p))
    p = base(); p[last][0] = inf; p[last][size - 1] = big; pats.append(('inf_later_max_same', p))
    p = base(); p[0][0] = -inf; p[last][0] = -big; pats.append(('ninf_first_min_later', p))
    p = base(); p[last][0] = nan; p[last][size - 1] = -big; pats.append(('clean_first_nan_later_min_same', p))
    p = base(); p[last][0] = nan; p[last][size - 1] = inf; p[0][0] = big; pats.append(('nan_and_inf_later', p))
    p = base(); p[0][0] = inf; p[last][0] = nan; p[last][size - 1] = big; pats.append(('inf_first_nan_later_max_same', p))
    p = base(); p[last][size - 1] = big; pats.append(('no_nan_max_last', p))
    return pats


def multislab_core(quick=False):
    """seed-independent multi-slab arrays: 2-D/3-D/4-D shapes x memory layouts x NaN/inf/extreme
    placements per slab, through the array writers directly and through the image classes"""
    cases = []
    n = 0
    for shape in SHAPES:
        for mem in ('C', 'F', 'T', 'S'):
            nsl, size = slab_dims(shape, mem)
            if nsl < 2:
                continue
            for name, slabs in slab_patterns(nsl, size):
                flat = slab_array(shape, mem, slabs)
                for out in (0, 3, 5, 6):
                    for k in (1, 2, 0):
                        routes = routes_for(out)
                        if k == 0:
                            routes = [r for r in routes if r['route'] == 'w']
                        for r in routes:
                            if r.get('cls') == 'mgh' and not 3 <= len(shape) <= 4:
                                continue
                            n += 1
                            if quick and (r.get('cls') in QUICK_CORE_SKIP or n % 7):
                                continue
                            c = fcase(k, list(flat), out, **r)
                            c.update(shape=list(shape), mem=mem, fam='slab:' + name)
                            cases.append(c)
    return cases


def multislab_random(rng, n):
    nan, inf = float('nan'), float('inf')
    cases = []
    for _ in range(n):
        shape = rng.choice(SHAPES)
        mem = rng.choice(['C', 'F', 'T', 'S'])
        nsl, size = slab_dims(shape, mem)
        scale = 10.0 ** rng.randint(-3, 6)
        slabs = [[rng.gauss(0, 1) * scale for _ in range(size)] for _ in range(nsl)]
        for _ in range(rng.choice([1, 1, 2, 3])):
            slabs[rng.randrange(nsl)][rng.randrange(size)] = rng.choice([nan, nan, inf, -inf])
        if rng.random() < 0.7:     # an extreme value in a late slab
            slabs[rng.randrange(max(0, nsl - 2), nsl)][rng.randrange(size)] = rng.choice([1, -1]) * scale * rng.choice([50, 1e3, 1e6])
        if rng.random() < 0.15:
            slabs[rng.randrange(nsl)] = [rng.choice([nan, inf, -inf])] * size
        out = rng.randrange(8)
        k = rng.choice([1, 2, 2, 0])
        routes = routes_for(out)
        if k == 0:
            routes = [r for r in routes if r['route'] == 'w']
        routes = [r for r in routes if not (r.get('cls') == 'mgh' and not 3 <= len(shape) <= 4)]
        c = fcase(k, list(slab_array(shape, mem, slabs)), out, **rng.choice(routes))
        c.update(shape=list(shape), mem=mem, fam='slab:random')
        cases.append(c)
    return cases


def finite_range_item(chk, cases, mod_lines_prefix='R'):
    """finite_range(arr) and finite_range(arr, check_nan=True) against the exact (min, max, has_nan) over
    the finite elements (direct predicate) and against the model's finite_range_f.  Returns the
    model lines and a function evaluating the results."""
    from nibabel.volumeutils import finite_range
    sel, seen = [], set()
    for i, c in enumerate(cases):
        if c['kind'] == 'f' and ('shape' in c or i % 5 == 0):
            key = (c['k'], tuple(c['bits']), tuple(c.get('shape', ())), c.get('mem'))
            if key not in seen:       # the same array is written through several routes / on-disk types
                seen.add(key)
                sel.append((i, c))
    lines = [f"R{i} fr {c['k']} {len(c['bits'])} " + ' '.join(bits_to_sf(b, c['k']) for b in c['bits']) for i, c in sel]

    def evaluate(mod):
        for i, c in sel:
            arr = case_array(c)
            k = c['k']
            with warnings.catch_warnings():
                warnings.simplefilter('ignore')
                mn, mx, hn = finite_range(arr, check_nan=True)
                mn2, mx2 = finite_range(arr)
            xs = exact_inputs(c)
            fin = [x for x in xs if not isinstance(x, str)]
            want_hn = any(x == 'nan' for x in xs)
            got = (sf_to_fraction(float_to_sf(mn, k)), sf_to_fraction(float_to_sf(mx, k)), bool(hn))
            got2 = (sf_to_fraction(float_to_sf(mn2, k)), sf_to_fraction(float_to_sf(mx2, k)))
            want = (min(fin), max(fin), want_hn) if fin else ('inf', '-inf', want_hn)
            chk.count(key=('finite_range', tuple(c.get('shape', ())), c.get('mem'), k, tuple(c['bits'])),
                      tag='finite_range:' + ('multislab' if 'shape' in c else 'flat'))
            pred = None
            if got != want:
                pred = f'finite_range(arr, check_nan=True) = {got[0]!s}, {got[1]!s}, {got[2]} but the finite elements have min {want[0]!s}, max {want[1]!s}, has_nan {want[2]}'
            elif got2 != want[:2]:
                pred = f'finite_range(arr) = {got2[0]!s}, {got2[1]!s} but the finite elements have min {want[0]!s}, max {want[1]!s}'
            impl_txt = 'ok %s %s %d' % (canon_zero(float_to_sf(mn, k)), canon_zero(float_to_sf(mx, k)), int(bool(hn)))
            m = mod.get(f'R{i}', '<missing>').split()
            m_txt = ' '.join([m[0]] + [canon_zero(t) for t in m[1:3]] + m[3:]) if len(m) == 4 else ' '.join(m)
            if pred:
                chk.violation('property_violation', case=case_desc(c), predicate=pred, impl_output=impl_txt, model_output=m_txt)
            if impl_txt != m_txt:
                chk.disagreements += 1
                if not pred:
                    chk.violation('correspondence', case=case_desc(c), impl_output=impl_txt, model_output=m_txt, found_input=False,
                                  predicate='finite_range: model and implementation disagree; the direct predicate holds',
                                  theorem='correspondence C02/ModelF.v finite_range_f <-> nibabel/volumeutils.py finite_range')
    return lines, evaluate


def random_cases(rng, n):
    cases = []
    nan, inf = float('nan'), float('inf')
    for _ in range(n):
        out = rng.randrange(8)
        ii = np.iinfo(INT_NAMES[out])
        lo, hi = float(ii.min), float(ii.max)
        r = rng.choice(routes_for(out))
        ne = rng.choice([1, 2, 2, 3, 4, 5, 8, 16])
        if rng.random() < 0.72:
            k = rng.choice([0, 1, 1, 2, 2])
            fam = rng.choice(['const', 'onesided', 'wide', 'tiny', 'span', 'mixed', 'limits', 'integral', 'nan0',
                              'huge', 'narrow', 'allnan', 'zero'])
            g = rng.gauss
            if fam == 'const':
                vals = [rng.choice(CONSTS + [g(0, 1) * 10 ** rng.randint(-5, 20)])] * ne
            elif fam == 'onesided':
                base = rng.choice([0.0, 1.0, -1.0, 100.0, -1e5, hi, lo])
                sc = 10.0 ** rng.randint(-3, 6)
                vals = [base + abs(g(0, 1)) * sc * rng.choice([1, 1, -1]) for _ in range(ne)]
                if rng.random() < 0.5:
                    vals[0] = base
            elif fam == 'wide':
                vals = [g(0, 1) * 10.0 ** rng.randint(-30, 30) for _ in range(ne)]
            elif fam == 'tiny':
                vals = [g(0, 1) * rng.choice([1e-40, 1e-38, 1e-44, 1e-310, 1e-7]) for _ in range(ne)]
            elif fam == 'span':
                vals = [rng.choice([1, -1]) * 10.0 ** rng.uniform(-40, 38) for _ in range(ne)]
            elif fam == 'mixed':
                vals = [g(0, 100) for _ in range(ne)]
                vals[0] = nan
                if ne > 2:
                    vals[1] = inf
                    vals[2] = -inf
                elif ne > 1:
                    vals[1] = rng.choice([inf, -inf])
            elif fam == 'limits':
                vals = [rng.choice([lo, hi, 0.0, lo - 0.5, hi + 0.5, lo + 1, hi - 1, hi * 2, lo * 2 - 2, hi / 2])
                        + rng.choice([0.0, 0.0, 0.25, -0.25, 0.5, 1.0]) for _ in range(ne)]
            elif fam == 'integral':
                vals = [float(rng.randint(int(lo), int(hi))) for _ in range(ne)]
            elif fam == 'nan0':
                s = rng.choice([1, -1])
                vals = [s * (abs(g(0, 1)) * 50 + 10) for _ in range(ne)]
                vals[0] = nan
            elif fam == 'huge':
                vals = [g(0, 1) * rng.choice([1e38, 3e38, 1e300, 1e308, 6e4, 1e19, 1.8e19]) for _ in range(ne)]
            elif fam == 'narrow':
                c = g(0, 1) * 10.0 ** rng.randint(0, 12)
                vals = [c * (1 + rng.random() * 2.0 ** -rng.randint(10, 45)) for _ in range(ne)]
            elif fam == 'allnan':
                vals = [rng.choice([nan, nan, inf, -inf]) for _ in range(ne)]
            else:
                vals = [rng.choice([0.0, -0.0, 0.0, nan, inf]) if rng.random() < 0.3 else 0.0 for _ in range(ne)]
            c = fcase(k, vals, out, **r)
            c['fam'] = fam
        else:
            t = rng.randrange(8)
            ti = np.iinfo(INT_NAMES[t])
            tl, th = int(ti.min), int(ti.max)
            fam = rng.choice(['full', 'rand', 'offset', 'neg', 'outlim', 'const', 'small'])
            if fam == 'full':
                vals = [tl, th] + [rng.randint(tl, th) for _ in range(ne)]
            elif fam == 'rand':
                b = rng.randint(1, ti.bits)
                vals = [rng.choice([-1, 1]) * rng.getrandbits(b) for _ in range(ne)]
            elif fam == 'offset':
                base = rng.randint(tl, th)
                span = rng.choice([int(hi - lo), int(hi - lo) + 1, int(hi - lo) // 2, 200, 2 ** 24, int(hi - lo) - 1,
                                   int(hi - lo) - 130])
                vals = [base, base + span] + [base + rng.randint(0, max(1, span)) for _ in range(ne)]
            elif fam == 'neg':
                m = rng.choice([int(hi), int(hi) + 1, int(hi) // 2, 2 ** 24 + 1, int(hi) - 1, 127, 128, 255, 256])
                vals = [-m, 0][:rng.choice([1, 2])] + [-rng.randint(0, m) for _ in range(ne)]
            elif fam == 'outlim':
                vals = [rng.choice([int(lo), int(hi), int(lo) - 1, int(hi) + 1, 0, int(hi) // 2]) + rng.choice([0, 1, -1])
                        for _ in range(ne + 1)]
            elif fam == 'const':
                vals = [rng.choice([tl, th, 0, 3, rng.randint(tl, th), 2 ** 24 + 3])] * ne
            else:
                vals = [rng.randint(-300, 300) for _ in range(ne)]
            c = icase(t, vals[:16], out, **r)
            c['fam'] = 'int:' + fam
        cases.append(c)
    return cases


# --------------------------------------------------------------------------- the property predicate
FLOAT_ALLOWANCE = ('(|inter| + max|finite input|) * 2^-22 + |slope| * 2^-20  (rounding of the float32 slope/intercept '
                   'actually stored and of the working-precision arithmetic; float32 reload for SPM)')


def exact_inputs(case):
    from fractions import Fraction
    if case['kind'] == 'i':
        return [Fraction(v) for v in case['vals']]
    out = []
    for b in case['bits']:
        out.append(sf_to_fraction(bits_to_sf(b, case['k'])))
    return out


def predicate(case, r):
    """The property evaluated directly on the implementation's result r (status ok).  Returns None
    (holds) or a text saying what fails."""
    from fractions import Fraction
    xs = exact_inputs(case)
    back = r['back']
    fin = [x for x in xs if not isinstance(x, str)]
    has_nan = any(x == 'nan' for x in xs)
    mn_f = min(fin) if fin else Fraction(0)
    mx_f = max(fin) if fin else Fraction(0)
    lo = min(mn_f, 0) if has_nan else mn_f
    hi = max(mx_f, 0) if has_nan else mx_f
    step = abs(Fraction(r['slope_f']))
    inter = Fraction(r['inter_f'])
    allow = (abs(inter) + max(abs(lo), abs(hi))) * Fraction(1, 2 ** 22) + step * Fraction(1, 2 ** 20)
    bs = []
    for v in back.ravel():
        if back.dtype.kind == 'f' and not np.isfinite(v):
            return f'reloaded value {v!r} is not finite'
        bs.append(Fraction(int(v)) if back.dtype.kind in 'iu' else Fraction(float(v)))
    if len(bs) != len(xs):
        return 'reloaded array has another length'
    for j, (x, b) in enumerate(zip(xs, bs)):
        if b > hi + step + allow or b < lo - step - allow:
            return (f'element {j}: reloaded {float(b)!r} leaves the finite input range [{float(lo)!r}, {float(hi)!r}] '
                    f'by more than one step ({float(step)!r}) [wrap-around or clipping]')
        if x == 'nan':
            if abs(b) > step / 2 + allow:
                return f'element {j}: NaN reloads as {float(b)!r}, not ~0 (step {float(step)!r})'
        elif x == 'inf':
            if abs(b - mx_f) > step + allow:
                return f'element {j}: +inf reloads as {float(b)!r}, largest finite input is {float(mx_f)!r}'
        elif x == '-inf':
            if abs(b - mn_f) > step + allow:
                return f'element {j}: -inf reloads as {float(b)!r}, smallest finite input is {float(mn_f)!r}'
        else:
            if abs(b - x) > step / 2 + allow:
                return (f'element {j}: {float(x)!r} reloads as {float(b)!r}: error {float(abs(b - x))!r} > step/2 '
                        f'({float(step / 2)!r}) + allowance ({float(allow)!r})')
    return None


def proved_bound_check(case, r):
    """The inequalities of theorems C02_float_gap_slope_only and C02_float_gap_intercept, evaluated
    verbatim where their hypotheses hold: float64 data (binary64 working format), binary64 reload,
    every finite element within the no-overflow guard, and the element unclipped (stored integer =
    rint(RN(RN(x - i)/s))):
        intercept 0:   |reload - x| <= |s|/2 + |x| * 2^-52 + |s| * 2^-52
        intercept i:   |reload - x| <= |s|/2 + (|x| + |i| + |s|) * 2^-49
    Returns (elements checked in the slope-only regime, in the intercept regime, message or None)."""
    from fractions import Fraction
    if case['kind'] != 'f' or case['k'] != 2 or r.get('status') != 'ok':
        return 0, 0, None
    if r['slope_f'] == 0.0 or r['back'].dtype != np.float64:
        return 0, 0, None
    s = Fraction(r['slope_f'])
    i = Fraction(r['inter_f'])
    xs = exact_inputs(case)
    fin = [x for x in xs if not isinstance(x, str)]
    lim = 2 ** 52 if i == 0 else 2 ** 51          # |RN(x - i)/s| <= 2^52 follows from |(x - i)/s| <= 2^51
    if not fin or any(abs((x - i) / s) > lim for x in fin):
        return 0, 0, None
    n0 = n1 = 0
    back = r['back'].ravel()
    arr = case_array(case).ravel(order='F')
    with np.errstate(all='ignore'):
        k_rn = np.rint((arr - np.float64(r['inter_f'])) / np.float64(r['slope_f']))   # rint(RN(RN(x - i)/s))
    for j, x in enumerate(xs):
        if isinstance(x, str) or float(k_rn[j]) != float(r['raw'][j]):
            continue                                        # NaN/inf or clipped: theorem (d)
        b = Fraction(float(back[j]))
        if i == 0:
            n0 += 1
            bound = abs(s) / 2 + abs(x) * Fraction(1, 2 ** 52) + abs(s) * Fraction(1, 2 ** 52)
            thm = 'C02_float_gap_slope_only: |s|/2 + |x|*2^-52 + |s|*2^-52'
        else:
            n1 += 1
            bound = abs(s) / 2 + (abs(x) + abs(i) + abs(s)) * Fraction(1, 2 ** 49)
            thm = 'C02_float_gap_intercept: |s|/2 + (|x|+|i|+|s|)*2^-49'
        if abs(b - x) > bound:
            return n0, n1, (f'element {j}: {float(x)!r} reloads as {float(b)!r}: error {float(abs(b - x))!r} exceeds the '
                            f'PROVED bound {float(bound)!r} of {thm}')
    return n0, n1, None


def known_signature(case, r, pred):
    """Structural classification of a predicate failure (call site + input shape)."""
    from fractions import Fraction
    if case.get('cls') == 'mgh':
        ii = np.iinfo(INT_NAMES[case['out']])
        xs = exact_inputs(case)
        if any(isinstance(x, str) and x != 'nan' for x in xs) or \
                any((not isinstance(x, str)) and (x < int(ii.min) - Fraction(1, 2) or x > int(ii.max) + Fraction(1, 2)) for x in xs):
            return 'S-C02b'
    s = abs(r.get('slope_f', 1.0))
    if r.get('status') == 'ok' and 0 < s < 2.0 ** -126:
        return 'S-C02c'
    return None


# --------------------------------------------------------------------------- the check
UNPROVED = [
    'C02_float_gap (general statement): NOT PROVED - that every finite element of the exact float pipeline reloads '
    'within |slope|/2 + the stated allowance of its value (false for subnormal stored slopes, finding S-C02c). '
    'Proved for the binary64 working format, per element: C02_write_read_rounding (write and read are compositions of '
    'rounding operators), C02_float_gap_slope_only (explicit bound |s|/2 + |x|*2^-52 + |s|*2^-52, evaluated verbatim '
    'by this harness in its regime), C02_float_gap_intercept_partial (ulp form), C02_clipped_above/_below, '
    'C02_setter_rounding (float32 setter: relative error 2^-24, absolute 2^-150 when subnormal), plus '
    'C02_no_wrap_float(_platform/_inputs) and C02_reload_is_rounding. Missing exactly: (1) the float32 and longdouble '
    'working formats and the float32 reload of SPM99; (2) done (C02_float_gap_intercept per element, '
    'C02_array_gap_slope_inter for whole float64 arrays on the NIfTI path; both bounds evaluated verbatim by this '
    'harness); (3) whole-array lift done for float64 arrays on the SPM and NIfTI paths - not for arrays with NaN/inf '
    'inside the lift, not for 32/64-bit integer arrays; the guards are hypotheses on (array, stored slope/intercept): '
    'C02_guard_from_range_partial reduces the slope-only guard to M*2^-n <= S for the longdouble slope S of '
    '_range_scale (the identification of the longdouble division/max of the model with correct rounding is missing), '
    'nothing yet for the guard on x - i of the slope+intercept writer; (4) how far extreme elements '
    'overshoot the clip range: C02_setter_rounding gives the 2^-24 relative error of the stored slope/intercept for '
    'ideal magnitudes >= 2^-126 (not yet turned into a bound on the overshoot), C02_subnormal_slope_refuted shows the '
    'failure below 2^-126 (finding S-C02c); (5) comparison of the proved allowances with the harness '
    'allowance outside the slope-only regime. Measured on every case by the direct predicate; the float layer is '
    'tied to the implementation bit for bit',
    'NumPy rint / clip / astype / int->float conversions are modelled (Flocq Bnearbyint, Bcompare, binary_normalize) '
    'and compared bit for bit, not verified',
]


def sf_coq(t):
    if t == 'n':
        return 'S754_nan'
    if t[0] == 'z':
        return 'S754_zero ' + ('true' if t[1] == '1' else 'false')
    if t[0] == 'i':
        return 'S754_infinity ' + ('true' if t[1] == '1' else 'false')
    s, m, e = t[1:].split(':')
    return 'S754_finite %s %s (%s)' % ('true' if s == '1' else 'false', m, e)


def case_coq_data(case):
    if case['kind'] == 'f':
        return 'InF %s [%s]' % (['K16', 'K32', 'K64'][case['k']],
                                '; '.join(sf_coq(bits_to_sf(b, case['k'])) for b in case['bits']))
    return 'InI ity_%s [%s]' % (INT_NAMES[case['t']], '; '.join('(%d)' % v for v in case['vals']))


def case_coq_call(case):
    t = 'ity_' + INT_NAMES[case['out']]
    if case['route'] == 'w':
        return 'writer_write %s (%s) %s' % (['WPlain', 'WSlope', 'WSlopeInter'][case['wk']], case_coq_data(case), t)
    return 'image_write caps_%s (%s) %s' % (case['cls'], case_coq_data(case), t)


def case_desc(c):
    d = {k: c[k] for k in ('kind', 'out', 'route') if k in c}
    for k in ('k', 'bits', 't', 'vals', 'wk', 'cls', 'fam', 'shape', 'mem'):
        if k in c:
            d[k] = c[k]
    d['in_dtype'] = KINFO[c['k']][2] if c['kind'] == 'f' else INT_NAMES[c['t']]
    d['out_dtype'] = INT_NAMES[c['out']]
    d['values'] = [repr(v) for v in case_array(c).ravel(order='F').tolist()]
    d['note'] = 'values/bits are listed in logical Fortran order of the array of the given shape; mem = memory layout'
    return d


def int_layer(chk, facts):
    """correspondence of the integer layer; returns (lines, ops)"""
    rng = chk.rng
    vals = interesting_ints(rng, chk.n(260, 4000), facts['fmts'], big=False)
    small = [v for v in vals if v.bit_length() <= 140]
    mid = [v for v in vals if 140 < v.bit_length() <= 1100]
    if chk.tier == 'quick':
        mid = sorted(mid, key=lambda v: (v.bit_length(), v))[::11]
    # a handful of huge integers (exponent range of longdouble, the CPython string limit)
    huge = []
    for f in facts['fmts']:
        if f['emax'] > 1100:
            p, em = f['prec'], f['emax']
            mx = 2 ** em - 2 ** (em - p)
            huge += [mx, mx + 2 ** (em - p - 1), -(mx + 2 ** (em - p - 1)) + 1]
        if f['strlim']:
            huge += [10 ** f['strlim'] - 1, 10 ** f['strlim'], -(10 ** f['strlim'])]
    ops = []
    quick = chk.tier == 'quick'
    for fi, f in enumerate(facts['fmts']):
        for n, v in enumerate(small + mid):
            # floor_exact/ceil_exact call the conversion themselves; in the quick tier the bare
            # conversion is compared on every third value only, ceil on every second
            for op in ('conv', 'fe', 'ce'):
                if quick and ((op == 'conv' and n % 3) or (op == 'ce' and n % 2)):
                    continue
                ops.append((op, [fi, v]))
        if f['emax'] > 1100:
            for v in huge:
                ops.append(('fe', [fi, v]))
    for v in small:
        if v:
            ops.append(('fl2', [v]))
    for fi in range(len(facts['fmts'])):
        for ti in range(8):
            ops.append(('sr', [fi, ti]))
    for a in range(8):
        for b in range(8):
            ops.append(('cc', [a, b]))

    def tvals(t, k):
        ii = np.iinfo(INT_NAMES[t])
        lo, hi = int(ii.min), int(ii.max)
        s = {lo, lo + 1, hi, hi - 1, 0, 1, -1, 2, lo // 2, hi // 2, hi // 2 + 1, lo // 2 - 1, 127, 128, 255, 256, -128,
             -129, 32767, 32768, -32768, -32769, 65535, 65536, 2 ** 31 - 1, 2 ** 31, -2 ** 31, -2 ** 31 - 1, 2 ** 32 - 1,
             2 ** 32, 2 ** 63 - 1, 2 ** 63, -2 ** 63, 2 ** 24, 2 ** 24 + 1, 2 ** 24 - 1, -2 ** 24 - 1, 2 ** 53 + 1,
             2 ** 63 - 2 ** 39, 2 ** 63 - 2 ** 39 + 1, 2 ** 64 - 2 ** 40, 2 ** 64 - 2 ** 40 + 1}
        for _ in range(k):
            s.add(rng.randrange(lo, hi + 1))
            b = rng.randrange(1, ii.bits + 1)
            s.add(max(lo, min(hi, rng.choice([-1, 1]) * rng.getrandbits(b))))
        return sorted(v for v in s if lo <= v <= hi)
    for t in range(8):
        for v in tvals(t, 10):
            ops.append(('ia', [t, v]))
        for v in tvals(7, 4) + tvals(6, 4):
            ops.append(('wrap', [t, v]))
    npairs = chk.n(40, 400)
    for k in range(3):
        for tin in range(8):
            vs = tvals(tin, 12)
            for tout in range(8):
                for _ in range(npairs):
                    a, b = rng.choice(vs), rng.choice(vs)
                    ops.append(('iu', [k, tin, tout, min(a, b), max(a, b)]))
    for k in range(3):
        for tin in range(8):
            for tout in range(8):
                for mn, mx in offset_boundaries(tin, tout):
                    ops.append(('iu', [k, tin, tout, mn, mx]))
    lines = []
    for j, (op, a) in enumerate(ops):
        if op == 'iu':
            # the model's writer on the two-element array [mn, mx]; its reported scaling is classified
            # by value exactly like the implementation's (model_iu_canon)
            lines.append(f'I{j} w {a[0]} {a[2]} i{a[1]} 2 {a[3]} {a[4]}')
        else:
            lines.append(f'I{j} {op} ' + ' '.join(zs(x) for x in a))
    return lines, ops


def model_iu_canon(m):
    """model output of the writer op -> the value-based decision class used for the implementation"""
    if m.startswith('err'):
        return m
    p = m.split()
    sl, it = sf_to_fraction(p[1]), sf_to_fraction(p[2])
    if isinstance(sl, str) or isinstance(it, str):
        return 'ok nonfinite'
    return classify_scaling(float(sl), float(it))


def ideal_cases(rng, n):
    """array_to_file called directly in a regime where float64 arithmetic is exact (data and intercept
    multiples of 1/8 below 2^24, slope +-2^k): the ideal (rational) layer must then give the stored
    integers exactly.  Elements include +-inf and (with nan2zero) NaN; thresholds may be missing,
    inside or wholly outside the safe range (the path of fix 104ec932); both slope signs."""
    from fractions import Fraction
    cases = []
    for j in range(n):
        out = rng.randrange(8)
        ii = np.iinfo(INT_NAMES[out])
        lo, hi = int(ii.min), int(ii.max)
        s = Fraction(2) ** rng.randint(-3, 6) * rng.choice([1, 1, -1])
        i = Fraction(rng.randint(-2 ** 12, 2 ** 12), rng.choice([1, 1, 2, 4, 8])) if rng.random() < 0.8 else Fraction(0)
        n2z = rng.random() < 0.5
        ne = rng.choice([1, 2, 3, 5, 8])

        def val():
            r = rng.random()
            if r < 0.1:
                return 'pinf'
            if r < 0.2:
                return 'ninf'
            if r < 0.3 and n2z:
                return 'nan'
            base = rng.choice([0, lo, hi, lo // 2, hi // 2, 100, -100]) if abs(hi) < 2 ** 20 else rng.choice([0, 100, -100, 2 ** 20, -2 ** 20])
            v = Fraction(base) * s + i + Fraction(rng.randint(-2 ** 10, 2 ** 10), 8) * rng.choice([1, 1, abs(s), 100])
            return v if abs(v) < 2 ** 24 else Fraction(rng.randint(-2 ** 20, 2 ** 20), 8)
        xs = [val() for _ in range(ne)]
        fin = [x for x in xs if not isinstance(x, str)]
        r = rng.random()
        if r < 0.35 or not fin:
            mn = mx = None
        elif r < 0.8:
            mn, mx = min(fin), max(fin)
        else:
            a, b = sorted([Fraction(rng.randint(-2 ** 16, 2 ** 16), 8), Fraction(rng.randint(-2 ** 16, 2 ** 16), 8)])
            mn, mx = a, b
        if mn is not None and (mn == mx == 0 or mx <= mn):
            mn = mx = None
        cases.append(dict(out=out, s=s, i=i, n2z=n2z, xs=xs, mn=mn, mx=mx))
    return cases


def _xq(v):
    return v if isinstance(v, str) else 'q%d/%d' % (v.numerator, v.denominator)


def ideal_line(j, c):
    mn = 'ninf' if c['mn'] is None else _xq(c['mn'])
    mx = 'pinf' if c['mx'] is None else _xq(c['mx'])
    return (f"Q{j} aq 2 {c['out']} {c['s'].numerator}/{c['s'].denominator} {c['i'].numerator}/{c['i'].denominator} "
            f"{mn} {mx} {int(c['n2z'])} {len(c['xs'])} " + ' '.join(_xq(x) for x in c['xs']))


def ideal_impl(c):
    from nibabel.volumeutils import array_to_file
    f = {'pinf': np.inf, 'ninf': -np.inf, 'nan': np.nan}
    data = np.array([f[x] if isinstance(x, str) else float(x) for x in c['xs']], dtype=np.float64)
    out = np.dtype(INT_NAMES[c['out']])
    bio = io.BytesIO()
    with warnings.catch_warnings(record=True) as wl:
        warnings.simplefilter('always')
        try:
            array_to_file(data, bio, out, offset=0, intercept=float(c['i']), divslope=float(c['s']),
                          mn=None if c['mn'] is None else float(c['mn']), mx=None if c['mx'] is None else float(c['mx']),
                          nan2zero=c['n2z'])
        except ValueError:
            # slope and intercept are finite and non-zero by construction: the only ValueError left is
            # the nan fill value outside the safe range
            return 'err nanfill', []
    raw = np.frombuffer(bio.getvalue(), dtype=out)
    bad = any(s == 'write_cast' for s, _ in warning_sites(wl))
    return 'ok bad=%d raw=[%s]' % (int(bad), ','.join(str(int(v)) for v in raw)), warning_sites(wl)


def run(chk: Check):
    ensure_impl_path()
    from common import run_model_parallel
    chk.rule = ('integer layer: floor_exact/ceil_exact/int->float conversion on integers around every power of two, '
                'half gap, tie, double-rounding trap and overflow threshold of float16/32/64/longdouble plus random '
                'bit patterns up to 1100 bits (and the longdouble exponent/CPython digit limits), shared_range for all '
                '4x8 pairs, int_abs, can_cast, the (u)int->(u)int decisions for 3 writer classes x 8x8 types x '
                'boundary/random (min,max) pairs. Arrays (<= 24 elements): seed-independent core = constants (incl. '
                'values not representable in float32), ranges touching the limits of every on-disk type, NaN/+-inf '
                'mixtures, all-NaN, all-zero, 1e-40..1e38, subnormal steps, (u)int8..64 ranges x 8 on-disk integer types '
                'x {3 array-writer classes directly, NIfTI-1/2, SPM99/SPM2, Analyze, MGH}; random tail from VERIF_SEED '
                'over 20 value families; multi-slab arrays (2-D/3-D/4-D shapes x C/F/transposed/strided memory layouts x NaN/inf/extreme '
                'placements per finite_range slab) through the writers and the image classes, with finite_range itself compared '
                'with the exact (min, max, has_nan). A case is non-trivial when the data are not representable unchanged in the '
                'on-disk type; distinct by (route, types, values).')
    chk.assumptions = ['little-endian x86-64, longdouble = x87 80-bit (checked against the running NumPy by Tables.v '
                       'and the lemma tables_match); NumPy ' + np.__version__,
                       'in-memory BytesIO files; arrays of <= 24 elements (the pipeline is element-wise once '
                       'min, max and has_nan are fixed; finite_range is slab-wise and exercised with multi-slab shapes)',
                       'float allowance of the direct predicate: ' + FLOAT_ALLOWANCE]
    chk.trusted.append('Flocq 4.1.0 IEEE754.BinarySingleNaN (operations executed after extraction; Coq stdlib Reals axioms '
                       'enter only through Flocq proofs erased by extraction)')
    chk.extra['unproved_statements'] = UNPROVED
    limit_violations(chk)
    chk.extra['float_allowance'] = FLOAT_ALLOWANCE
    chk.build(gen_tables=gen_tables)
    chk.run_probes()
    if not chk.model_ok:
        return
    facts = platform_facts()
    # ------------------------------------------------------------ integer layer
    ilines, iops = int_layer(chk, facts)
    cases = (core_cases(quick=chk.tier == 'quick') + multislab_core(quick=chk.tier == 'quick')
             + random_cases(chk.rng, chk.n(2000, 60000)) + multislab_random(chk.rng, chk.n(350, 12000)))
    rlines, finite_range_eval = finite_range_item(chk, cases)
    alines = [model_line(i, c) for i, c in enumerate(cases)]
    qcases = ideal_cases(chk.rng, chk.n(700, 20000))
    qlines = [ideal_line(j, c) for j, c in enumerate(qcases)]
    # the extracted model runs (8 processes) while this process runs the implementation
    from concurrent.futures import ThreadPoolExecutor
    pool = ThreadPoolExecutor(1)
    fut = pool.submit(run_model_parallel, PROP, ilines + alines + qlines + rlines, 8)
    impl_int = [impl_int_op(op, a) for op, a in iops]
    impl_q = [ideal_impl(c) for c in qcases]
    impl_arr = [impl_write(c) for c in cases]
    mod = fut.result()
    pool.shutdown()
    # ------------------------------------------------------------ ideal layer, exact-arithmetic regime
    for j, c in enumerate(qcases):
        r, wsites = impl_q[j]
        m = mod.get(f'Q{j}', '<missing>')
        chk.count(key=('ideal', j, c['out'], str(c['s']), str(c['i']), tuple(map(str, c['xs']))), tag='ideal:array_to_file')
        if r.startswith('err'):
            chk.refusal('ideal:' + r[4:15])
        desc = {'ideal_case': {k: (str(v) if not isinstance(v, (list, bool, int)) else [str(x) for x in v] if isinstance(v, list) else v)
                               for k, v in c.items()}}
        if 'bad=1' in r:
            chk.violation('property_violation', case=desc, impl_output=r, model_output=m,
                          predicate='array_to_file: invalid value in the final integer cast (wrap-around)')
        elif r != m:
            chk.disagreements += 1
            chk.violation('correspondence', case=desc, impl_output=r[:300], model_output=m[:300], found_input=False,
                          predicate='ideal layer (exact-arithmetic regime): stored integers differ from array_to_file',
                          theorem='correspondence C02/ModelQ.v <-> nibabel/volumeutils.py array_to_file')
    for j, (op, a) in enumerate(iops):
        r = impl_int[j]
        m = mod.get(f'I{j}', '<missing>')
        if op == 'iu':
            m = model_iu_canon(m)
        big = any(isinstance(x, int) and x.bit_length() > 64 for x in a)
        chk.count(key=('int', op, tuple(a)) if op not in ('cc',) else None, tag='int:' + op,
                  sample={'op': op, 'args': [zs(x) for x in a], 'result': r} if j in (5, 4000) else None)
        if r.startswith('err'):
            chk.refusal('int:' + r[4:])
        ipred = int_predicate(op, a, r)
        if ipred:
            chk.violation('property_violation', case={'op': op, 'args': [zs(x) for x in a]}, model_output=m[:300],
                          impl_output=r[:300], predicate=f'{op}: {ipred}')
        if r != m:
            chk.disagreements += 1
            if not ipred:
                chk.violation('correspondence', case={'op': op, 'args': [zs(x) for x in a]}, model_output=m[:300],
                              impl_output=r[:300], found_input=False,
                              predicate='integer layer: model and implementation disagree on ' + op +
                                        '; the direct predicate of the operation holds',
                              theorem='correspondence C02/Model.v <-> nibabel/casting.py, arraywriters.py')
    # ------------------------------------------------------------ finite_range (multi-slab arrays)
    finite_range_eval(mod)
    # ------------------------------------------------------------ arrays
    warn_sites = {}
    for i, c in enumerate(cases):
        r = impl_arr[i]
        m = parse_model(mod.get(str(i), 'err <missing>'))
        arr_key = (c['route'], c.get('cls', c.get('wk')), c['out'], c['kind'], c.get('k', c.get('t')),
                   tuple(c.get('bits', c.get('vals'))), tuple(c.get('shape', ())), c.get('mem'))
        nontriv = not (r['status'] == 'ok' and r.get('slope_f') == 1.0 and r.get('inter_f') == 0.0
                       and c['kind'] == 'i')
        chk.count(key=arr_key if nontriv else None,
                  tag='route:' + (c['cls'] if c['route'] == 'img' else 'writer%d' % c['wk']),
                  sample=case_desc(c) if i in (7, 900, 5000) else None)
        chk.tagc('in:' + (KINFO[c['k']][2] if c['kind'] == 'f' else INT_NAMES[c['t']]))
        chk.tagc('out:' + INT_NAMES[c['out']])
        if 'fam' in c:
            chk.tagc('fam:' + c['fam'])
        for site, msg in r['warn']:
            warn_sites[site + ': ' + msg[:40]] = warn_sites.get(site + ': ' + msg[:40], 0) + 1
        # ---- correspondence
        dis = None
        if not same_status(r['status'], m['status']):
            dis = ('status', r['status'], m['status'])
        elif r['status'] == 'ok':
            if r['slope'] != m['slope'] or canon_zero(r['inter']) != canon_zero(m['inter']):
                dis = ('slope/inter bits', (r['slope'], r['inter']), (m['slope'], m['inter']))
            elif m['bad'] == '0' and r['raw'] != m['raw']:
                dis = ('stored integers', r['raw'], m['raw'])
            elif m['bad'] == '0' and back_text(r['back']) != m['back']:
                dis = ('reloaded values', back_text(r['back']), m['back'])
            elif m['bad'] == '0' and any(s == 'write_cast' for s, _ in r['warn']):
                dis = ('cast warning', 'RuntimeWarning in the data cast of _write_data', 'all values inside the type')
            elif m['tc'] == '0' and any(s == 'range_scale_testcast' for s, _ in r['warn']):
                dis = ('test-cast warning', 'RuntimeWarning in the test cast of _range_scale', 'test cast in range')
        else:
            chk.refusal(r['status'][4:])
        # ---- the property predicate, directly on the implementation
        pred = None
        if r['status'] == 'ok':
            pred = predicate(c, r)
            npb, npi, pbmsg = proved_bound_check(c, r)
            if npb:
                chk.tagc('proved_bound_C02_float_gap_slope_only:elements', npb)
            if npi:
                chk.tagc('proved_bound_C02_float_gap_intercept:elements', npi)
            if pred is None and pbmsg:
                pred = pbmsg
            if pred is None and any(s == 'write_cast' for s, _ in r['warn']):
                pred = 'NumPy reported an invalid value in the final integer cast of _write_data (wrap-around)'
            if pred is None and m.get('status') == 'ok' and m.get('bad') == '1' and not dis:
                pred = 'a value outside the on-disk integer type reached the final cast (model flag; raw values agree up to the cast)'
        elif r['status'].startswith('err other'):
            pred = 'unexpected exception: ' + r['status']
        if pred:
            sig = known_signature(c, r, pred)
            if sig == 'S-C02b':
                chk.known('S-C02b', 'MGHImage writes float/large-int data to an integer type by silent round-and-clip '
                                    '(no scaling fields, no refusal): 1e6 -> 32767, +-inf -> type limits')
            elif sig == 'S-C02c':
                chk.known('S-C02c', 'stored float32 slope is subnormal: relative rounding error of the slope is large, '
                                    'scaled values overrun the integer range and are clipped; reload error >> step/2')
            else:
                chk.violation('property_violation', case=case_desc(c), predicate=pred,
                              impl_output={k: (v if k != 'back' else back_text(v)) for k, v in r.items()},
                              model_output=mod.get(str(i), '')[:400])
        if dis:
            chk.disagreements += 1
            if not pred:
                chk.violation('correspondence', case=case_desc(c), model_output=str(dis[2])[:400], impl_output=str(dis[1])[:400],
                              predicate='model and implementation disagree at: ' + dis[0] +
                                        '; the property predicate holds on this case', found_input=False,
                              theorem='correspondence C02/ModelF.v <-> nibabel/arraywriters.py, volumeutils.py')
    chk.extra['runtime_warning_sites'] = warn_sites
    # ------------------------------------------------------------ in-Coq cross-check of the extraction
    pairs = []
    for op, a in [('fe', [1, 2 ** 60 + 2 ** 36 + 1]), ('fe', [1, -(2 ** 24) - 1]), ('ce', [3, 2 ** 64 + 1]),
                  ('fe', [2, 2 ** 53 + 1]), ('fe', [0, 65519]), ('ce', [1, 2 ** 31 - 1]), ('fe', [1, 2 ** 128])]:
        j = iops.index((op, a)) if (op, a) in iops else None
        exp = impl_int_op(op, a)
        fn = {'fe': 'floor_exact', 'ce': 'ceil_exact'}[op]
        f = ['fmt_float16', 'fmt_float32', 'fmt_float64', 'fmt_longdouble'][a[0]]
        want = {'ok pinf': 'COk PInf', 'ok ninf': 'COk NInf'}.get(exp) or 'COk (Fin (%s))' % exp.split()[-1]
        pairs.append((f'match {fn} {f} ({a[1]}), {want} with COk (Fin a), COk (Fin b) => Z.eqb a b '
                      f'| COk PInf, COk PInf => true | COk NInf, COk NInf => true | _, _ => false end', f'{op} {a}'))
    picked = 0
    for i, c in enumerate(cases):
        if picked >= 40:
            break
        n = len(c.get('bits', c.get('vals')))
        if n > 3 or i % 97 not in (0, 5, 11):
            continue
        m = parse_model(mod.get(str(i), 'err'))
        if m['status'] == 'ok':
            pairs.append((f"write_eqb ({case_coq_call(c)}) ({sf_coq(m['slope'])}) ({sf_coq(m['inter'])}) "
                          f"[{'; '.join('(%d)' % v for v in m['raw'])}]", f'case {i}'))
        else:
            pairs.append((f'write_is_err ({case_coq_call(c)})', f'case {i}'))
        picked += 1
    imports = ('From Coq Require Import ZArith List Bool Floats.SpecFloat. Import ListNotations. Open Scope Z_scope.\n'
               'From NV Require Import C02.Model C02.Tables C02.ModelF.\n')
    ncase, bad = vm_crosscheck(PROP, imports, pairs)
    chk.vm = {'cases': ncase, 'disagreements': len(bad)}
    if bad:
        chk.disagreements += 1
        chk.violation('correspondence', case={'vm_crosscheck': [pairs[b][1] if isinstance(b, int) and b < len(pairs) else b for b in bad]},
                      predicate='extracted model disagrees with vm_compute evaluation of the model inside coqc',
                      found_input=False, theorem='extraction cross-check')


def replay(chk, obj):
    ensure_impl_path()
    c = obj.get('case')
    if isinstance(c, dict) and 'ideal_case' in c:
        from fractions import Fraction
        q = c['ideal_case']
        cc = dict(out=q['out'], s=Fraction(q['s']), i=Fraction(q['i']), n2z=q['n2z'],
                  xs=[x if x in ('pinf', 'ninf', 'nan') else Fraction(x) for x in q['xs']],
                  mn=None if q['mn'] == 'None' else Fraction(q['mn']), mx=None if q['mx'] == 'None' else Fraction(q['mx']))
        r, _ = ideal_impl(cc)
        m = run_model(PROP, [ideal_line(0, cc)]).get('Q0')
        print('implementation:', r)
        print('ideal model   :', m)
        print('property fails on this case' if r != m else 'agree')
        return 1 if r != m else 0
    if not isinstance(c, dict) or 'route' not in c:
        if isinstance(c, dict) and 'op' in c:
            a = [int(x, 0) for x in c['args']]
            r = impl_int_op(c['op'], a)
            print('implementation:', r[:300])
            if c['op'] == 'iu':
                mm = model_iu_canon(run_model(PROP, [f'0 w {a[0]} {a[2]} i{a[1]} 2 {a[3]} {a[4]}']).get('0', ''))
            else:
                mm = run_model(PROP, ['0 %s %s' % (c['op'], ' '.join(zs(x) for x in a))]).get('0', '')
            print('model         :', mm[:300])
            p = int_predicate(c['op'], a, r)
            print('predicate:', p or 'holds')
            return 1 if (p or obj.get('kind') == 'correspondence') else 0
        if (obj.get('inputs') or {}).get('probe_fn'):
            import defect_probes
            r = defect_probes.PROBES[obj['inputs']['probe_fn']]()
            print('defect present' if r else 'defect absent')
            return 1 if r else 0
        print('nothing to replay:', obj.get('predicate'))
        return 1
    r = impl_write(c)
    print('case:', {k: c[k] for k in c if k not in ('bits',)})
    print('implementation:', {k: (v if k != 'back' else back_text(v)) for k, v in r.items()})
    bad = False
    if r['status'] == 'ok':
        p = predicate(c, r)
        if p is None and any(s == 'write_cast' for s, _ in r['warn']):
            p = 'invalid value in the final integer cast'
        print('predicate:', p or 'holds')
        bad = bool(p)
    if obj.get('kind') == 'correspondence':
        m = run_model(PROP, [model_line(0, c)]).get('0')
        print('model:', m)
        bad = True
    print('property fails on this case' if bad else 'property holds on this case')
    return 1 if bad else 0
