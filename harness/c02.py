"""C02 — Rescaled integer storage: bounded error, no wrap-around, or a loud refusal.

(stage 0: table generator only; the check is added below)
"""
import io
import os
import sys
import warnings

import numpy as np

from common import COQ, Check, ensure_impl_path, run_model, vm_crosscheck

PROP = 'C02'

INT_NAMES = ['uint8', 'int8', 'uint16', 'int16', 'uint32', 'int32', 'uint64', 'int64']
FLT_NAMES = ['float16', 'float32', 'float64', 'longdouble']


# --------------------------------------------------------------------------- tables
def platform_facts():
    """Facts of the running NumPy/CPython/nibabel that the model is evaluated for.
    Fail-closed: anything unexpected raises."""
    ensure_impl_path()
    from nibabel import casting
    from nibabel.casting import type_info, best_float, OK_FLOATS, TRUNC_UINT64
    facts = {}
    fmts = []
    for name in FLT_NAMES:
        t = getattr(np, name)
        ti = type_info(t)
        fi = np.finfo(t)
        prec = int(ti['nmant']) + 1
        emax = int(ti['maxexp'])
        if int(fi.nmant) + 1 != prec or int(fi.maxexp) != emax:
            raise RuntimeError(f'type_info and finfo disagree for {name}')
        if int(fi.max) != 2 ** emax - 2 ** (emax - prec) if name != 'longdouble' else False:
            raise RuntimeError(f'unexpected max for {name}')
        if fi.minexp != 2 - emax:
            raise RuntimeError(f'{name}: not an IEEE-style exponent range')
        # conversion quirks of t(python_int), probed
        via, via_emax, strlim = 0, 0, 0
        with warnings.catch_warnings():
            warnings.simplefilter('ignore')
            if prec < 53 and emax > prec + 40:
                # double rounding through a C double?  2^(prec+36)+2^36/… use a generic probe:
                k = prec + 36
                probe = 2 ** k + 2 ** (k - prec) + 1     # just above a tie at precision prec
                got = int(t(probe)) - 2 ** k
                if got == 2 ** (k - prec + 1):
                    via = 0
                elif got == 0:
                    via, via_emax = 53, 1024
                else:
                    raise RuntimeError(f'{name}(int) conversion not understood: {got}')
            elif prec < 53:
                via, via_emax = 53, 1024        # float16: every in-range integer is exact in double
            if prec > 53:
                k = prec + 6
                probe = 2 ** k + 2 ** (k - prec) + 1
                got = int(t(probe)) - 2 ** k
                if got != 2 ** (k - prec + 1):
                    raise RuntimeError(f'{name}(int) is not correctly rounded: {got}')
                lim = sys.get_int_max_str_digits()
                if lim:
                    try:
                        t(10 ** lim)
                        ok_above = True
                    except ValueError:
                        ok_above = False
                    try:
                        t(10 ** lim - 1)
                        ok_below = True
                    except ValueError:
                        ok_below = False
                    if ok_below and not ok_above:
                        strlim = lim
                    elif ok_below and ok_above:
                        strlim = 0
                    else:
                        raise RuntimeError('longdouble(int) string limit not understood')
            if prec == 53:
                try:
                    t(2 ** emax)
                    raise RuntimeError('float64(2**1024) did not raise')
                except OverflowError:
                    pass
        fmts.append(dict(name=name, prec=prec, emax=emax, via=via, via_emax=via_emax, strlim=strlim))
    facts['fmts'] = fmts
    bf = best_float()
    facts['best_float'] = FLT_NAMES[[getattr(np, n) for n in FLT_NAMES].index(bf)]
    facts['ok_floats'] = [FLT_NAMES[[getattr(np, n) for n in FLT_NAMES].index(t)] for t in OK_FLOATS]
    facts['trunc_uint64'] = bool(TRUNC_UINT64)
    itys = []
    for n in INT_NAMES:
        ii = np.iinfo(n)
        signed = ii.min < 0
        w = ii.bits
        if int(ii.min) != (-(2 ** (w - 1)) if signed else 0) or int(ii.max) != (2 ** (w - 1) - 1 if signed else 2 ** w - 1):
            raise RuntimeError('unexpected integer type ' + n)
        itys.append(dict(name=n, signed=signed, width=w))
    facts['itys'] = itys
    # header capabilities
    from nibabel.nifti1 import Nifti1Header
    from nibabel.nifti2 import Nifti2Header
    from nibabel.spm99analyze import Spm99AnalyzeHeader
    from nibabel.spm2analyze import Spm2AnalyzeHeader
    from nibabel.analyze import AnalyzeHeader
    from nibabel.freesurfer.mghformat import MGHHeader, MGHImage
    import inspect
    caps = []
    for nm, h in (('nifti1', Nifti1Header), ('nifti2', Nifti2Header), ('spm99', Spm99AnalyzeHeader),
                  ('spm2', Spm2AnalyzeHeader), ('analyze', AnalyzeHeader)):
        s, i = h.has_data_slope, h.has_data_intercept
        if not isinstance(s, bool) or not isinstance(i, bool):
            raise RuntimeError('capabilities not boolean for ' + nm)
        caps.append(dict(name=nm, slope=s, inter=i, direct=False))
    src = inspect.getsource(MGHImage._write_data)
    if hasattr(MGHHeader, 'has_data_slope') or 'array_to_file(data, mghfile, out_dtype, offset)' not in src:
        raise RuntimeError('MGH write path changed')
    caps.append(dict(name='mgh', slope=False, inter=False, direct=True))
    facts['caps'] = caps
    return facts


def coq_bool(b):
    return 'true' if b else 'false'


def tables_text(facts):
    L = ['(* C02/Tables.v — GENERATED by harness/c02.py:gen_tables() from the running NumPy, CPython and',
         '   the nibabel header classes of $VERIF_REPO.  Do not edit. *)',
         'From Coq Require Import ZArith List Bool.',
         'From NV Require Import C02.Model.',
         'Import ListNotations.',
         'Open Scope Z_scope.',
         '']
    for f in facts['fmts']:
        L.append(f"Definition fmt_{f['name']} : fmt := mkFmt {f['prec']} {f['emax']} {f['via']} {f['via_emax']} {f['strlim']}.")
    L.append('Definition all_fmts : list fmt := [' + '; '.join('fmt_' + f['name'] for f in facts['fmts']) + '].')
    L.append('(* OK_FLOATS in order; best_float() *)')
    L.append('Definition ok_floats : list fmt := [' + '; '.join('fmt_' + n for n in facts['ok_floats']) + '].')
    L.append(f"Definition best_float : fmt := fmt_{facts['best_float']}.")
    L.append(f"Definition trunc_uint64 : bool := {coq_bool(facts['trunc_uint64'])}.")
    L.append('')
    for t in facts['itys']:
        L.append(f"Definition ity_{t['name']} : ity := mkIty {coq_bool(t['signed'])} {t['width']}.")
    L.append('Definition all_itys : list ity := [' + '; '.join('ity_' + t['name'] for t in facts['itys']) + '].')
    L.append('')
    for c in facts['caps']:
        L.append(f"Definition caps_{c['name']} : caps := mkCaps {coq_bool(c['slope'])} {coq_bool(c['inter'])} {coq_bool(c['direct'])}.")
    L.append('Definition all_caps : list caps := [' + '; '.join('caps_' + c['name'] for c in facts['caps']) + '].')
    L.append('')
    return '\n'.join(L)


def gen_tables():
    txt = tables_text(platform_facts())
    p = os.path.join(COQ, 'C02', 'Tables.v')
    old = open(p).read() if os.path.exists(p) else None
    if old != txt:
        with open(p, 'w') as f:
            f.write(txt)


# --------------------------------------------------------------------------- integer layer
def np_flt(i):
    return getattr(np, FLT_NAMES[i])


def zs(v):
    """integer -> text for the model driver (hex for huge values: CPython limits decimal conversion)"""
    v = int(v)
    return str(v) if v.bit_length() < 4000 else hex(v)


def canon_float_int(r):
    """canonical form of a float scalar that should hold an integer value"""
    if np.isnan(r):
        return 'nan'
    if np.isinf(r):
        return 'pinf' if r > 0 else 'ninf'
    return 'fin ' + zs(int(r))


def impl_int_op(op, args):
    """Run one integer-layer operation on the implementation; returns the canonical string."""
    from nibabel import casting
    from nibabel.arraywriters import (ArrayWriter, SlopeArrayWriter, SlopeInterArrayWriter, WriterError)
    with warnings.catch_warnings():
        warnings.simplefilter('ignore')
        try:
            if op == 'fl2':
                return 'ok %d' % casting.floor_log2(args[0])
            if op == 'conv':
                try:
                    return 'ok ' + canon_float_int(np_flt(int(args[0]))(args[1]))
                except OverflowError:
                    return 'err overflow'
            if op == 'fe':
                return 'ok ' + canon_float_int(casting.floor_exact(args[1], np_flt(int(args[0]))))
            if op == 'ce':
                return 'ok ' + canon_float_int(casting.ceil_exact(args[1], np_flt(int(args[0]))))
            if op == 'sr':
                mn, mx = casting.shared_range(np_flt(int(args[0])), getattr(np, INT_NAMES[int(args[1])]))
                return 'ok ' + canon_float_int(mn) + ' ' + canon_float_int(mx)
            if op == 'ia':
                t = INT_NAMES[int(args[0])]
                return 'ok %d' % int(casting.int_abs(np.array(int(args[1]), dtype=t)))
            if op == 'wrap':
                t = INT_NAMES[int(args[0])]
                v = int(args[1])
                # C cast of an out-of-range integer = modular store; via a wide two's complement view
                u = np.array([v % 2 ** 64], dtype=np.uint64)
                return 'ok %d' % int(u.astype(t)[0])
            if op == 'cc':
                return 'ok %d' % int(np.can_cast(np.dtype(INT_NAMES[int(args[0])]), np.dtype(INT_NAMES[int(args[1])])))
            if op == 'iu':
                k, tin, tout, mn, mx = int(args[0]), INT_NAMES[int(args[1])], INT_NAMES[int(args[2])], int(args[3]), int(args[4])
                base = (ArrayWriter, SlopeArrayWriter, SlopeInterArrayWriter)[k]
                rec = []

                class Rec(base):
                    def _range_scale(self, a, b):
                        rec.append('range')
                        return super()._range_scale(a, b)
                data = np.array([mn, mx], dtype=tin)
                try:
                    w = Rec(data, np.dtype(tout))
                except WriterError:
                    return 'ok range' if rec else 'err writer'
                if rec:
                    return 'ok range'
                slope = float(getattr(w, 'slope', 1.0))
                inter = getattr(w, 'inter', 0.0)
                if slope == 1.0 and inter == 0:
                    return 'ok none'
                if slope == -1.0 and inter == 0:
                    return 'ok flip'
                if slope == 1.0:
                    return 'ok inter %d' % int(inter)
                return 'ok other slope=%r inter=%r' % (slope, inter)
        except ValueError as e:
            return 'err value'
        except AssertionError:
            return 'err assert'
    raise RuntimeError('bad op ' + op)


def interesting_ints(rng, n_random, fmts, big=True):
    """Integers around every rounding boundary of the formats: powers of two, +-1, half gaps,
    ties, the overflow thresholds, the integer type limits, plus random bit patterns."""
    vals = set()
    for f in fmts:
        p, em = f['prec'], f['emax']
        for k in list(range(0, 72)) + [p + 36, p + 37, 100, 127, 128, 129, 1023, 1024, em - 1, em]:
            if k > 1100 and not big:
                continue
            b = 2 ** k
            g = 2 ** max(0, k + 1 - p)
            for d in (0, 1, -1, 2, g // 2, g // 2 + 1, g // 2 - 1, g, g + 1, g - 1, 3 * g // 2, 3 * g // 2 + 1,
                      3 * g // 2 - 1, -g // 2, -g // 2 - 1, -g // 2 + 1):
                vals.add(b + d)
        mx = 2 ** em - 2 ** (em - p)
        hg = 2 ** (em - p - 1)
        if em <= 1100 or big:
            for d in (0, 1, -1, hg, hg - 1, hg + 1, 2 * hg, 2 * hg - 1):
                vals.add(mx + d)
        if f['via']:
            # double rounding: just above/below a tie of prec, within half a gap of the via precision
            for k in (p + 30, p + 33, 60, 62, 63, 64, 90):
                g = 2 ** (k + 1 - p)
                gv = 2 ** max(0, k + 1 - f['via'])
                for q in (0, 1, 2, 3, 2 ** (p - 1) - 1):
                    tie = 2 ** k + q * g + g // 2
                    for d in (0, 1, -1, gv // 2, gv // 2 + 1, gv // 2 - 1, -(gv // 2), -(gv // 2) - 1, gv, -gv):
                        vals.add(tie + d)
        if f['strlim']:
            for d in (0, 1, -1):
                vals.add(10 ** f['strlim'] + d)
    for w in (8, 16, 32, 64):
        for b in (2 ** w, 2 ** (w - 1)):
            for d in (-2, -1, 0, 1):
                vals.add(b + d)
    for _ in range(n_random):
        bits = rng.choice([rng.randrange(1, 70), rng.randrange(1, 70), rng.randrange(1, 200), rng.randrange(1, 1100)])
        v = rng.getrandbits(bits) | (1 << (bits - 1))
        if rng.random() < 0.5:
            # long run of ones/zeros after the leading bits: near-tie patterns
            keep = rng.randrange(1, bits + 1)
            v = (v >> (bits - keep)) << (bits - keep)
            v += rng.choice([0, 1, -1, (1 << (bits - keep)) >> 1])
        vals.add(v)
    out = set()
    for v in vals:
        out.add(v)
        out.add(-v)
    out.add(0)
    return sorted(out)
