"""C08 — A truncated file is never read back as different data.

Model: coq/C08/Model.v (readers over byte lists returning None | Some data for NIfTI-1/2 single
files and pair members, Analyze/SPM members, MGH with its optional footer, and the TCK/TRK
readers of coq/C16/Model.v; `strict` = bytes delivered by a truncated compressed stream).
Theorems: coq/C08/Props.v.

Case lines sent to bin/modelrun_c08 (coq/C08/driver.ml); each evaluates the model on a list of
prefix lengths of one file (`all` = 0..len-1) and answers one letter per length
(E = exception, Q = the data written, D = different data):
  single <strict> <hsize> <vox_offset> <nbytes> <be> <x file> <lens>
  pairhdr <strict> <hsize> <hasext> <be> <x file> <lens>
  img <strict> <vox_offset> <nbytes> <x file> <lens>
  mgh <strict> <hsize> <nbytes> <footer size> <x file> <lens>
  tck <strict> <int(4*MEGABYTE)> <x file> <lens>        trk <strict> <x file> <lens>
Compared with the implementation at nib.load(path, mmap=...) + np.asanyarray(img.dataobj) and
nib.streamlines.load(path) on every strict prefix of every member file written by every
writable class, plain and .gz/.bz2/.zst.  For a compressed file the decompressor is an oracle:
the harness measures how many bytes the truncated stream still delivers (zlib/bz2/pyzstd) and
asks the model about that many bytes in strict mode; the model's E must be matched, its Q may
become an exception (the decompressor may raise before the last byte it could deliver).
Partial reads (img.dataobj[..., 1::2], [..., -1], [..., 0]) go through the fileslice model of coq/C06 on the prefix, or -
for a stream that raises when it runs out (bz2, zstd) - through rd_raising of coq/C08/ModelSlice.v:
  psingle|pimg|pmgh ... / psingleR|pimgR <...> <sel> <shape> <w> <x file> <delivered bytes per cut>
Only public nibabel names are used; outcomes are classified by 'any exception' / equal / different and, for the one
writer refusal, by exception type (never by message text); the model run is budgeted (bytes x cuts per line, model_cpu_s).
GIFTI: expat's verdict (pyexpat alone) + the handler machine of coq/C17.  SPM .mat member: loadmat-contract model
  spmmat <names> <record sizes> <cuts>   -> one digit per cut (0 raises, 1 header affine, 2/3 affine of the complete .mat)
"""
import bz2
import io
import os
import warnings
import zlib
from multiprocessing import Pool

import numpy as np

from common import Check, ensure_impl_path, run_model, vm_crosscheck, REPO
from c16_tables import gen_tables

PROP = 'C08'
SLICE_SEL = {'slice_last': 0, 'slice_step': 1, 'slice_first': 2}     # idx_sel of coq/C08/ModelSlice.v
COMPS = ['', '.gz', '.bz2', '.zst']


def hx(b):
    return 'x' + bytes(b).hex()


# --------------------------------------------------------------------------- the files
def make_data(rng, kind):
    if kind == 'i2':
        return np.array([rng.randrange(-3000, 3000) for _ in range(24)], np.int16).reshape(2, 3, 4)
    if kind == 'slab':
        return np.array([rng.randrange(1, 3000) for _ in range(12 * 12 * 4)], np.int16).reshape(12, 12, 4)
    if kind == 'blocks':     # incompressible and larger than one zstd block (128 KiB): a truncated stream delivers part of it
        return np.frombuffer(rng.randbytes(16 * 16 * 320 * 2), np.int16).reshape(16, 16, 320).copy()
    if kind == 'f4':
        return np.array([rng.uniform(-50, 50) for _ in range(12)], np.float32).reshape(2, 3, 2)
    return np.array([rng.randrange(0, 256) for _ in range(60)], np.uint8).reshape(5, 4, 3)


def build_specs(rng):
    """seed-independent list of file kinds; the seed only changes the voxel values / coordinates"""
    import nibabel as nib
    specs = []

    def vol(name, cls, kind, endian='<', ext=False, comps=COMPS, hasext=True, members=None, modes=('full',), cuts='all'):
        specs.append(dict(name=name, family='vol', cls=cls, data=make_data(rng, kind), endian=endian, ext=ext,
                          comps=comps, hasext=hasext, members=members, modes=list(modes), cuts=cuts))
    vol('nifti1', nib.Nifti1Image, 'i2')
    vol('nifti1_ext_be', nib.Nifti1Image, 'f4', endian='>', ext=True)
    vol('nifti2', nib.Nifti2Image, 'u1')
    vol('nifti1pair_ext', nib.Nifti1Pair, 'i2', ext=True)
    vol('nifti2pair', nib.Nifti2Pair, 'f4', endian='>')
    vol('analyze', nib.AnalyzeImage, 'i2', hasext=False)
    vol('spm99', nib.Spm99AnalyzeImage, 'u1', hasext=False)
    vol('spm2', nib.Spm2AnalyzeImage, 'f4', endian='>', hasext=False)
    vol('mgh', nib.MGHImage, 'i2', comps=['', '.mgz'])
    # slabs larger than the 256-byte skip threshold of fileslice, so that stepped slices read several segments
    vol('nifti1_slabs', nib.Nifti1Image, 'slab', comps=['', '.gz', '.bz2', '.zst'], modes=['full', 'slice_step', 'slice_last', 'slice_first'])
    vol('analyze_slabs', nib.AnalyzeImage, 'slab', hasext=False, comps=['', '.bz2'], modes=['full', 'slice_step', 'slice_last', 'slice_first'])
    # a stream that raises when it runs out AND still delivers part of the data: two zstd blocks; cuts sampled (see sample_cuts)
    # (no stepped slice: the C06 model's post-slicing is quadratic in the number of elements read)
    vol('nifti1_blocks', nib.Nifti1Image, 'blocks', comps=['.zst'], modes=['full', 'slice_last', 'slice_first'], cuts='sample')
    vol('mgh_slabs', nib.MGHImage, 'slab', comps=[''], modes=['full', 'slice_step', 'slice_last', 'slice_first'])
    specs.append(dict(name='cifti2', family='cifti', comps=[''], modes=['full', 'slice_step']))
    specs.append(dict(name='gifti', family='gifti', comps=['', '.gz', '.bz2'], modes=['full', 'bs2048', 'bs3000']))
    pts = lambda n: np.array([[rng.uniform(-90, 90) for _ in range(3)] for _ in range(n)], '<f4')  # noqa
    specs.append(dict(name='tck', family='tck', sl=[pts(2), pts(1), pts(3)], comps=COMPS, modes=['full', 'lazy_retry']))
    specs.append(dict(name='tck_empty', family='tck', sl=[], comps=['']))
    inf = np.array([[np.inf, -np.inf, np.inf]], '<f4')
    specs.append(dict(name='tck_inf_first', family='tck', sl=[pts(2), inf.copy(), pts(1), np.vstack([inf, pts(1)]), pts(2)],
                      comps=[''], probe='S-C08b'))
    specs.append(dict(name='trk', family='trk', sl=[pts(2), pts(1), pts(3)], comps=COMPS,
                      dpp={'fa': 1}, dps={'w': 2}, modes=['full', 'lazy_retry']))
    # no per-streamline properties: the end of the point block is then the end of the record
    specs.append(dict(name='trk_scalars_noprops', family='trk', sl=[pts(2), pts(3), pts(4)], comps=[''],
                      dpp={'fa': 1}, dps={}, modes=['full', 'lazy_retry']))
    specs.append(dict(name='trk_points_only', family='trk', sl=[pts(1), pts(3), pts(4)], comps=['', '.gz'],
                      dpp={}, dps={}, modes=['full', 'lazy_retry']))
    specs.append(dict(name='trk_empty', family='trk', sl=[], comps=[''], dpp={}, dps={}))
    return specs


def write_spec(spec, d, comp):
    """write the file set of one spec with one compression into directory d; returns
    {member key: path}, main path, loader family"""
    import nibabel as nib
    fam = spec['family']
    stem = os.path.join(d, 'f')
    if fam == 'vol':
        cls = spec['cls']
        hdr = cls.header_class() if cls is nib.MGHImage else cls.header_class(endianness=spec['endian'])
        data = spec['data']
        if cls is nib.MGHImage:
            img = cls(data, np.diag([2, 3, 4, 1.0]))
        else:
            hdr.set_data_dtype(data.dtype)
            img = cls(data, np.diag([2, 3, 4, 1.0]), header=hdr)
        if spec['ext']:
            img.header.extensions.append(nib.nifti1.Nifti1Extension(6, b'truncate me if you can'))
        if cls is nib.MGHImage:
            main = stem + ('.mgz' if comp == '.mgz' else '.mgh')
        elif len(cls.files_types) == 1:
            main = stem + '.nii' + comp
        else:
            main = stem + '.img' + comp
        with warnings.catch_warnings():
            warnings.simplefilter('ignore')
            nib.save(img, main)
        members = {}
        for key, ext in cls.files_types:
            p = main if len(cls.files_types) == 1 else stem + ext + (comp if key != 'mat' else '')
            if os.path.exists(p):
                members[key] = p
        return members, main
    if fam == 'cifti':
        from nibabel.cifti2 import Cifti2Image, cifti2_axes as ax
        axes = (ax.ScalarAxis(['a', 'b']), ax.SeriesAxis(0, 1, 3))
        data = np.arange(6, dtype=np.float32).reshape(2, 3) * 1.5
        img = Cifti2Image(data, header=axes)
        main = stem + '.dscalar.nii'
        with warnings.catch_warnings():
            warnings.simplefilter('ignore')
            nib.save(img, main)
        return {'image': main}, main
    if fam == 'gifti':
        from nibabel.gifti import GiftiImage, GiftiDataArray
        img = GiftiImage(darrays=[GiftiDataArray((np.arange(330, dtype=np.float32).reshape(110, 3) * 0.37) ** 1.5, intent='NIFTI_INTENT_POINTSET',
                                                 datatype='NIFTI_TYPE_FLOAT32'),
                                  GiftiDataArray(np.array([[0, 1, 2]], np.int32), intent='NIFTI_INTENT_TRIANGLE',
                                                 datatype='NIFTI_TYPE_INT32')])
        main = stem + '.gii' + comp
        nib.save(img, main)
        return {'image': main}, main
    from nibabel.streamlines import Tractogram
    if fam == 'tck':
        main = stem + '.tck' + comp
        t = Tractogram([s.copy() for s in spec['sl']], affine_to_rasmm=np.eye(4))
    else:
        main = stem + '.trk' + comp
        n = [len(s) for s in spec['sl']]
        t = Tractogram([s.copy() for s in spec['sl']],
                       data_per_point={k: [np.full((m, w), 0.25 * (i + 1), '<f4') for i, m in enumerate(n)] for k, w in spec['dpp'].items()},
                       data_per_streamline={k: [np.full((w,), 1.5 * (i + 1), '<f4') for i, m in enumerate(n)] for k, w in spec['dps'].items()},
                       affine_to_rasmm=np.eye(4))
    with warnings.catch_warnings():
        warnings.simplefilter('ignore')
        if comp:
            # nib.streamlines.save picks the class from the extension; write plain, then compress with the Opener
            plain = stem + ('.tck' if fam == 'tck' else '.trk')
            nib.streamlines.save(t, plain)
            from nibabel.openers import Opener
            with open(plain, 'rb') as fi, Opener(main, 'wb') as fo:
                fo.write(fi.read())
            os.remove(plain)
        else:
            nib.streamlines.save(t, main)
    return {'image': main}, main


def tract_observable(t, lazy):
    if lazy:
        items = list(t)
        return (tuple(np.asarray(s).tobytes() for s in t.streamlines),
                tuple(sorted((k, tuple(np.asarray(it.data_for_points[k]).tobytes() for it in items))
                             for k in (items[0].data_for_points if items else {}))),
                tuple(sorted((k, np.asarray([it.data_for_streamline[k] for it in items]).tobytes())
                             for k in (items[0].data_for_streamline if items else {}))))
    return (tuple(np.asarray(s).tobytes() for s in t.streamlines),
            tuple(sorted((k, tuple(np.asarray(x).tobytes() for x in v)) for k, v in t.data_per_point.items())),
            tuple(sorted((k, np.asarray(v).tobytes()) for k, v in t.data_per_streamline.items())))


def load_observable(fam, main, mmap, lazy=False, mode='full'):
    """what the statement compares: voxel values / streamlines (with their per-point data for TRK).
    modes: full = the whole array / all streamlines; slice_step, slice_last = partial reads through the
    array proxy (img.dataobj[..., 1::2], img.dataobj[..., -1]); lazy_retry = three successive reads from one
    lazily loaded tractogram object (the set of results of the reads that did not raise);
    bs<N> = GIFTI parsed with buffer_size=N"""
    import nibabel as nib
    with warnings.catch_warnings():
        warnings.simplefilter('ignore')
        if fam in ('vol', 'cifti'):
            img = nib.load(main, mmap=mmap) if fam == 'vol' else nib.load(main)
            if mode == 'slice_step':
                a = np.asarray(img.dataobj[(slice(None),) * (len(img.shape) - 1) + (slice(1, None, 2),)])
            elif mode == 'slice_last':
                a = np.asarray(img.dataobj[..., -1])
            elif mode == 'slice_first':
                a = np.asarray(img.dataobj[..., 0])
            else:
                a = np.asanyarray(img.dataobj)
            return (a.shape, a.dtype.str, a.tobytes())
        if fam == 'gifti':
            img = nib.load(main, buffer_size=int(mode[2:])) if mode.startswith('bs') else nib.load(main)
            return tuple((None, None, None) if da.data is None else (da.data.shape, da.data.dtype.str, da.data.tobytes())
                         for da in img.darrays)
        if mode == 'lazy_retry':
            tf = nib.streamlines.load(main, lazy_load=True)
            got, last = [], None
            for _ in range(3):
                try:
                    got.append(tract_observable(tf.tractogram, True))
                except Exception as e:  # noqa
                    last = e
            if not got:
                raise last
            return tuple(sorted(set(got)))
        tf = nib.streamlines.load(main, lazy_load=lazy)
        return tract_observable(tf.tractogram, lazy)


def sweep_worker(task):
    """child process: truncate one member at each length, load, classify"""
    (repo, workdir, fam, members, main, key, mmap, lens, expected, lazy, mode) = task
    import sys
    if sys.path[0] != repo:
        sys.path.insert(0, repo)
    import logging
    logging.disable(logging.WARNING)
    d = os.path.join(workdir, f'w{os.getpid()}')
    os.makedirs(d, exist_ok=True)
    raw = open(members[key], 'rb').read()
    out = []
    differ = []
    for n in lens:
        stem = os.path.join(d, f'p{n}')
        paths = {}
        for k, p in members.items():
            tail = os.path.basename(p)[1:]      # 'f.nii.gz' -> '.nii.gz'
            q = stem + tail
            paths[k] = q
            if k == key:
                with open(q, 'wb') as fh:
                    fh.write(raw[:n])
            else:
                os.link(p, q)
        mainq = stem + os.path.basename(main)[1:]
        try:
            obs = load_observable(fam, mainq, mmap, lazy, mode)
            if obs == expected:
                out.append('Q')
            else:
                out.append('D')
                differ.append((n, repr(obs)[:300]))
        except Exception as e:  # noqa  (any exception is a refusal)
            out.append('E')
        for q in paths.values():
            try:
                os.remove(q)
            except OSError:
                pass
    return (''.join(out), differ)


def available_bytes(comp, prefix):
    """how many decompressed bytes a truncated compressed stream delivers (None: not even a start)"""
    try:
        if comp in ('.gz', '.mgz'):
            return len(zlib.decompressobj(wbits=31).decompress(prefix))
        if comp == '.bz2':
            return len(bz2.BZ2Decompressor().decompress(prefix))
        if comp == '.zst':
            import pyzstd
            return len(pyzstd.EndlessZstdDecompressor().decompress(prefix))
    except Exception:  # noqa
        return None
    raise ValueError(comp)


def sample_cuts(comp, raw, k=12):
    """cut points of a large compressed file: k evenly spaced, both ends, and the cuts around the first point between
    two of them where the number of bytes the truncated stream delivers changes (found by bisection)"""
    n = len(raw)
    pts = sorted({0, 1, 2, n - 2, n - 1} | {i * (n - 1) // (k - 1) for i in range(k)})
    av = {p: available_bytes(comp, raw[:p]) or 0 for p in pts}
    extra = set()
    for a, b in zip(pts, pts[1:]):
        if av[a] != av[b] and b - a > 1:            # the first change between two sampled cuts
            lo, hi = a, b
            while hi - lo > 1:
                mid = (lo + hi) // 2
                av[mid] = available_bytes(comp, raw[:mid]) or 0
                if av[mid] == av[a]:
                    lo = mid
                else:
                    hi = mid
            extra |= {lo - 1, lo, hi, hi + 1}
    return sorted(p for p in set(pts) | extra if 0 <= p < n)


def stream_is_strict(comp, workdir):
    """platform fact, read not assumed: does reading past the end of a truncated compressed stream
    raise (strict) or return fewer bytes like a plain file (indexed_gzip does the latter)?"""
    from nibabel.openers import ImageOpener
    p = os.path.join(workdir, 'probe.bin' + ('.gz' if comp == '.mgz' else comp))
    with ImageOpener(p, 'wb') as f:
        f.write(bytes(range(256)) * 8)
    raw = open(p, 'rb').read()
    with open(p, 'wb') as f:
        f.write(raw[:len(raw) // 2])
    try:
        with ImageOpener(p, 'rb') as f:
            f.read(16)
            f.read(5000)
            f.read(10)
        return False
    except Exception:  # noqa
        return True
    finally:
        os.remove(p)


def raw_expat(data, buffer_size=None, record=False):
    """expat itself, without nibabel: (well-formed?, events delivered).  The oracle of C08_prefix_gifti."""
    from xml.parsers.expat import ParserCreate, ExpatError
    p = ParserCreate()
    p.buffer_text = True
    p.buffer_size = buffer_size or 35000000
    ev = []
    if record:
        p.StartElementHandler = lambda name, attrs: ev.append(('S', name, dict(attrs)))
        p.EndElementHandler = lambda name: ev.append(('E', name))
        p.CharacterDataHandler = lambda d: ev.append(('C', d))
    try:
        p.Parse(data, True)
        return True, ev
    except ExpatError:
        return False, ev


def gifti_model_classes(plain, avail, strict, buffer_size):
    """outcome class per cut according to the model of C08_prefix_gifti: expat's verdict on the bytes that are
    there (measured with pyexpat alone), then - for a well-formed prefix - the handler state machine of
    coq/C17/Model.v (bin/modelrun_c17) on the events, compared with its result on the complete file"""
    import c17
    full_ok, full_ev = raw_expat(plain, buffer_size, True)
    lines = [c17.model_line('full', full_ev)]
    todo = {}
    out = []
    for i, a in enumerate(avail):
        if a is None or (strict and a < len(plain)) or a == 0:
            out.append('E')
            continue
        ok, _ = raw_expat(plain[:a], buffer_size)
        if not ok:
            out.append('E')
            continue
        if a not in todo:
            todo[a] = f'c{a}'
            lines.append(c17.model_line(f'c{a}', raw_expat(plain[:a], buffer_size, True)[1]))
        out.append(a)
    res = run_model('C17', lines)
    full_out = res.get('full', '')
    cls = {a: ('Q' if res.get(cid) == full_out and full_out.startswith('ok') else
               'E' if res.get(cid, '').startswith('err') else 'D') for a, cid in todo.items()}
    return ''.join(x if isinstance(x, str) else cls[x] for x in out), len(todo)


def mat4_records(raw):
    """names and sizes of the records of a MATLAB-4 file (independent of scipy: 20-byte header of five
    little-endian int32 MOPT, mrows, ncols, imagf, namlen; name; data)"""
    import struct
    out, pos = [], 0
    while pos + 20 <= len(raw):
        mopt, mrows, ncols, imagf, namlen = struct.unpack('<5i', raw[pos:pos + 20])
        elsize = {0: 8, 1: 4, 2: 4, 3: 2, 4: 2, 5: 1}[(mopt // 10) % 10]
        size = 20 + namlen + mrows * ncols * elsize * (2 if imagf else 1)
        out.append((raw[pos + 20:pos + 20 + namlen].rstrip(b'\0').decode('latin1'), size))
        pos += size
    return out if pos == len(raw) else None


def spm_mat_classes(members, workdir, tag):
    """the .mat member cut at every byte, loaded in this process on a private copy of the file set; one
    letter per cut: E raises | H data equal, affine of the header (as without .mat) | A data equal, affine of
    the complete .mat | B both (the two affines coincide) | X data equal, another affine | D other data"""
    import shutil
    import nibabel as nib
    d = os.path.join(workdir, f'mat_{tag}')
    os.makedirs(d)
    q = {k: os.path.join(d, os.path.basename(p)) for k, p in members.items()}
    for k, p in members.items():
        shutil.copy(p, q[k])
    raw = open(q['mat'], 'rb').read()
    with warnings.catch_warnings():
        warnings.simplefilter('ignore')
        full = nib.load(q['image'])
        fdata, faff = np.asarray(full.dataobj).copy(), full.affine.copy()
        os.remove(q['mat'])
        haff = nib.load(q['image']).affine.copy()
        out = []
        for n in range(len(raw)):
            with open(q['mat'], 'wb') as f:
                f.write(raw[:n])
            try:
                im = nib.load(q['image'])
                dat = np.asarray(im.dataobj)
                a = im.affine
            except Exception:  # noqa
                out.append('E')
                continue
            if dat.shape != fdata.shape or dat.tobytes() != fdata.tobytes():
                out.append('D')
            else:
                isa, ish = np.array_equal(a, faff), np.array_equal(a, haff)
                out.append('B' if isa and ish else 'A' if isa else 'H' if ish else 'X')
    shutil.rmtree(d, ignore_errors=True)
    return ''.join(out), raw


def read_plain(comp, path):
    from nibabel.openers import Opener
    if comp == '.mgz':
        import gzip
        return gzip.open(path).read()
    with Opener(path, 'rb') as f:
        return f.read()


# --------------------------------------------------------------------------- the check
def run(chk: Check):
    ensure_impl_path()
    import nibabel as nib
    chk.rule = ('every prefix length 0..len-1 of every member file written by every writable class: NIfTI-1 (.nii; with '
                'an extension, big-endian), NIfTI-2, NIfTI-1/2 pairs (.hdr with extension, .img), Analyze, SPM99, SPM2 '
                '(.hdr, .img, .mat), MGH/MGZ, CIFTI-2, GIFTI, TCK (3 streamlines; empty; streamlines starting with an '
                'all-inf point), TRK (3 streamlines with scalars and properties; with scalars and no properties; points only; empty) x {plain, .gz, .bz2, .zst} x mmap '
                '{True, False}; plus, on files with slabs above the fileslice skip threshold, partial reads img.dataobj[..., 1::2], '
                '[..., -1] and [..., 0] at every cut (plain, .gz, .bz2, .zst) and at ~60 sampled cuts of a two-block .zst file whose truncated stream still delivers part of the data; '
                'the SPM .mat member at every cut with the affine observed; three successive reads from one lazily loaded TCK/TRK object at every cut; GIFTI '
                'parsed with buffer_size 2048 and 3000 at every cut; the set of files and cut points is exhaustive and seed-independent, the seed only '
                'changes voxel values and coordinates; non-trivial = every cut point (a strict prefix); distinct by '
                '(file kind, compression, member, mmap, length)')
    chk.exhaustive = True
    chk.assumptions = [
        'only voxel values / streamlines (+ their per-point and per-streamline data) are compared, not affines or other header fields',
        'the data arrays are non-empty (array_from_file returns at once for 0 bytes)',
        'TCK theorem: no streamline begins with an all-inf point - TckFile.save refuses such points (repair of S-C08b); header text is ASCII',
        'vox_offset, data size and byte order are what the implementation reads from the intact header block (C10), passed to the model',
        'gzip/bz2/zstd decompressors are oracles: a truncated stream delivers a prefix of the plain bytes and then raises; it may raise earlier than the model assumes',
        'np.memmap of a region beyond the end of the file raises (numpy checks the size); observed, not proved']
    chk.trusted += ['zlib / bz2 / pyzstd streaming decompressors (used to measure what a truncated stream delivers)',
                    'expat (GIFTI) and scipy.io.loadmat (SPM .mat): oracles with explicit contracts (C08_prefix_gifti, C08_prefix_spm_mat), measured at every cut']
    chk.build(gen_tables=gen_tables)
    chk.run_probes()
    if not chk.model_ok:
        return
    import time
    t0 = time.time()
    specs = build_specs(chk.rng)
    strict_of = {c: stream_is_strict(c, chk.workdir) for c in ('.gz', '.bz2', '.zst', '.mgz')}
    chk.extra['truncated_stream_raises'] = strict_of
    tasks = []
    meta = []
    lines = []
    mat_cases = []
    for si, spec in enumerate(specs):
        fam = spec['family']
        for comp in spec['comps']:
            if comp == '.zst':
                try:
                    import pyzstd  # noqa
                except ImportError:
                    chk.refusal('no_pyzstd')
                    continue
            d = os.path.join(chk.workdir, f's{si}{comp.replace(".", "_")}')
            os.makedirs(d)
            try:
                members, main = write_spec(spec, d, comp)
            except Exception as e:  # noqa
                from nibabel.streamlines.tractogram_file import DataError
                if spec.get('probe') == 'S-C08b' and isinstance(e, DataError):      # by type; the spec is the all-inf-point one
                    chk.refusal('tck_save_refuses_all_inf_point')    # repair of S-C08b: such a file is no longer written
                    chk.count(key=('refused', spec['name']), tag='writer_refusal')
                    continue
                raise
            if spec.get('probe') == 'S-C08b':
                chk.violation('property_violation', case={'spec': spec['name']},
                              predicate='TckFile.save wrote a streamline beginning with an all-inf point (S-C08b has returned)')
                continue
            lazy = bool(comp) and fam in ('tck', 'trk')
            modes = [m for m in spec.get('modes', ['full']) if not (m == 'lazy_retry' and comp)]
            try:
                expected = load_observable(fam, main, False, lazy)
                expected_by_mode = {m: load_observable(fam, main, False, lazy, m) for m in modes}
            except Exception as e:  # noqa
                chk.violation('property_violation', case={'spec': spec['name'], 'comp': comp},
                              predicate=f'the complete file written by the library does not load: {type(e).__name__}: {str(e)[:120]}')
                continue
            if fam == 'vol':
                want = spec['data']
                if expected[2] != want.astype(expected[1]).tobytes() or expected[0] != want.shape:
                    chk.violation('property_violation', case={'spec': spec['name'], 'comp': comp},
                                  predicate='the complete file does not load back the data written')
                    continue
            # parameters of the model, read from the intact file by the implementation
            par = {}
            if fam in ('vol', 'cifti'):
                img = nib.load(main)
                hdr = img.header if fam == 'vol' else img.nifti_header
                par['nbytes'] = int(np.prod(img.shape) * img.dataobj.dtype.itemsize)
                par['vox'] = int(img.dataobj.offset)
                par['shape'] = '[' + ','.join(str(int(x)) for x in img.shape) + ']'
                par['w'] = int(img.dataobj.dtype.itemsize)
                par['be'] = int(getattr(hdr, 'endianness', '>') == '>')
                if isinstance(img, nib.MGHImage):
                    # sizes of the MGH header fields and footer through public names: template_dtype = header fields then footer fields
                    fb_ = io.BytesIO()
                    hdr.writeftr_to(fb_)                  # measured: the footer is what writeftr_to puts at get_footer_offset()
                    par['ftr'] = len(fb_.getvalue()) - int(hdr.get_footer_offset())
                    par['hsize'] = int(hdr.template_dtype.itemsize) - par['ftr']
                else:
                    par['hsize'], par['ftr'] = int(hdr.sizeof_hdr), 0
                del img
            for key, path in sorted(members.items()):
                raw = open(path, 'rb').read()
                plain = raw if not comp or key == 'mat' else read_plain(comp, path)
                lens = list(range(len(raw))) if spec.get('cuts', 'all') == 'all' or not comp else sample_cuts(comp, raw)
                # budget of the extracted model: each cut costs about one pass over the plain bytes; keep bytes x cuts bounded
                # whatever the writer produced (at most ~1e7 byte-steps per model line, a few seconds of CPU)
                if len(plain) * len(lens) > 10 ** 7 and len(plain) > 20000:
                    keep = max(8, 10 ** 7 // len(plain))
                    lens = sorted(set(lens[i * (len(lens) - 1) // (keep - 1)] for i in range(keep)))
                    chk.tagc('cuts_subsampled_for_model_budget')
                mmaps = [False, True] if not comp else [False]
                for mode in modes:
                    if mode != 'full' and key not in ('image',):
                        continue          # partial reads / retries concern the member that holds the data
                    for mm in (mmaps if mode in ('full',) + tuple(SLICE_SEL) else [False]):
                        for lo in range(0, len(lens), 160):
                            tasks.append((REPO, chk.workdir, fam, members, main, key, mm, lens[lo:lo + 160],
                                          expected_by_mode[mode], lazy, mode))
                            meta.append((si, comp, key, (mm, mode), lo))
                # model line for this member
                cid = f'{si}{comp}:{key}'
                if comp and key != 'mat':
                    av = [available_bytes(comp, raw[:n]) for n in lens]
                    mlens = '[' + ','.join(str(a if a is not None else 0) for a in av) + ']'
                    strict = int(strict_of[comp])
                else:
                    av, mlens, strict = None, 'all', 0
                line = None
                if fam in ('vol', 'cifti'):
                    cls = spec.get('cls')
                    if key == 'mat':
                        line = None
                    elif fam == 'cifti' or len(cls.files_types) == 1:
                        if fam == 'vol' and cls is nib.MGHImage:
                            line = f"mgh {strict} {par['hsize']} {par['vox']} {par['nbytes']} {par['ftr']} {hx(plain)} {mlens}"
                        else:
                            line = f"single {strict} {par['hsize']} {par['vox']} {par['nbytes']} {par['be']} {hx(plain)} {mlens}"
                    elif key == 'header':
                        line = f"pairhdr {strict} {par['hsize']} {int(spec['hasext'])} {par['be']} {hx(plain)} {mlens}"
                    else:
                        line = f"img {strict} {par['vox']} {par['nbytes']} {hx(plain)} {mlens}"
                elif fam == 'tck':
                    line = f'tck {strict} {4 * 1048576} {hx(plain)} {mlens}'
                elif fam == 'trk':
                    line = f'trk {strict} {hx(plain)} {mlens}'
                if line:
                    lines.append(f'{cid} {line}')
                # partial reads through the array proxy: the fileslice model of C06 on the same prefixes
                # (plain files and compressed streams that end silently: the prefix; a raising stream: rd_raising)
                pcids = {}
                if fam in ('vol', 'cifti') and key == 'image' and not (strict and spec.get('cls') is nib.MGHImage):
                    R = 'R' if strict else ''     # the stream raises when it runs out: rd_raising of ModelSlice.v
                    for mode in modes:
                        if mode not in SLICE_SEL or (mode == 'slice_step' and len(plain) > 20000):
                            continue
                        step = SLICE_SEL[mode]
                        cls = spec.get('cls')
                        if fam == 'vol' and cls is nib.MGHImage:
                            pl = f"pmgh {par['hsize']} {par['vox']} {par['ftr']} {step} {par['shape']} {par['w']} {hx(plain)} {mlens}"
                        elif fam == 'cifti' or len(cls.files_types) == 1:
                            pl = f"psingle{R} {par['hsize']} {par['vox']} {par['be']} {step} {par['shape']} {par['w']} {hx(plain)} {mlens}"
                        else:
                            pl = f"pimg{R} {par['vox']} {step} {par['shape']} {par['w']} {hx(plain)} {mlens}"
                        pcids[mode] = f'{cid}:{mode}'
                        lines.append(f'{cid}:{mode} {pl}')
                if fam in ('tck', 'trk') and not comp and 'lazy_retry' in modes:
                    pcids['lazy_retry'] = f'{cid}:lazy_retry'
                    lines.append(f'{cid}:lazy_retry ' + (f'tckretry {4 * 1048576} 3 {hx(plain)} all' if fam == 'tck'
                                                          else f'trkretry 3 {hx(plain)} all'))
                if key == 'mat' and not comp:
                    got, mraw = spm_mat_classes(members, chk.workdir, f's{si}')
                    recs = mat4_records(mraw)
                    if recs is None:
                        chk.violation('correspondence', case={'spec': spec['name']}, found_input=False,
                                      predicate='the .mat member written is not a sequence of MATLAB-4 records',
                                      theorem='correspondence C08/ModelMat.v')
                    else:
                        mat_cases.append((spec['name'], f'{cid}:matcls', got, mraw))
                        lines.append(f'{cid}:matcls spmmat ' + ','.join(nm for nm, _ in recs) + ' [' + ','.join(str(sz) for _, sz in recs)
                                     + '] [' + ','.join(map(str, range(len(mraw)))) + ']')
                pystr = {}
                if fam == 'gifti' and os.path.exists(os.path.join(os.path.dirname(os.path.dirname(os.path.abspath(__file__))), 'bin', 'modelrun_c17')):
                    for mode in modes:
                        bs = int(mode[2:]) if mode.startswith('bs') else None
                        avl = av if av is not None else list(range(len(raw)))
                        pystr[mode], nwf = gifti_model_classes(plain, avl, bool(strict), bs)
                        chk.tagc('gifti_well_formed_cuts_run_through_C17_handlers', nwf)
                spec.setdefault('_members', {})[(comp, key)] = dict(raw=raw, plain=plain, av=av, lens=lens, cid=cid if line else None,
                                                                    pcids=pcids, pystr=pystr)
    t_prep = time.time() - t0
    # ---- run the sweeps in child processes
    with Pool(min(8, os.cpu_count() or 2)) as pool:
        results = pool.map(sweep_worker, tasks, chunksize=1)
    t_sweep = time.time() - t0 - t_prep
    impl = {}
    diffs = {}
    for (si, comp, key, variant, lo), (s, differ) in zip(meta, results):
        impl.setdefault((si, comp, key, variant), {})[lo] = s
        for n, rep in differ:
            diffs.setdefault((si, comp, key, variant), []).append((n, rep))
    with open(os.path.join(chk.workdir, 'model_lines.txt'), 'w') as fh:      # for replaying a slow or failing line by hand
        fh.write('\n'.join(lines) + '\n')
    t_cpu0 = os.times()
    mod = run_model(PROP, lines, timeout=300)
    t_cpu1 = os.times()
    chk.extra['model_cpu_s'] = round((t_cpu1.children_user + t_cpu1.children_system) - (t_cpu0.children_user + t_cpu0.children_system), 2)
    t_model = time.time() - t0 - t_prep - t_sweep
    # ---- the SPM .mat member against the loadmat-contract model (C08_prefix_spm_mat, C08_spm_mat_cut_classes)
    for name, mcid, got, mraw in mat_cases:
        ms = mod.get(mcid, '<missing>')
        chk.tagc('spm_mat_vs_loadmat_contract_model', len(got))
        for c in 'EHABXD':
            if got.count(c):
                chk.tagc('spm_mat_outcome:' + {'E': 'raises', 'H': 'header_affine', 'A': 'affine_of_complete_mat', 'B': 'affine_of_complete_mat',
                                               'X': 'OTHER_AFFINE', 'D': 'OTHER_DATA'}[c], got.count(c))
        if not ms.startswith('ok ') or len(ms) - 3 != len(got):
            chk.disagreements += 1
            chk.violation('correspondence', case={'file': name + ':mat'}, model_output=ms[:200], found_input=False,
                          predicate='model gave no answer for the .mat member', theorem='correspondence C08/ModelMat.v')
            continue
        allowed = {'0': 'E', '1': 'HB', '2': 'AB', '3': 'AB'}
        bad = [(n, a, b) for n, (a, b) in enumerate(zip(ms[3:], got)) if b not in allowed[a]]
        for n, a, b in bad[:1]:
            if b == 'D':
                chk.violation('property_violation', case=dict(spec=name, member='mat', cut_at=n, file_hex=mraw.hex(), family='vol', comp='', mmap=False),
                              impl_output=b, predicate=f'{name}: the .mat member cut at byte {n} changes the voxel data loaded')
            else:
                chk.disagreements += 1
                chk.violation('correspondence', case=dict(spec=name, member='mat', cut_at=n, file_hex=mraw.hex(), family='vol', comp='', mmap=False),
                              model_output=f'class {a} (0 raises, 1 header affine, 2/3 affine of the complete .mat); {len(bad)} cuts differ, first {bad[:5]}',
                              impl_output=b, found_input=False, theorem='C08_prefix_spm_mat / loadmat contract',
                              predicate=f'{name}: .mat member cut at byte {n}: outcome (E raises, H header affine, A affine of the complete .mat, '
                                        'X another affine) differs from the loadmat-contract model')
    # ---- compare
    for (si, comp, key, variant), parts in sorted(impl.items()):
        mm, mode = variant
        spec = specs[si]
        s = ''.join(parts[lo] for lo in sorted(parts))
        m = spec['_members'][(comp, key)]
        name = f"{spec['name']}{comp}:{key}:mmap={int(mm)}" + ('' if mode == 'full' else ':' + mode)
        for n, c in enumerate(s):
            chk.count(key=(spec['name'], comp, key, mm, mode, m['lens'][n]), tag=f"{spec['name']}{comp or ':plain'}",
                      sample={'file': spec['name'] + comp, 'member': key, 'mmap': mm, 'cut_at': m['lens'][n], 'of': len(m['raw']), 'outcome': c}
                      if (n == len(s) // 2 and key == 'image' and not mm and mode == 'full') else None)
        chk.tagc('outcome:exception', s.count('E'))
        chk.tagc('outcome:equal', s.count('Q'))
        chk.tagc('outcome:DIFFERENT', s.count('D'))
        chk.tagc('mmap=True' if mm else 'mmap=False', len(s))
        chk.tagc('read_mode:' + mode, len(s))
        # the property predicate, directly
        for n, rep in diffs.get((si, comp, key, variant), []):
            desc = dict(spec=spec['name'], comp=comp, member=key, mmap=mm, mode=mode, cut_at=n, file_hex=m['raw'].hex(), family=spec['family'])
            chk.violation('property_violation', case=desc, impl_output=rep,
                          predicate=f'{name}: the file cut at byte {n} of {len(m["raw"])} loads without error as DIFFERENT data')
        # correspondence with the model
        mcid = m['pcids'].get(mode) or (m['cid'] if mode in ('full', 'lazy_retry') else None)
        if mcid is None and mode not in m['pystr']:
            chk.tagc('oracle_member_predicate_only' if m['cid'] is None else 'predicate_only:' + mode, len(s))
            continue
        if mode in SLICE_SEL:
            chk.tagc('partial_read_through_raising_stream_vs_model' if (comp and strict_of.get(comp)) else 'partial_read_vs_fileslice_model', len(s))
        elif mode == 'lazy_retry' and mode in m['pcids']:
            chk.tagc('lazy_retry_vs_retry_model', len(s))
        elif mode in m['pystr']:
            chk.tagc('gifti_vs_expat_contract_model', len(s))
        ms = ('ok ' + m['pystr'][mode]) if mode in m['pystr'] else mod.get(mcid, '<missing>')
        if not ms.startswith('ok ') or len(ms) - 3 != len(s):
            chk.disagreements += 1
            chk.violation('correspondence', case={'file': name}, model_output=ms[:200], found_input=False,
                          predicate='model gave no answer for this file', theorem='correspondence C08/Model.v')
            continue
        ms = ms[3:]
        bad = []
        for n, (a, b) in enumerate(zip(ms, s)):
            if comp and key != 'mat':
                if m['av'][n] is None:
                    ok = b == 'E'
                else:
                    ok = (a == b) or (a == 'Q' and b == 'E')
            else:
                ok = a == b
            if not ok:
                bad.append((m['lens'][n], a, b))
        if bad:
            chk.disagreements += 1
            if not diffs.get((si, comp, key, variant)):
                n, a, b = bad[0]
                chk.violation('correspondence', case=dict(spec=spec['name'], comp=comp, member=key, mmap=mm, mode=mode, cut_at=n,
                                                          file_hex=m['raw'].hex(), family=spec['family']),
                              model_output=f'{a} (all: {len(bad)} cut points differ, first {bad[:5]})', impl_output=b,
                              predicate=f'{name}: outcome class of the model and of the implementation differ at cut {n}; '
                              'the property predicate holds', found_input=False, theorem='correspondence C08/Model.v <-> loaders')
    chk.extra['timing_s'] = {'prepare': round(t_prep, 2), 'sweeps': round(t_sweep, 2), 'model': round(t_model, 2)}
    chk.extra['loads'] = sum(len(t[7]) for t in tasks)
    chk.extra['unproved_statements'] = UNPROVED
    # ---- vm_compute cross-check of the extraction on tiny inputs
    pairs = []
    tiny = list(range(1, 13))
    zl = '[' + ';'.join(map(str, tiny)) + ']'
    for n in (0, 3, 7, 11, 12):
        exp = 'Some [9;10;11;12]' if n == 12 else 'None'
        pairs.append((f'match decode_single false 4 8 4 false (firstn {n} {zl}), {exp} with Some a, Some b => list_beq Z Z.eqb a b '
                      f'| None, None => true | _, _ => false end', f'single {n}'))
    for n in (0, 3, 4, 9):
        pairs.append((f'Bool.eqb (decode_pair_hdr false 4 true false (firstn {n} {zl})) {"true" if n >= 4 and n != 9 else "false"}', f'pairhdr {n}'))
    for n in (5, 8, 10, 12):
        exp = 'Some [5;6;7;8]' if n >= 8 else 'None'
        pairs.append((f'match decode_mgh false 4 4 4 4 (firstn {n} {zl}), {exp} with Some a, Some b => list_beq Z Z.eqb a b '
                      f'| None, None => true | _, _ => false end', f'mgh {n}'))
    imports = ('From Coq Require Import ZArith List Bool. Import ListNotations. Open Scope Z_scope.\n'
               'From NV Require Import Base.Bytes C16.Model C08.Model.\nScheme Equality for list.\n')
    ncase, badv = vm_crosscheck(PROP, imports, pairs)
    chk.vm = {'cases': ncase, 'disagreements': len(badv)}
    if badv:
        chk.disagreements += 1
        chk.violation('correspondence', case={'vm_crosscheck': [pairs[b][1] if isinstance(b, int) and b < len(pairs) else b for b in badv]},
                      predicate='extracted model disagrees with vm_compute evaluation of the model', found_input=False,
                      theorem='extraction cross-check')


UNPROVED = [
    'expat satisfies the contract of C08_prefix_gifti (feed_spec, no strict prefix of the document is well-formed, what '
    'follows the root element is ignored): oracle, measured with pyexpat alone at every cut, not proved',
    'that the bz2 / zstd / indexed_gzip file objects satisfy reader_below (a seek+read that does not raise returns a prefix of '
    'what the same seek+read returns on the complete file): the oracle contract of C08_prefix_partial_read_any_stream; the '
    'harness measures what each truncated stream delivers and compares every partial read with rd_raising / the prefix, not proved',
    'scipy.io.loadmat satisfies the contract of C08_prefix_spm_mat (the complete .mat gives the variables written, a prefix '
    'raises or gives a leading part of them unchanged): oracle; measured at every cut of the .mat written (it loads only at the '
    'MATLAB-4 record boundaries, computed by an independent record parser), not proved',
    'the two float facts of C08_prefix_spm_mat (negating the first row twice is the identity; it commutes with @ from_111 because '
    'round-to-nearest is symmetric) are premises, not derived in Flocq; the harness compares the affines bit for bit',
    'the stepped slice [..., 1::2] is not run on the two-block zstd file (the post-slicing of the C06 model is quadratic in the '
    'elements read); there the first and last slab and the full read are compared at sampled cuts only',
    'that gzip/bz2/zstd/indexed_gzip satisfy the contract of C08_prefix_compressed (a truncated stream delivers a prefix of '
    'the plain bytes, then raises or ends): oracle, measured by the harness on every cut point, not proved',
    'np.memmap of a region beyond the end of a file raises: runtime behaviour, observed (mmap=True sweep), not proved',
    'the empty TRK file (header only): outside C08_prefix_trk (sl <> []); the harness observes that cuts at 998/999 bytes '
    '(only zero bytes of hdr_size missing, which readinto leaves as zeros) load the same empty tractogram',
    'vox_offset / data size / byte order as functions of the header block: parameters of the model (C10), any values',
]


def replay(chk, obj):
    ensure_impl_path()
    c = obj.get('case')
    if not isinstance(c, dict) or 'file_hex' not in c:
        if (obj.get('inputs') or {}).get('probe_fn'):
            import defect_probes
            r = defect_probes.PROBES[obj['inputs']['probe_fn']]()
            print('defect present' if r else 'defect absent')
            return 1 if r else 0
        print('nothing to replay:', obj.get('predicate'))
        return 1
    import nibabel as nib  # noqa
    raw = bytes.fromhex(c['file_hex'])
    fam = c['family']
    if c['member'] != 'image' or fam not in ('vol', 'tck', 'trk', 'gifti', 'cifti'):
        print('replay supports single-member cases; cut point', c['cut_at'], 'of member', c['member'])
    ext = {'tck': '.tck', 'trk': '.trk', 'gifti': '.gii', 'cifti': '.dscalar.nii'}.get(fam, '.mgh' if c['spec'] == 'mgh' else '.nii')
    comp = c['comp'] if c['comp'] != '.mgz' else ''
    if c['comp'] == '.mgz':
        ext = '.mgz'
    full = os.path.join(chk.workdir, 'full' + ext + comp)
    cut = os.path.join(chk.workdir, 'cut' + ext + comp)
    open(full, 'wb').write(raw)
    open(cut, 'wb').write(raw[:c['cut_at']])
    try:
        exp = load_observable(fam, full, c['mmap'], False, c.get('mode', 'full'))
    except Exception as e:  # noqa
        print('the complete file does not load (pair member?):', repr(e)[:100])
        return 1
    try:
        got = load_observable(fam, cut, c['mmap'], False, c.get('mode', 'full'))
    except Exception as e:  # noqa
        print('cut file raises', type(e).__name__, '- property holds on this case')
        return 0
    if got == exp:
        print('cut file loads the same data - property holds on this case')
        return 0
    print('cut file loads DIFFERENT data:', repr(got)[:300])
    print('property fails on this case')
    return 1
