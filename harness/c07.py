"""C07 — saving never changes the image, even when the write fails part-way.

Model: coq/C07/Model.v (image state = header consumables + alias + data/affine identities;
to_file_map of every writable class as a sequence of micro-steps each of which consults the
fault oracle when it touches a destination file object).  Theorems: coq/C07/Props.v.

Case lines sent to bin/modelrun_c07 (see coq/C07/driver.ml):
  sweep <class 8 fields> <od> <state 8 fields> <env 11 fields>
     -> clean run (result, calls, final state, call log) and, for every k <= number of calls of
        the clean run, the run in which the k-th file-object call raises (result, calls, state)
  run <k|-1> <same case>

The implementation is driven from outside only: the destination FileHolders carry in-memory
file objects sharing one call counter; the k-th write/seek/tell/close call raises
OSError(ENOSPC).  For every class x variant, k is swept over ALL calls of a clean run.
Observed before/after each save: header.binaryblock, get_data_dtype(), the alias, the data
bytes, the affine (CIFTI-2: XML, data, dtype — see DESIGN); then the SAME object is saved to a
healthy destination and the bytes compared with a first save of a fresh copy.
"""
import bz2
import errno
import gzip
import io
import os
import struct
import warnings

import numpy as np

from common import Check, ensure_impl_path, run_model, vm_crosscheck

PROP = 'C07'
MAX_REPLAYS_PER_KIND = 6


def report(chk, kind, **kw):
    cnt = chk.extra.setdefault('violations_by_kind', {})
    pred = kw.get('predicate') or ''
    key = kind + ':' + pred.split(':')[0][:40]
    cnt[key] = cnt.get(key, 0) + 1
    if cnt[key] <= MAX_REPLAYS_PER_KIND:
        chk.violation(kind, **kw)


# ------------------------------------------------------------------ fault-injecting destinations
class InjectedRuntimeError(RuntimeError):
    pass


EXC_TYPES = ['oserror', 'keyboard', 'runtime', 'memory']


def make_exc(kind):
    """The exception the k-th call raises.  C07's mechanism (the finally clauses) must not depend on its type."""
    e = {'oserror': lambda: OSError(errno.ENOSPC, 'No space left on device (injected)'),
         'keyboard': lambda: KeyboardInterrupt('injected'),
         'runtime': lambda: InjectedRuntimeError('injected'),
         'memory': lambda: MemoryError('injected')}[kind]()
    e._verif_injected = True
    return e


class Ctr:
    def __init__(self, k=None, exc='oserror', persistent=False):
        self.n = 0
        self.k = k
        self.exc = exc
        self.persistent = persistent      # disk full: every call from k on fails, close included
        self.log = []
        self.frozen = False               # after the save returned: finalisers closing leaked files are not calls of the save


class Faulty(io.BytesIO):
    """In-memory destination; every write/seek/tell/close is a numbered call of the shared
    counter, and call number ctr.k raises OSError(ENOSPC) without being performed."""

    def __init__(self, key, ctr):
        super().__init__()
        self.key, self.ctr = key, ctr
        self.was_closed = False

    def _tick(self, what):
        if self.ctr.frozen:
            return
        i = self.ctr.n
        self.ctr.n += 1
        if i == self.ctr.k or (self.ctr.persistent and self.ctr.k is not None and i >= self.ctr.k):
            self.ctr.log.append((self.key, what, 'FAIL'))
            raise make_exc(self.ctr.exc)
        self.ctr.log.append((self.key, what))

    def write(self, b):
        self._tick('w')
        return super().write(b)

    def seek(self, *a):
        self._tick('s')
        return super().seek(*a)

    def tell(self):
        self._tick('t')
        return super().tell()

    def close(self):
        # like a real buffered file: the first close flushes (and may fail — the file is closed all the same);
        # any later close (e.g. from Opener.__del__) is a no-op and not a call
        if self.was_closed:
            return
        self.was_closed = True
        self._tick('c')


FAULTY_EXT = '.vfault'
_REG = {}
_SERIAL = [0]


def _faulty_open(filename, mode='rb'):
    return _REG[filename]


def register_opener():
    """Destinations given by FILE NAME that nibabel opens and closes itself, yet fault-injectable: the extension
    .vfault is registered the documented way (ImageOpener.compress_ext_map[ext] = (function, args)) with an
    'open' function that hands out the prepared in-memory object."""
    from nibabel.openers import ImageOpener
    ImageOpener.compress_ext_map[FAULTY_EXT] = (_faulty_open, ('mode',))


def file_map_for(cls, ctr, mine=False):
    from nibabel.fileholders import FileHolder
    keys = [k for k, _ in cls.files_types]
    if not mine:
        return {k: FileHolder(fileobj=Faulty(k, ctr)) for k in keys}
    register_opener()
    fm = {}
    _SERIAL[0] += 1
    for k in keys:
        name = f'/nonexistent/verif_c07_{os.getpid()}_{_SERIAL[0]}_{k}{FAULTY_EXT}'
        _REG[name] = Faulty(k, ctr)
        fm[k] = FileHolder(filename=name)
    return fm


def out_bytes(fm):
    out = {}
    for k, fh in fm.items():
        f = fh.fileobj if fh.fileobj is not None else _REG.pop(fh.filename)
        out[k] = f.getvalue()
    return out


# ------------------------------------------------------------------ images
CLASSES = ['AnalyzeImage', 'Spm99AnalyzeImage', 'Spm2AnalyzeImage', 'Nifti1Pair', 'Nifti1Image', 'Nifti2Pair',
           'Nifti2Image', 'MGHImage', 'Cifti2Image']
VARIANTS = ['f2i', 'int', 'override', 'compat', 'smallest', 'smallest_float', 'preset_scale', 'user_offset',
            'small_offset', 'exts', 'bad_override', '4d', 'xflip_false', 'xflip_true']


def get_class(name):
    import nibabel as nib
    from nibabel.freesurfer import MGHImage
    from nibabel.cifti2 import Cifti2Image
    return {'MGHImage': MGHImage, 'Cifti2Image': Cifti2Image}.get(name) or getattr(nib, name)


def make_image(spec):
    """spec: dict(cls, data_dtype, shape, seed, set_dtype, alias, override, preset, offset, nexts).
    Returns (img, kwargs for to_file_map).  Deterministic in spec."""
    import nibabel as nib
    from nibabel.cifti2 import Cifti2Header, cifti2_axes as ax
    from nibabel.nifti1 import Nifti1Extension
    cls = get_class(spec['cls'])
    rng = np.random.default_rng(spec['seed'])
    shape = tuple(spec['shape'])
    dd = np.dtype(spec['data_dtype'])
    if dd.kind == 'f':
        a = (rng.normal(size=shape) * 100).astype(dd)
        if spec.get('small'):
            a = np.abs(a)
    elif dd.kind == 'u':
        a = rng.integers(0, 200, size=shape).astype(dd)
    else:
        a = rng.integers(-3000 if not spec.get('small') else 0, 3000 if not spec.get('small') else 200, size=shape).astype(dd)
    aff = np.diag([2.0, 3.0, 4.0, 1.0])
    aff[:3, 3] = [-10, 5, 7]
    with warnings.catch_warnings():
        warnings.simplefilter('ignore')
        if spec['cls'] == 'Cifti2Image':
            h = Cifti2Header.from_axes((ax.ScalarAxis(['s%d' % i for i in range(shape[0])]), ax.SeriesAxis(0, 1, shape[1])))
            img = cls(a, h)
        else:
            img = cls(a, aff)
    if spec.get('set_dtype'):
        img.set_data_dtype(np.dtype(spec['set_dtype']))
    if spec.get('alias'):
        img.set_data_dtype(spec['alias'])
    if spec.get('preset'):
        img.header.set_slope_inter(*spec['preset'])
    if spec.get('offset'):
        img.header.set_data_offset(spec['offset'])
    if spec.get('x_flip') is not None:
        img.header.default_x_flip = bool(spec['x_flip'])      # instance flag of the image's own header
    for j in range(spec.get('nexts', 0)):
        img.header.extensions.append(Nifti1Extension(6, b'comment %d ' % j * (j + 1)))
    kw = {}
    if spec.get('override'):
        kw['dtype'] = np.dtype(spec['override'])
    return img, kw


def specs_for(cls, variant):
    """The fixed (seed-independent) case of a class x variant, or None when the variant does
    not apply to the class."""
    base = dict(cls=cls, shape=[3, 4, 2], seed=1, data_dtype='<f8')
    nifti = cls.startswith('Nifti')
    analyze_like = cls in ('AnalyzeImage', 'Spm99AnalyzeImage', 'Spm2AnalyzeImage') or nifti
    if cls == 'Cifti2Image':
        base['shape'] = [3, 4]
        if variant == 'f2i':
            return dict(base)
        if variant == 'int':
            return dict(base, data_dtype='<i2')
        if variant == 'override':
            return dict(base, override='<i2')
        if variant == 'bad_override':
            return dict(base, override='<f2')
        return None
    if cls == 'MGHImage':
        if variant == 'f2i':
            return dict(base, data_dtype='<f4')
        if variant == 'int':
            return dict(base, data_dtype='<i2')
        if variant == '4d':
            return dict(base, data_dtype='<i4', shape=[3, 4, 2, 5])
        if variant == 'override':          # MGH stores float data as int16 by casting (no scaling)
            return dict(base, data_dtype='<f4', set_dtype='<i2')
        return None
    if variant in ('xflip_false', 'xflip_true'):
        if cls.startswith('Spm') or cls == 'AnalyzeImage':
            return dict(base, data_dtype='<i2', x_flip=(variant == 'xflip_true'))
        return None
    if variant == 'f2i':
        return dict(base, set_dtype='<i2')
    if variant == 'int':
        return dict(base, data_dtype='<i2')
    if variant == 'override':
        return dict(base, data_dtype='<i4', override='|u1', small=not nifti)
    if variant == 'compat' and nifti:
        return dict(base, data_dtype='<i8', alias='compat')
    if variant == 'smallest' and nifti:
        return dict(base, data_dtype='<i4', alias='smallest', small=True)
    if variant == 'smallest_float' and nifti:
        return dict(base, alias='smallest')
    if variant == 'preset_scale' and (nifti or cls.startswith('Spm')):
        return dict(base, data_dtype='<i2', preset=(2.0, 1.0) if nifti else (2.0, None))
    if variant == 'user_offset' and analyze_like:
        return dict(base, data_dtype='<i2', offset={'Nifti1Image': 400, 'Nifti2Image': 600}.get(cls, 16))
    if variant == 'small_offset' and cls in ('Nifti1Image', 'Nifti2Image'):
        return dict(base, data_dtype='<i2', offset=100)
    if variant == 'exts' and nifti:
        return dict(base, data_dtype='<i2', nexts=2)
    if variant == 'bad_override':
        return dict(base, data_dtype='<i2', override='<f2')
    if variant == '4d':
        return dict(base, shape=[3, 4, 2, 5], set_dtype=('|u1' if nifti else '<i2') if cls != 'AnalyzeImage' else None,
                    data_dtype='<f8' if cls != 'AnalyzeImage' else '<f4', small=True)
    return None


def random_spec(rng):
    cls = rng.choice(CLASSES)
    nifti = cls.startswith('Nifti')
    if cls == 'Cifti2Image':
        return dict(cls=cls, shape=[rng.randrange(1, 4), rng.randrange(1, 5)], seed=rng.randrange(10 ** 6),
                    data_dtype=rng.choice(['<f8', '<f4', '<i2']), override=rng.choice([None, None, '<i2', '<f4']))
    shape = [rng.randrange(1, 4), rng.randrange(1, 4), rng.randrange(1, 4)] + ([rng.randrange(1, 4)] if rng.random() < 0.3 else [])
    if cls == 'MGHImage':
        if len(shape) == 4 and shape[3] == 1:      # a trailing singleton 4th axis is refused by MGH (shape check)
            shape[3] = 2
        return dict(cls=cls, shape=shape, seed=rng.randrange(10 ** 6), data_dtype=rng.choice(['<f4', '<i2', '<i4', '|u1']))
    s = dict(cls=cls, shape=shape, seed=rng.randrange(10 ** 6), data_dtype=rng.choice(['<f8', '<f4', '<i2', '<i4', '|u1']))
    r = rng.random()
    if r < 0.3:
        s['set_dtype'] = rng.choice(['<i2', '|u1', '<i4', '<f4'])
    elif r < 0.5:
        s['override'] = rng.choice(['<i2', '|u1', '<f4', '<f2'])
    elif r < 0.7 and nifti:
        s['alias'] = rng.choice(['compat', 'smallest'])
        s['small'] = rng.random() < 0.5
    if (cls.startswith('Spm') or cls == 'AnalyzeImage') and rng.random() < 0.5:
        s['x_flip'] = rng.random() < 0.5
    if rng.random() < 0.2 and (nifti or cls.startswith('Spm')):
        s['preset'] = (rng.choice([2.0, 0.5, 3.25]), rng.choice([0.0, 1.0, -4.5]) if nifti else None)
    if nifti and rng.random() < 0.25:
        s['nexts'] = rng.randrange(1, 3)
    if rng.random() < 0.2:
        # minimum offset of a single file = header + 4 + extensions (32 bytes each here); with extensions the slack
        # stays below 16 bytes: a larger one writes a file that cannot be re-loaded (finding S-C11a, property C11)
        base = (352 if cls == 'Nifti1Image' else 544 if cls == 'Nifti2Image' else 0)
        if base and s.get('nexts'):
            s['offset'] = base + 32 * s['nexts'] + rng.choice([0, 5, 8, -16])
        else:
            s['offset'] = base + rng.choice([0, 16, 48, 5])
    return s


# ------------------------------------------------------------------ observation
def pending_alias(img):
    """The pending dtype alias, observed through the public getter: get_data_dtype() returns the alias string while
    one is pending and a numpy dtype otherwise."""
    try:
        d = img.get_data_dtype()
    except Exception:  # noqa
        return None
    return d if isinstance(d, str) else None


def snapshot(img):
    from nibabel.cifti2 import Cifti2Image
    d = {'data': np.asarray(img.dataobj).tobytes(), 'data_dtype': str(np.asarray(img.dataobj).dtype),
         'dtype': str(img.get_data_dtype())}
    if isinstance(img, Cifti2Image):
        d['xml'] = img.header.to_xml()
        return d
    d['hdr'] = img.header.binaryblock
    d['aff'] = None if img.affine is None else np.asarray(img.affine).tobytes()
    d['alias'] = pending_alias(img)
    return d


def fbits(x):
    x = float(x)
    if x != x:
        return 'nan'
    return str(struct.unpack('<q', struct.pack('<d', x))[0])


def hdr_fields(hdr, cls):
    """off/dt/slope/inter/magic of a header object in the model's notation."""
    if cls == 'MGHImage':
        return [str(int(hdr.get_data_offset())), str(int(hdr['type'])), 'nan', 'nan', '0']
    names = hdr.structarr.dtype.names
    off = str(int(hdr['vox_offset']))
    dt = str(int(hdr['datatype']))
    sl = fbits(hdr['scl_slope']) if 'scl_slope' in names else 'nan'
    it = fbits(hdr['scl_inter']) if 'scl_inter' in names else 'nan'
    mg = str(int.from_bytes(bytes(hdr['magic'].item()).ljust(4, b'\0')[:4], 'little')) if 'magic' in names else '0'
    return [off, dt, sl, it, mg]


def model_state(img, cls, before=None):
    """The model's state string for an image object (data/affine identity = 7/9 while unchanged)."""
    from nibabel.cifti2 import Cifti2Image
    if isinstance(img, Cifti2Image):
        h = img.nifti_header
        f = ['0', str(int(h['datatype'])), 'nan', 'nan', '0']       # the container is not observed (DESIGN)
        al = '-'
    else:
        f = hdr_fields(img.header, cls)
        al = pending_alias(img) or '-'
    snap = snapshot(img)
    d = '7' if before is None or snap['data'] == before['data'] else '8'
    a = '9' if before is None or snap.get('aff') == before.get('aff') else '10'
    if isinstance(img, Cifti2Image) and before is not None and snap['xml'] != before['xml']:
        a = '10'
    return '/'.join(f + [al, d, a])


def dtype_code(hdr_cls_obj, dt):
    """Datatype code the header stores for a numpy dtype — measured: set it on a copy of the header through the public
    setter and read the field back (9000 + itemsize for a dtype the header class refuses)."""
    try:
        h = hdr_cls_obj.copy()
        h.set_data_dtype(np.dtype(dt))
        names = h.structarr.dtype.names
        return int(h['datatype' if 'datatype' in names else 'type'])
    except Exception:  # noqa
        return 9000 + np.dtype(dt).itemsize


def exc_enum(e):
    from nibabel.arraywriters import WriterError
    if getattr(e, '_verif_injected', False):
        return 'err:oserror'          # the model's EOS = "the injected exception propagated", whatever its type
    from nibabel.spatialimages import HeaderDataError
    if isinstance(e, WriterError):
        return 'err:writer'
    if isinstance(e, HeaderDataError):
        return 'err:headerdata'
    if isinstance(e, OSError):
        return 'err:oserror'
    if isinstance(e, ValueError):
        return 'err:value'
    return 'err:other:' + type(e).__name__


def model_case(spec, measured_nmat):
    """The model's case fields for a spec; the data oracles are measured on fresh copies."""
    from nibabel.arraywriters import WriterError, get_slope_inter, make_array_writer
    from nibabel.cifti2 import Cifti2Image
    from nibabel.cifti2.parse_cifti2 import Cifti2Extension
    from nibabel.nifti1 import Nifti1Pair
    from nibabel.nifti2 import Nifti2Image
    from nibabel.spatialimages import HeaderDataError
    from nibabel.spm99analyze import Spm99AnalyzeImage
    cls = spec['cls']
    img, kw = make_image(spec)
    klass = type(img)
    if cls == 'MGHImage':
        hdr = img.header
        hb = io.BytesIO()
        hdr.writehdr_to(hb)              # bytes of the header block proper (without the footer), measured
        K = ['M', '1', str(len(hb.getvalue())), '0', '0', '0', '0', '0']
        hc = hdr
    elif cls == 'Cifti2Image':
        hc = Nifti2Image.header_class()
        K = ['C', '1', str(int(hc.sizeof_hdr)), '1', '1', '1',
             str(int.from_bytes(hc.single_magic.ljust(4, b'\0')[:4], 'little')), '0']
    else:
        hc = klass.header_class()
        nif = issubclass(klass, Nifti1Pair)
        single = bool(getattr(hc, 'is_single', False)) and nif
        mg = (hc.single_magic if single else hc.pair_magic) if nif else b''
        K = ['A', '1' if single else '0', str(int(hc.sizeof_hdr)), '1' if hc.has_data_slope else '0',
             '1' if hc.has_data_intercept else '0', '1' if nif else '0',
             str(int.from_bytes(mg.ljust(4, b'\0')[:4], 'little')), '1' if issubclass(klass, Spm99AnalyzeImage) else '0']
    od = '-'
    uns = []
    if 'dtype' in kw:
        c = dtype_code(hc, kw['dtype'])
        od = str(c)
        try:
            hc.copy().set_data_dtype(kw['dtype']) if cls != 'Cifti2Image' else Nifti2Image.header_class().set_data_dtype(kw['dtype'])
        except HeaderDataError:
            uns.append(c)
    state = model_state(img, cls).split('/')
    # alias resolution, measured on a fresh copy
    rsv = '-'
    if spec.get('alias'):
        probe, _ = make_image(spec)
        try:
            rsv = str(dtype_code(hc, probe.get_data_dtype(finalize=True)))
        except ValueError:
            rsv = '-'
    # writer refusal and scaling, measured through the documented arraywriters API
    wfail, ss, si = '0', 'nan', 'nan'
    nslabs = 1
    if cls != 'MGHImage':
        probe, _ = make_image(spec)
        hp = probe.nifti_header if isinstance(probe, Cifti2Image) else probe.header
        data = np.asanyarray(probe.dataobj)
        if isinstance(probe, Cifti2Image):
            data = data.reshape((1, 1, 1, 1) + data.shape)
        out_dt = None
        try:
            if spec.get('alias'):
                out_dt = probe.get_data_dtype(finalize=True)
            else:
                out_dt = np.dtype(kw['dtype']) if 'dtype' in kw else hp.get_data_dtype()
        except ValueError:
            out_dt = None
        if out_dt is not None and not uns:
            has_s = hc.has_data_slope if cls != 'Cifti2Image' else True
            has_i = hc.has_data_intercept if cls != 'Cifti2Image' else True
            try:
                with warnings.catch_warnings():
                    warnings.simplefilter('ignore')
                    w = make_array_writer(data, out_dt, has_s, has_i)
                s_, i_ = get_slope_inter(w)
                # as stored in the header field (float32 for NIfTI-1, float64 for NIfTI-2, SPM scale)
                tmp = (Nifti2Image.header_class() if cls == 'Cifti2Image' else klass.header_class())
                tmp.set_slope_inter(s_, i_)
                f = hdr_fields(tmp, cls)
                ss, si = f[2], f[3]
            except WriterError:
                wfail = '1'
        sq = np.squeeze(data)
        nslabs = sq.shape[-1] if sq.ndim >= 2 else 1
    else:
        sq = np.squeeze(np.asanyarray(img.dataobj))
        nslabs = sq.shape[-1] if sq.ndim >= 2 else 1
    if cls == 'Cifti2Image':
        exts = [int(e.get_sizeondisk()) for e in img.nifti_header.extensions if not isinstance(e, Cifti2Extension)]
        exts.append(int(Cifti2Extension.from_bytes(img.header.to_xml()).get_sizeondisk()))
    elif hasattr(img.header, 'extensions'):
        exts = [int(e.get_sizeondisk()) for e in img.header.extensions]
    else:
        exts = []
    env = [rsv, '[' + ','.join(map(str, uns)) + ']', wfail, ss, si, str(nslabs), '[' + ','.join(map(str, exts)) + ']',
           str(measured_nmat)]
    return K, od, state, env


def fmt_case(K, od, state, env, mine='0 0 0', oserr=True):
    return ' '.join(K) + ' ' + od + ' ' + ' '.join(state) + ' ' + ' '.join(env) + ' ' + mine + (' 1' if oserr else ' 0')


def attempt(spec, k, healthy_after=True, exc='oserror', mine=False, persistent=False):
    """One save of a fresh image with the k-th call failing (k=None: clean); then, on the SAME
    object, a save to a healthy destination."""
    img, kw = make_image(spec)
    before = snapshot(img)
    ctr = Ctr(k, exc, persistent)
    fm = file_map_for(type(img), ctr, mine)
    res = 'ok'
    with warnings.catch_warnings():
        warnings.simplefilter('ignore')
        try:
            img.to_file_map(fm, **kw)
            ctr.frozen = True
        except BaseException as e:  # noqa  (KeyboardInterrupt is one of the injected types)
            ctr.frozen = True             # before the traceback (and the files the failed save leaked) is released
            if isinstance(e, KeyboardInterrupt) and not getattr(e, '_verif_injected', False):
                raise
            res = exc_enum(e)
    after = snapshot(img)
    st = model_state(img, spec['cls'], before)
    ob = out_bytes(fm)           # (also drops the registered file-name destinations)
    out = {'res': res, 'n': ctr.n, 'log': list(ctr.log), 'before': before, 'after': after, 'state': st,
           'bytes': ob if k is None else None}
    if healthy_after:
        ctr2 = Ctr(None)
        fm2 = file_map_for(type(img), ctr2)
        with warnings.catch_warnings():
            warnings.simplefilter('ignore')
            try:
                img.to_file_map(fm2, **kw)
                out['retry'] = ('ok', out_bytes(fm2))
            except Exception as e:  # noqa
                out['retry'] = (exc_enum(e), None)
        out['after_retry'] = snapshot(img)
    return out


def diff_keys(a, b):
    return [k for k in a if a[k] != b.get(k)]


def written_header_fields(spec, clean_bytes):
    """off/dt/slope/inter/magic of the header block the clean save wrote."""
    cls = spec['cls']
    klass = get_class(cls)
    if cls == 'MGHImage':
        return None
    if cls == 'Cifti2Image':
        from nibabel.nifti2 import Nifti2Image
        hc = Nifti2Image.header_class
        b = clean_bytes['image']
    else:
        hc = klass.header_class
        b = clean_bytes['header'] if 'header' in clean_bytes else clean_bytes['image']
    h = hc(b[:int(hc().sizeof_hdr)], check=False)
    return '/'.join(hdr_fields(h, cls))


def run_case(chk, spec, mout, tag, exc='oserror', mine=False, persistent=False, count_clean=True):
    """Sweep k over all calls of the clean run; compare with the model's sweep; evaluate the
    property predicate directly."""
    case0 = {'spec': spec, 'exc': exc, 'mine': mine, 'persistent': persistent}
    clean = attempt(spec, None, mine=mine)
    n = clean['n']
    # ---- parse the model's sweep
    dis = []
    mk = {}
    mclean = None
    if mout is None or not mout.startswith('ok '):
        dis.append(('model-run', str(mout)[:200], ''))
    else:
        parts = mout[3:].split(' | ')
        mclean = parts[0].split()
        for p in parts[1:]:
            f = p.split()
            mk[int(f[0][2:])] = (f[1], int(f[2][2:]), f[3][3:])
    fresh_bytes = clean['bytes'] if clean['res'] == 'ok' else None
    results = []
    for k in [None] + list(range(n)):
        r = clean if k is None else attempt(spec, k, exc=exc, mine=mine, persistent=persistent)
        results.append((k, r))
    for k, r in results:
        case = dict(case0, k=k)
        nontriv = k is not None and r['res'] != 'ok'
        if k is None and not count_clean:
            continue                       # this clean run was counted and compared in an earlier sweep
        chk.tagc('injected:' + exc)
        chk.tagc('destination:' + ('file name (nibabel opens and closes)' if mine else 'caller file object') +
                 (', persistent fault' if persistent else ', single fault'))
        chk.count(key=(repr(sorted(spec.items(), key=str)), k, exc, mine, persistent) if r['n'] > 0 else None,
                  tag=f"{spec['cls']}", sample={'spec': spec, 'k': k, 'result': r['res']} if (k == 4 and len(chk.samples) < 6) else None)
        chk.tagc('outcome:' + ('clean_ok' if k is None and r['res'] == 'ok' else 'fault_absorbed' if k is not None and r['res'] == 'ok'
                               else r['res'] if k is not None else 'clean_' + r['res']))
        if k is not None and r['log'] and r['log'][-1][-1] == 'FAIL':
            chk.tagc('fault_at:' + {'w': 'write', 's': 'seek', 't': 'tell', 'c': 'close'}[r['log'][-1][1]])
        if r['res'] not in ('ok',) and k is None:
            chk.refusal(r['res'])
        # ---- property predicate (model-independent)
        pred = None
        d1 = diff_keys(r['before'], r['after'])
        if d1:
            pred = f"image changed by a save that {'succeeded' if r['res'] == 'ok' else 'failed (' + r['res'] + ')'}: {d1}"
        if pred is None and r['res'].startswith('err:other'):
            pred = 'unexpected exception ' + r['res']
        if pred is None and 'retry' in r:
            rr, rb = r['retry']
            if clean['res'] == 'ok':
                if rr != 'ok':
                    pred = f'retry to a healthy destination failed: {rr}'
                elif rb != fresh_bytes:
                    pred = 'retry to a healthy destination wrote bytes different from a first save of a fresh copy'
            elif rr != clean['res']:
                pred = f"retry outcome {rr} differs from a first save of a fresh copy ({clean['res']})"
            d2 = diff_keys(r['after'], r['after_retry'])
            if pred is None and d2:
                pred = f'image changed by the retry save: {d2}'
        # ---- correspondence
        d = []
        if mclean is not None:
            if k is None:
                exp = [clean['res'], f'n={n}', 'st=' + clean['state']]
                if mclean[:3] != exp:
                    d.append(('clean run result/calls/state', ' '.join(mclean[:3]), ' '.join(exp)))
                mlog = mclean[3][4:].split(',') if len(mclean) > 3 and len(mclean[3]) > 4 else []
                key = {'header': 'H', 'image': 'I', 'mat': 'M'}
                ilog = [key[a] + b for a, b in clean['log']]
                if [x[:2] for x in mlog] != ilog:
                    d.append(('clean run call sequence', ','.join(x[:2] for x in mlog), ','.join(ilog)))
                if clean['res'] == 'ok':
                    wh = written_header_fields(spec, clean['bytes'])
                    mh = [x for x in mlog if x[1:].startswith('w:hdr(')]
                    if wh is not None and (len(mh) != 1 or mh[0][7:-1] != wh):
                        d.append(('header block written', str(mh), wh))
            else:
                m = mk.get(k)
                if m is None:
                    d.append(('model sweep has no entry', f'k={k}', ''))
                elif (m[0], m[1], m[2]) != (r['res'], r['n'], r['state']):
                    d.append((f'outcome/calls/final state with call {k} failing', f'{m[0]} n={m[1]} st={m[2]}',
                              f"{r['res']} n={r['n']} st={r['state']}"))
        if pred:
            report(chk, 'property_violation', case=case, predicate=pred, theorem='C07_fault_preserves',
                   impl_output={'result': r['res'], 'calls': r['log'][-6:], 'changed': d1},
                   model_output=str(mk.get(k)) if k is not None else ' '.join(mclean[:3]) if mclean else None)
        if d or (dis and k is None):
            d = d or dis
            chk.disagreements += 1
            if not pred:
                report(chk, 'correspondence', case=case, model_output=str(d[0][1])[:400], impl_output=str(d[0][2])[:400],
                       predicate='model and implementation disagree at ' + d[0][0] + '; the image object is unchanged and the '
                       'retry is correct on this case', found_input=False,
                       theorem='correspondence C07/Model.v <-> to_file_map')
    # the clean output must load back (decoded by a fresh load)
    if clean['res'] == 'ok':
        try:
            from nibabel.fileholders import FileHolder
            klass = get_class(spec['cls'])
            fm = {k: FileHolder(fileobj=io.BytesIO(b)) for k, b in clean['bytes'].items()}
            with warnings.catch_warnings():
                warnings.simplefilter('ignore')
                img2 = klass.from_file_map(fm)
                np.asarray(img2.dataobj)
        except Exception as e:  # noqa
            report(chk, 'property_violation', case=dict(case0, k=None), predicate=f'file written by a clean save does not load: {e!r}'[:300],
                   theorem='C07_retry_correct')
    return n


def part_histories(chk, specs, nmat):
    """Histories on ONE image object: saves with and without faults, with and without dtype=
    overrides; after every save the object is as before that save, the model chained on its
    own final state agrees, and a final clean save writes what a first save of a fresh copy
    writes."""
    rng = chk.rng
    hs = []
    for _ in range(chk.n(120, 1200)):
        spec = rng.choice(specs)
        if spec['cls'] == 'MGHImage':
            ovs = [None]
        else:
            ovs = [None, None, '<i2', '|u1', '<f4', '<f2']
        steps = [(rng.choice(ovs), rng.choice([None, None] + list(range(0, 12))), rng.choice(EXC_TYPES))
                 for _ in range(rng.randrange(3, 7))]
        steps.append((spec.get('override'), None, 'oserror'))
        hs.append((spec, steps))
    imgs = [make_image(spec)[0] for spec, _ in hs]
    mstate = [None] * len(hs)
    maxlen = max(len(st) for _, st in hs)
    for j in range(maxlen):
        lines, idx, impl = [], [], {}
        for hi, (spec, steps) in enumerate(hs):
            if j >= len(steps):
                continue
            ov, k, exc = steps[j]
            sp = dict(spec)
            sp.pop('override', None)
            if ov:
                sp['override'] = ov
            K, od, st0, env = model_case(sp, nmat)
            st = mstate[hi].split('/') if mstate[hi] else st0
            lines.append(f'{hi} run {-1 if k is None else k} ' + fmt_case(K, od, st, env, oserr=(exc == 'oserror')))
            img = imgs[hi]
            before = snapshot(img)
            ctr = Ctr(k, exc)
            fm = file_map_for(type(img), ctr)
            res = 'ok'
            with warnings.catch_warnings():
                warnings.simplefilter('ignore')
                try:
                    img.to_file_map(fm, **({'dtype': np.dtype(ov)} if ov else {}))
                except BaseException as e:  # noqa
                    if isinstance(e, KeyboardInterrupt) and not getattr(e, '_verif_injected', False):
                        raise
                    res = exc_enum(e)
            after = snapshot(img)
            impl[hi] = (res, ctr.n, model_state(img, spec['cls']), before, after, out_bytes(fm), sp)
        mout = run_model(PROP, lines)
        for hi, (res, n, st, before, after, ob, sp) in impl.items():
            spec, steps = hs[hi]
            case = {'history': {'spec': spec, 'steps': steps[:j + 1]}}
            chk.count(key=('hist', hi, j, repr(sorted(spec.items(), key=str))), tag='history_step')
            m = mout.get(str(hi), '').split()
            pred = None
            d1 = diff_keys(before, after)
            if d1:
                pred = f'step {j}: image changed by a save ({res}): {d1}'
            if pred is None and j == len(steps) - 1:
                fresh = attempt(spec, None, healthy_after=False)
                if fresh['res'] != res or (res == 'ok' and fresh['bytes'] != ob):
                    pred = f'final clean save after the history differs from a first save of a fresh copy ({res} vs {fresh["res"]})'
            dis = None
            if len(m) < 4 or (m[1], m[2], m[3][3:]) != (res, f'n={n}', st):
                dis = (' '.join(m[:4]), f'{res} n={n} st={st}')
            else:
                mstate[hi] = m[3][3:]
            if pred:
                report(chk, 'property_violation', case=case, predicate=pred, theorem='C07_retry_correct',
                       impl_output={'result': res, 'changed': d1})
            if dis:
                chk.disagreements += 1
                mstate[hi] = st
                if not pred:
                    report(chk, 'correspondence', case=case, model_output=dis[0], impl_output=dis[1], found_input=False,
                           predicate=f'model and implementation disagree at history step {j} (outcome/calls/final state)',
                           theorem='correspondence C07/Model.v <-> to_file_map')


ALIAS_DATA = [('<i4', True), ('<i8', True), ('<i2', False), ('<f4', False), ('|u1', True)]
ALIAS_OPS = ['smallest', 'compat', 'explicit', 'save']


def alias_base(cls, dd, small):
    return dict(cls=cls, shape=[3, 4, 2], seed=5, data_dtype=dd, small=small)


def alias_request_spec(base, req):
    """The spec of a FRESH image carrying the currently requested alias / explicit dtype."""
    sp = dict(base)
    if req in ('smallest', 'compat'):
        sp['alias'] = req
    elif req is not None:
        sp['set_dtype'] = req
    return sp


def run_alias_history(base, ops, faults=None, fresh_cache=None):
    """Execute a history of set_data_dtype(alias | explicit) / save on ONE image object.
    Returns, per save: (index, request, result, calls, state, bytes, before, after, fresh)."""
    img, _ = make_image(base)
    req = None
    out = []
    sets = []
    fresh_cache = {} if fresh_cache is None else fresh_cache
    for j, op in enumerate(ops):
        if op in ('smallest', 'compat'):
            img.set_data_dtype(op)
            req = op
            sets.append(op)
        elif op == 'explicit' or op.startswith('explicit:'):
            dt = op.split(':')[1] if ':' in op else '<i2'
            img.set_data_dtype(np.dtype(dt))
            req = dt
            sets.append(dt)
        else:
            k = None if not faults else faults.get(j)
            exc = EXC_TYPES[(k or 0) % len(EXC_TYPES)]          # the injected type cycles with k
            before = snapshot(img)
            ctr = Ctr(k, exc)
            fm = file_map_for(type(img), ctr)
            res = 'ok'
            with warnings.catch_warnings():
                warnings.simplefilter('ignore')
                try:
                    img.to_file_map(fm)
                except BaseException as e:  # noqa
                    if isinstance(e, KeyboardInterrupt) and not getattr(e, '_verif_injected', False):
                        raise
                    res = exc_enum(e)
            key = (base['cls'], base['data_dtype'], base.get('small'), req)
            if key not in fresh_cache:
                f = attempt(alias_request_spec(base, req), None, healthy_after=False)
                fresh_cache[key] = (f['res'], f['bytes'])
            out.append(dict(j=j, req=req, k=k, res=res, n=ctr.n, state=model_state(img, base['cls']), bytes=out_bytes(fm),
                            before=before, after=snapshot(img), fresh=fresh_cache[key], sets=sets))
            sets = []
    return out


def part_alias_histories(chk, nmat):
    """Alias-switching histories on one NIfTI image object: every save must write exactly what
    a fresh image with the same data and the CURRENTLY requested alias / dtype writes, leave
    the object unchanged, and agree with the model (whose alias-resolution oracle is measured
    on that fresh image) run from the chained model state."""
    import itertools
    rng = chk.rng
    hists = []
    for cls in ('Nifti1Image', 'Nifti2Image', 'Nifti1Pair', 'Nifti2Pair'):
        for ops in itertools.product(ALIAS_OPS, repeat=3):          # exhaustive: all histories of 3 ops + a final save
            hists.append((alias_base(cls, '<i4', True), list(ops) + ['save'], None))
    for _ in range(chk.n(80, 1500)):
        cls = rng.choice(['Nifti1Image', 'Nifti2Image', 'Nifti1Pair', 'Nifti2Pair'])
        dd, small = rng.choice(ALIAS_DATA)
        ops = [rng.choice(ALIAS_OPS + ['save', 'explicit:<f4', 'explicit:|u1']) for _ in range(rng.randrange(3, 7))] + ['save']
        faults = {j: rng.randrange(0, 8) for j, op in enumerate(ops[:-1]) if op == 'save' and rng.random() < 0.3}
        hists.append((alias_base(cls, dd, small), ops, faults))
    fresh_cache = {}
    runs = [run_alias_history(b, ops, faults, fresh_cache) for b, ops, faults in hists]
    # model: chained state; the environment (alias resolution, scaling) of each save is that of the fresh image
    mstate = [None] * len(hists)
    maxs = max(len(r) for r in runs)
    mres = [[None] * len(r) for r in runs]
    case_cache = {}
    for si in range(maxs):
        lines = []
        for hi, (base, ops, faults) in enumerate(hists):
            if si >= len(runs[hi]):
                continue
            sv = runs[hi][si]
            ck = (base['cls'], base['data_dtype'], base.get('small'), sv['req'])
            if ck not in case_cache:
                case_cache[ck] = model_case(alias_request_spec(base, sv['req']), nmat)
            K, od, st0, env = case_cache[ck]
            hc = get_class(base['cls']).header_class()
            st = (mstate[hi] or '/'.join(model_case(base, nmat)[2])).split('/') if mstate[hi] or si == 0 else st0
            # the set_data_dtype calls since the previous save, applied to the model state
            for q in sv['sets']:
                if q in ('smallest', 'compat'):      # Nifti1Pair.set_data_dtype(alias): the header is not touched
                    st[5] = q
                else:                                # explicit dtype: alias cleared, header datatype set
                    st[5] = '-'
                    st[1] = str(dtype_code(hc, q))
            lines.append(f"{hi} run {-1 if sv['k'] is None else sv['k']} " +
                         fmt_case(K, od, st, env, oserr=(EXC_TYPES[(sv['k'] or 0) % len(EXC_TYPES)] == 'oserror')))
        mout = run_model(PROP, lines)
        for hi in range(len(hists)):
            if si < len(runs[hi]):
                m = mout.get(str(hi), '')
                mres[hi][si] = m
                f = m.split()
                if len(f) >= 4:
                    mstate[hi] = f[3][3:]
    for hi, (base, ops, faults) in enumerate(hists):
        for si, sv in enumerate(runs[hi]):
            case = {'alias_history': {'base': base, 'ops': ops, 'faults': {str(k): v for k, v in (faults or {}).items()}, 'save': sv['j']}}
            chk.count(key=('alias_hist', hi, si), tag='alias_history_save',
                      sample={'class': base['cls'], 'data': base['data_dtype'], 'ops': ops} if hi == 37 and si == 0 else None)
            chk.tagc('alias_request:' + str(sv['req'] if sv['req'] in (None, 'smallest', 'compat') else 'explicit'))
            pred = None
            d1 = diff_keys(sv['before'], sv['after'])
            if d1:
                pred = f"alias history save {sv['j']}: image changed by a save ({sv['res']}): {d1}"
            elif sv['k'] is None:
                fres, fbytes = sv['fresh']
                if sv['res'] != fres:
                    pred = (f"alias history save {sv['j']} (request {sv['req']}): outcome {sv['res']} differs from a fresh image "
                            f'with the same data and request ({fres})')
                elif fres == 'ok' and sv['bytes'] != fbytes:
                    pred = (f"alias history save {sv['j']} (request {sv['req']}): bytes differ from what a fresh image with the "
                            'same data and the currently requested alias/dtype writes')
            f = (mres[hi][si] or '').split()
            dis = None
            if len(f) < 4 or (f[1], f[2], f[3][3:]) != (sv['res'], f"n={sv['n']}", sv['state']):
                dis = ('outcome/calls/final state', ' '.join(f[:4]), f"{sv['res']} n={sv['n']} st={sv['state']}")
            elif sv['res'] == 'ok':
                wh = written_header_fields(base, sv['bytes'])
                mh = [x for x in f[4][4:].split(',') if x[1:].startswith('w:hdr(')] if len(f) > 4 else []
                if len(mh) != 1 or mh[0][7:-1] != wh:
                    dis = ('header block written (datatype the alias resolved to)', str(mh), wh)
            if pred:
                report(chk, 'property_violation', case=case, predicate=pred, theorem='C07_retry_correct',
                       impl_output={'result': sv['res'], 'request': sv['req']}, model_output=' '.join(f[:4]))
            if dis:
                chk.disagreements += 1
                if not pred:
                    report(chk, 'correspondence', case=case, model_output=dis[1][:300], impl_output=str(dis[2])[:300], found_input=False,
                           predicate='model and implementation disagree at alias history: ' + dis[0],
                           theorem='correspondence C07/Model.v nifti_save <-> Nifti1Pair.to_file_map')


OWN_FILE_CASES = [('Nifti1Image', 'x.nii'), ('Nifti1Image', 'x.nii.gz'), ('Nifti2Image', 'x.nii.gz'), ('Nifti1Pair', 'x.img'),
                  ('AnalyzeImage', 'x.img'), ('Spm99AnalyzeImage', 'x.img'), ('MGHImage', 'x.mgz'), ('MGHImage', 'x.mgh')]
OWN_FILE_SPELLINGS = ['same', 'relative', 'symlinked_dir', 'hardlink']


def own_file_one(top, cls, fname, spelling):
    """Load <top>/real/<fname>, change the requested on-disk dtype, save onto the SAME file named `spelling`-wise;
    the data seen through img.dataobj and the affine must be as before, and a further save elsewhere must hold them."""
    import nibabel as nib
    klass = get_class(cls)
    real = os.path.join(top, 'real')
    os.makedirs(real, exist_ok=True)
    link = os.path.join(top, 'link')
    if not os.path.exists(link):
        os.symlink(real, link)
    src = os.path.join(real, fname)
    rng = np.random.default_rng(3)
    if cls in ('MGHImage', 'AnalyzeImage'):
        data = rng.integers(-3000, 3000, size=(4, 5, 3)).astype(np.int16)
    else:
        data = rng.normal(50.0, 20.0, size=(4, 5, 3)).astype(np.float32)
    img0 = klass(data, np.diag([2.0, 2.0, 2.0, 1.0]))
    img0.set_data_dtype(np.int16)
    img0.to_filename(src)
    img = klass.from_filename(src)
    before = np.array(img.dataobj)
    aff_before = np.array(img.affine)
    if spelling == 'same':
        dest = src
    elif spelling == 'relative':
        dest = os.path.relpath(src, os.getcwd())
    elif spelling == 'symlinked_dir':
        dest = os.path.join(link, fname)
    else:
        dest = os.path.join(real, 'hl_' + fname)
        if os.path.exists(dest):
            os.remove(dest)
        os.link(src, dest)
        if fname.endswith('.img'):          # pair: link the header too
            h = os.path.join(real, 'hl_' + fname[:-4] + '.hdr')
            if os.path.exists(h):
                os.remove(h)
            os.link(src[:-4] + '.hdr', h)
    img.set_data_dtype(np.float32)
    img.to_filename(dest)
    try:
        after = np.array(img.dataobj)
    except Exception as e:  # noqa
        return f'data unreadable after the save: {type(e).__name__}: {e}'[:200]
    if after.shape != before.shape or not np.array_equal(after, before):
        return 'img.dataobj changed by a successful save onto the image\'s own file'
    if not np.array_equal(np.array(img.affine), aff_before):
        return 'affine changed by a successful save onto the image\'s own file'
    other = os.path.join(top, 'other_' + fname)
    img.to_filename(other)
    again = np.array(klass.from_filename(other).dataobj)
    # the requested on-disk type is float32: the file holds the data rounded to float32 (no scaling involved)
    if again.shape != before.shape or not np.array_equal(again.astype(np.float32), before.astype(np.float32)):
        return 'a further save elsewhere holds different data'
    return None


def own_file_child(top):
    """Child-process entry (an overwritten memory map can crash the interpreter): one JSON line per case."""
    import json
    ensure_impl_path()
    warnings.simplefilter('ignore')
    for cls, fname in OWN_FILE_CASES:
        for sp in OWN_FILE_SPELLINGS:
            try:
                r = own_file_one(os.path.join(top, f'{cls}_{fname}_{sp}'), cls, fname, sp)
                print('CASE ' + json.dumps({'cls': cls, 'fname': fname, 'spelling': sp, 'failed': r}), flush=True)
            except Exception as e:  # noqa
                print('CASE ' + json.dumps({'cls': cls, 'fname': fname, 'spelling': sp, 'error': f'{type(e).__name__}: {e}'[:200]}), flush=True)


def part_own_file(chk):
    """A loaded image saved back onto the file it reads, the target spelled differently (relative, through a
    symlinked directory, hard link): a successful save must not change what the image represents."""
    import json
    import subprocess
    from common import PY, VERIF, impl_env
    top = os.path.join(chk.workdir, 'own')
    os.makedirs(top, exist_ok=True)
    env = impl_env()
    env['PYTHONPATH'] = env['PYTHONPATH'] + os.pathsep + os.path.join(VERIF, 'harness')
    code = f"import c07; c07.own_file_child({top!r})"
    try:
        r = subprocess.run([PY, '-c', code], capture_output=True, text=True, env=env, timeout=240, cwd=chk.workdir)
        out, rc = r.stdout, r.returncode
    except subprocess.TimeoutExpired:
        out, rc = '', 'timeout'
    seen = set()
    for ln in out.splitlines():
        if not ln.startswith('CASE '):
            continue
        o = json.loads(ln[5:])
        seen.add((o['cls'], o['fname'], o['spelling']))
        chk.count(key=('own_file', o['cls'], o['fname'], o['spelling']), tag='own_file:' + o['spelling'])
        if o.get('error'):
            chk.refusal('own_file:' + o['error'].split(':')[0])
        elif o.get('failed'):
            report(chk, 'property_violation', case={'own_file': o}, predicate=o['failed'] + f" ({o['cls']} {o['fname']}, target spelled: {o['spelling']})",
                   theorem='C07_success_preserves')
    missing = [(c, f, sp) for c, f in OWN_FILE_CASES for sp in OWN_FILE_SPELLINGS if (c, f, sp) not in seen]
    if missing:
        report(chk, 'property_violation', case={'own_file': {'cls': missing[0][0], 'fname': missing[0][1], 'spelling': missing[0][2]}},
               predicate=f'child process saving an image onto its own file died (rc={rc}) at or before {missing[0]}',
               theorem='C07_success_preserves')


def measure_nmat():
    """Number of write calls scipy.io.savemat makes for the SPM .mat (external code)."""
    spec = specs_for('Spm99AnalyzeImage', 'int')
    r = attempt(spec, None, healthy_after=False)
    return sum(1 for e in r['log'] if e[0] == 'mat' and e[1] == 'w')


def part_compressed(chk):
    """Two saves of an unchanged image through filenames: byte-identical, also .gz/.bz2/.zst;
    gzip members carry no mtime and no file name."""
    import nibabel as nib
    try:
        import pyzstd  # noqa
        have_zst = True
    except Exception:  # noqa
        have_zst = False
    chk.extra['pyzstd_available'] = have_zst
    combos = []
    for cls, ext in [('Nifti1Image', '.nii'), ('Nifti2Image', '.nii'), ('Nifti1Pair', '.img'), ('AnalyzeImage', '.img'),
                     ('Spm99AnalyzeImage', '.img'), ('MGHImage', '.mgh'), ('Cifti2Image', '.dscalar.nii')]:
        for variant in ('f2i', 'int', 'smallest', 'xflip_false'):
            spec = specs_for(cls, variant)
            if spec is None:
                continue
            sufs = ['', '.gz', '.bz2'] + (['.zst'] if have_zst else [])
            if cls == 'MGHImage':
                sufs = ['', '.gz']
            if cls == 'Cifti2Image':       # Cifti2Image accepts no compressed suffix (ImageFileError)
                sufs = ['']
            for suf in sufs:
                combos.append((spec, ext, suf))
    for ci, (spec, ext, suf) in enumerate(combos):
        if spec['cls'] == 'MGHImage' and suf == '.gz':
            full = '.mgz'
        else:
            full = ext + suf
        err, pred = two_saves_check(chk.workdir, f'det{ci}', spec, full)
        chk.count(key=('det', spec['cls'], full, repr(sorted(spec.items(), key=str))),
                  tag='two_saves:' + (full if full == '.mgz' else suf or 'plain'))
        if err:
            chk.refusal(err)
            chk.extra.setdefault('two_saves_refused', []).append(f"{spec['cls']}{full}: {err}")
            continue
        if pred:
            report(chk, 'property_violation', case={'two_saves': {'spec': spec, 'ext': full}}, predicate=pred,
                   theorem='C07_deterministic')


def two_saves_check(workdir, stem, spec, full):
    """Save one image object twice under two names; returns (refusal, failed predicate)."""
    img, kw = make_image(spec)
    outs = []
    for rep in ('a', 'b'):
        p = os.path.join(workdir, f'{stem}{rep}{full}')
        try:
            with warnings.catch_warnings():
                warnings.simplefilter('ignore')
                if kw:
                    img.to_filename(p, **kw)
                else:
                    img.to_filename(p)
        except Exception as e:  # noqa
            return exc_enum(e), None
        files = sorted(f for f in os.listdir(workdir) if f.startswith(f'{stem}{rep}'))
        outs.append([(f.replace(f'{stem}{rep}', ''), open(os.path.join(workdir, f), 'rb').read()) for f in files])
    if outs[0] != outs[1]:
        return None, f'two saves of an unchanged image differ ({spec["cls"]}{full})'
    pred = None
    for name, b in outs[0]:
        if name.endswith(('.gz', '.mgz')) and len(b) >= 10:
            if b[4:8] != b'\0\0\0\0' or (b[3] & 0x08):
                pred = f'gzip member of {name} carries mtime/file name (not reproducible across time or names)'
            try:
                gzip.decompress(b)
            except Exception as e:  # noqa
                pred = f'gzip output does not decompress: {e!r}'
        if name.endswith('.bz2'):
            try:
                bz2.decompress(b)
            except Exception as e:  # noqa
                pred = f'bz2 output does not decompress: {e!r}'
    return None, pred


def part_devfull(chk, nmat):
    """Real OS faults: a destination FILENAME on /dev/full makes the buffered writes fail with
    ENOSPC when nibabel closes (or flushes) the file it opened itself — the close call the
    in-memory destinations cannot exercise.  Compared with the model run whose oracle fails
    at that close call (destinations 'mine')."""
    from nibabel.fileholders import FileHolder
    if not os.path.exists('/dev/full'):
        chk.extra['dev_full'] = 'absent'
        return
    lines, metas = [], []
    for cls in CLASSES:
        for variant in ('f2i', 'int', 'smallest'):
            spec = specs_for(cls, variant)
            if spec is None:
                continue
            klass = get_class(cls)
            keys = [k for k, _ in klass.files_types]
            for bad in keys:
                metas.append((spec, bad, keys))
                K, od, state, env = model_case(spec, nmat)
                lines.append(f"{len(metas) - 1} run -1 " + fmt_case(K, od, state, env, mine='1 1 1'))
    mout = run_model(PROP, lines)
    lines2 = []
    for i, (spec, bad, keys) in enumerate(metas):
        o = mout.get(str(i), '')
        log = o.split('log=')[1].split(',') if 'log=' in o else []
        tok = {'header': 'Hc', 'image': 'Ic', 'mat': 'Mc'}[bad]
        if spec['cls'] in ('Nifti1Image', 'Nifti2Image', 'MGHImage', 'Cifti2Image'):
            tok = 'Ic'
        idx = [j for j, x in enumerate(log) if x == tok]
        K, od, state, env = model_case(spec, nmat)
        lines2.append(f"{i} run {idx[0] if idx else -1} " + fmt_case(K, od, state, env, mine='1 1 1'))
    mout2 = run_model(PROP, lines2)
    for i, (spec, bad, keys) in enumerate(metas):
        img, kw = make_image(spec)
        before = snapshot(img)
        fm = {}
        for k in keys:
            fm[k] = FileHolder(filename='/dev/full' if k == bad else os.path.join(chk.workdir, f'df{i}_{k}'))
        res = 'ok'
        with warnings.catch_warnings():
            warnings.simplefilter('ignore')
            try:
                img.to_file_map(fm, **kw)
            except Exception as e:  # noqa
                res = exc_enum(e)
        after = snapshot(img)
        st = model_state(img, spec['cls'], before)
        chk.count(key=('devfull', spec['cls'], bad, repr(sorted(spec.items(), key=str))), tag='dev_full:' + bad)
        chk.tagc('outcome:devfull_' + res)
        d1 = diff_keys(before, after)
        pred = None
        if d1:
            pred = f'image changed by a save that failed on /dev/full ({res}): {d1}'
        m = mout2.get(str(i), '').split()
        dis = None
        if len(m) < 4 or (m[1], m[3][3:]) != (res, st):
            # a clean-run refusal (WriterError / ValueError) happens before any file is opened
            dis = ('outcome/final state with the close of the /dev/full destination failing', ' '.join(m[:4]), f'{res} st={st}')
        if pred:
            report(chk, 'property_violation', case={'devfull': {'spec': spec, 'bad': bad}}, predicate=pred,
                   theorem='C07_fault_preserves')
        if dis:
            chk.disagreements += 1
            if not pred:
                report(chk, 'correspondence', case={'devfull': {'spec': spec, 'bad': bad}}, model_output=dis[1], impl_output=dis[2],
                       predicate='model and implementation disagree at ' + dis[0], found_input=False,
                       theorem='correspondence C07/Model.v <-> to_file_map (close_if_mine)')


EXTRA_VARIANTS = ('f2i', 'int', 'override', 'smallest', '4d', 'xflip_false', 'exts', 'user_offset')


def combos_for(name, rng):
    """(exception type, destination given by file name, persistent fault) sweeps of one spec.  Fixed grid: a single
    fault on caller file objects once per exception type; for the main variants also a persistent fault (disk full:
    every call from k on fails, close included) and destinations that nibabel opens and closes itself."""
    if rng is not None:
        out = [(rng.choice(EXC_TYPES), rng.random() < 0.4, rng.random() < 0.4)]
    else:
        out = [(e, False, False) for e in EXC_TYPES]
        if name.split('/')[-1] in EXTRA_VARIANTS:
            out += [('oserror', False, True), ('oserror', True, False), ('oserror', True, True), ('keyboard', True, True)]
    combos_for.last = out
    return out


def run(chk: Check):
    ensure_impl_path()
    chk.rule = ('every writable class (Analyze, SPM99, SPM2, NIfTI-1/2 pair and single, MGH, CIFTI-2) x variant '
                '{float->int scaled, int unscaled, dtype= override, compat / smallest alias, unresolvable alias, preset '
                'slope/intercept, user offset, header extensions, unsupported override, 4-D}: k swept over ALL '
                'write/seek/tell/close calls of the clean run (every call failing in turn, once per injected exception type: OSError(ENOSPC), KeyboardInterrupt, RuntimeError, MemoryError) + the clean run, each followed '
                'by a retry of the same object to a healthy destination; seeded random specs (class, shape, dtypes, '
                'alias, preset scaling, offsets, extensions, default_x_flip) swept the same way; alias-switching histories (exhaustive over 3 operations + random) compared with fresh images; /dev/full destinations (real ENOSPC at '
                'close); two saves through file names for plain/.gz/.bz2/.zst; persistent faults (every call from k on fails) and file-name destinations nibabel opens and closes itself (.vfault opener); own-file saves under 4 spellings of the target; a case = (spec, k), non-trivial when the '
                'save makes at least one file call')
    chk.assumptions = ['a fault is an exception raised by a destination file-object call before the call has any effect '
                       '(partial writes inside one call are not modelled)',
                       'images are in the state their constructor leaves them in (harmonised header)',
                       'data facts owned by other properties are measured, not modelled: writer refusal and computed '
                       'slope/intercept (make_array_writer/get_slope_inter, C02), alias resolution (get_data_dtype(finalize=True)), '
                       'number of slabs = last dimension of the squeezed array, extension sizes (C11), number of writes '
                       'scipy.io.savemat makes']
    chk.trusted.append('oracles: make_array_writer / get_slope_inter (refusal, scaling), alias resolution, '
                       'scipy.io.savemat write count — Section variables of C07/Model.v, universally quantified in every theorem')
    chk.build()
    chk.run_probes()
    if not chk.model_ok:
        return
    nmat = measure_nmat()
    chk.extra['scipy_savemat_write_calls'] = nmat
    specs = []
    for cls in CLASSES:
        for v in VARIANTS:
            s = specs_for(cls, v)
            if s is not None:
                specs.append((f'{cls}/{v}', s))
    for _ in range(chk.n(150, 1500)):
        specs.append(('random', random_spec(chk.rng)))
    lines = []
    usable = []
    plan = []
    seen_lines = set()
    for i, (name, spec) in enumerate(specs):
        try:
            make_image(spec)
        except Exception as e:  # noqa  (e.g. header refuses the offset / dtype at construction)
            chk.refusal('construct:' + type(e).__name__)
            continue
        K, od, state, env = model_case(spec, nmat)
        # the fixed grid is swept once per injected exception type (the model needs only "OSError or not":
        # seek_tell catches OSError); a random spec gets one type
        for exc_, mi, pe in combos_for(name, chk.rng if name == 'random' else None):
            oe = 1 if exc_ == 'oserror' else 0
            key = f"{len(usable)}.{oe}.{int(mi)}.{int(pe)}"
            if key not in seen_lines:
                seen_lines.add(key)
                lines.append(f"{key} {'sweepp' if pe else 'sweep'} " +
                             fmt_case(K, od, state, env, mine='1 1 1' if mi else '0 0 0', oserr=bool(oe)))
        plan.append(list(combos_for.last))
        usable.append((name, spec))
    mout = run_model(PROP, lines)
    ncalls = {}
    for i, (name, spec) in enumerate(usable):
        combos = plan[i]
        seen_clean = set()
        for exc, mine, pers in combos:
            n = run_case(chk, spec, mout.get(f"{i}.{1 if exc == 'oserror' else 0}.{int(mine)}.{int(pers)}"), name, exc,
                         mine=mine, persistent=pers, count_clean=(mine not in seen_clean))
            seen_clean.add(mine)
        ncalls[name] = n if name != 'random' else ncalls.get(name, 0) + n
    chk.extra['calls_per_fixed_case'] = {k: v for k, v in ncalls.items() if k != 'random'}
    part_histories(chk, [sp for nm, sp in usable if nm != 'random'], nmat)
    part_alias_histories(chk, nmat)
    part_own_file(chk)
    part_devfull(chk, nmat)
    part_compressed(chk)
    part_vm(chk, lines)
    chk.extra['unproved_statements'] = []


def part_vm(chk, lines):
    """Re-evaluate a few sweeps inside coqc and compare with the extracted binary."""
    sample = [ln for i, ln in enumerate(lines) if i % max(1, len(lines) // 12) == 0][:12]
    pairs = []

    def scz(x):
        return 'SNan' if x == 'nan' else f'(SVal ({x}))'
    req = []
    for ln in sample:
        f = ln.split()
        args = f[2:]
        for k in (-1, 0, 2, 4, 5):
            req.append(f'{len(req)} run {k} ' + ' '.join(args))
    out = run_model(PROP, req)
    for j, r in enumerate(req):
        f = r.split()
        k = int(f[2])
        a = f[3:]
        (fam, sg, hs, hsl, hin, nif, km, hm, od, off, dt, sl, it, mg, al, da, af, rsv, uns, wf, ss, si, ns, ex, nm, mh, mi, mm, oe) = a
        b = {'0': 'false', '1': 'true'}
        K = f"(mkK {dict(A='FAnalyze', M='FMgh', C='FCifti')[fam]} {b[sg]} ({hs}) {b[hsl]} {b[hin]} {b[nif]} ({km}) {b[hm]})"
        img = f"(mkImg (mkHdr ({off}) ({dt}) {scz(sl)} {scz(it)} ({mg})) {dict([('-', 'None'), ('compat', '(Some Compat)'), ('smallest', '(Some Smallest)')])[al]} ({da}) ({af}))"
        unsl = '[' + ';'.join(x for x in uns.strip('[]').split(',') if x) + ']'
        exl = '[' + ';'.join(x for x in ex.strip('[]').split(',') if x) + ']'
        orc = 'healthy' if k < 0 else f'(fail_at {k})'
        term = (f"run_save {orc} {b[oe]} (fun _ _ => {'None' if rsv == '-' else 'Some (' + rsv + ')'}) "
                f"(fun c => negb (existsb (Z.eqb c) {unsl})) (fun _ _ => {b[wf]}) (fun _ _ => ({scz(ss)}, {scz(si)})) "
                f"(fun _ => {ns}%nat) {exl} {nm}%nat (mkDest {b[mh]} {b[mi]} {b[mm]}) {K} "
                f"{'None' if od == '-' else '(Some (' + od + '))'} {img}")
        o = out[str(j)].split()
        res = o[1]
        n = o[2][2:]
        st = o[3][3:].split('/')
        resq = 'Ok tt' if res == 'ok' else 'Err ' + dict(writer='EWriter', oserror='EOS', headerdata='EHeaderData', value='EValue')[res[4:]]
        exp_img = f"(mkImg (mkHdr ({st[0]}) ({st[1]}) {scz(st[2])} {scz(st[3])} ({st[4]})) {dict([('-', 'None'), ('compat', '(Some Compat)'), ('smallest', '(Some Smallest)')])[st[5]]} ({st[6]}) ({st[7]}))"
        pairs.append((f"let rr := {term} in res_eqb (fst rr) ({resq}) && Nat.eqb (rk (snd rr)) {n} && img_eqb (rimg (snd rr)) {exp_img}",
                      f'run {j}'))
    imports = ('From Coq Require Import ZArith List Bool Arith. Import ListNotations. Open Scope Z_scope.\n'
               'From NV Require Import C07.Model.\n'
               'Definition sc_eqb a b := match a, b with SNan, SNan => true | SVal x, SVal y => Z.eqb x y | _, _ => false end.\n'
               'Definition al_eqb a b := match a, b with None, None => true | Some Compat, Some Compat => true | Some Smallest, Some Smallest => true | _, _ => false end.\n'
               'Definition img_eqb a b := Z.eqb (off (ih a)) (off (ih b)) && Z.eqb (dt (ih a)) (dt (ih b)) && sc_eqb (slope (ih a)) (slope (ih b)) '
               '&& sc_eqb (inter (ih a)) (inter (ih b)) && Z.eqb (magic (ih a)) (magic (ih b)) && al_eqb (alias a) (alias b) '
               '&& Z.eqb (data a) (data b) && Z.eqb (aff a) (aff b).\n'
               'Definition res_eqb (a b : res unit) := match a, b with Ok _, Ok _ => true | Err EWriter, Err EWriter => true '
               '| Err EOS, Err EOS => true | Err EHeaderData, Err EHeaderData => true | Err EValue, Err EValue => true | _, _ => false end.\n')
    ncase, bad = vm_crosscheck(PROP, imports, pairs)
    chk.vm = {'cases': ncase, 'disagreements': len(bad)}
    if bad:
        chk.disagreements += 1
        report(chk, 'correspondence', case={'vm_crosscheck': [pairs[b][1] if isinstance(b, int) and b < len(pairs) else b for b in bad]},
               predicate='extracted model disagrees with vm_compute evaluation of the model', found_input=False,
               theorem='extraction cross-check')


def replay(chk, obj):
    import shutil
    try:
        return _replay(chk, obj)
    finally:
        shutil.rmtree(chk.workdir, ignore_errors=True)


def _replay(chk, obj):
    ensure_impl_path()
    c = obj.get('case')
    if isinstance(c, dict) and 'spec' in c:
        spec = c['spec']
        if spec.get('preset'):
            spec['preset'] = tuple(spec['preset'])
        r = attempt(spec, c.get('k'), exc=c.get('exc', 'oserror'), mine=c.get('mine', False), persistent=c.get('persistent', False))
        clean = attempt(spec, None, healthy_after=False)
        d1 = diff_keys(r['before'], r['after'])
        bad = bool(d1)
        if 'retry' in r and clean['res'] == 'ok' and (r['retry'][0] != 'ok' or r['retry'][1] != clean['bytes']):
            bad = True
        if diff_keys(r['after'], r['after_retry']):
            bad = True
        print({'k': c.get('k'), 'injected': c.get('exc', 'oserror'), 'file_name_destination': c.get('mine', False), 'persistent': c.get('persistent', False), 'result': r['res'], 'calls': r['log'][-6:], 'changed': d1,
               'retry': r['retry'][0], 'retry_bytes_equal_fresh': r['retry'][1] == clean['bytes'] if clean['res'] == 'ok' else None})
        print('property fails on this case' if bad else 'property holds on this case')
        return 1 if bad else 0
    if isinstance(c, dict) and 'own_file' in c:
        o = c['own_file']
        os.makedirs(chk.workdir, exist_ok=True)
        r = own_file_one(os.path.join(chk.workdir, 'own_replay'), o['cls'], o['fname'], o['spelling'])
        print({'failed': r})
        print('property fails on this case' if r else 'property holds on this case')
        return 1 if r else 0
    if isinstance(c, dict) and 'two_saves' in c:
        spec = c['two_saves']['spec']
        if spec.get('preset'):
            spec['preset'] = tuple(spec['preset'])
        os.makedirs(chk.workdir, exist_ok=True)
        err, pred = two_saves_check(chk.workdir, 'replay', spec, c['two_saves']['ext'])
        print({'refused': err, 'failed': pred})
        print('property fails on this case' if pred else 'property holds on this case')
        return 1 if pred else 0
    if isinstance(c, dict) and 'devfull' in c:
        from nibabel.fileholders import FileHolder
        spec, bad = c['devfull']['spec'], c['devfull']['bad']
        if spec.get('preset'):
            spec['preset'] = tuple(spec['preset'])
        os.makedirs(chk.workdir, exist_ok=True)
        img, kw = make_image(spec)
        before = snapshot(img)
        fm = {k: FileHolder(filename='/dev/full' if k == bad else os.path.join(chk.workdir, 'rp_' + k))
              for k, _ in type(img).files_types}
        try:
            with warnings.catch_warnings():
                warnings.simplefilter('ignore')
                img.to_file_map(fm, **kw)
            res = 'ok'
        except Exception as e:  # noqa
            res = exc_enum(e)
        d1 = diff_keys(before, snapshot(img))
        badp = bool(d1)
        print({'result': res, 'changed': d1})
        print('property fails on this case' if badp else 'property holds on this case')
        return 1 if badp else 0
    if isinstance(c, dict) and 'alias_history' in c:
        h = c['alias_history']
        faults = {int(k): v for k, v in (h.get('faults') or {}).items()}
        bad = False
        for sv in run_alias_history(h['base'], h['ops'], faults):
            d1 = diff_keys(sv['before'], sv['after'])
            same = None if sv['k'] is not None else (sv['res'] == sv['fresh'][0] and (sv['res'] != 'ok' or sv['bytes'] == sv['fresh'][1]))
            print({'save': sv['j'], 'request': sv['req'], 'k': sv['k'], 'result': sv['res'], 'changed': d1, 'same_as_fresh_image': same})
            if d1 or same is False:
                bad = True
        print('property fails on this case' if bad else 'property holds on this case')
        return 1 if bad else 0
    if isinstance(c, dict) and 'history' in c:
        spec, steps = c['history']['spec'], c['history']['steps']
        if spec.get('preset'):
            spec['preset'] = tuple(spec['preset'])
        img = make_image(spec)[0]
        bad = False
        for step in steps:
            ov, k = step[0], step[1]
            exc = step[2] if len(step) > 2 else 'oserror'
            before = snapshot(img)
            fm = file_map_for(type(img), Ctr(k, exc))
            try:
                with warnings.catch_warnings():
                    warnings.simplefilter('ignore')
                    img.to_file_map(fm, **({'dtype': np.dtype(ov)} if ov else {}))
                res = 'ok'
            except BaseException as e:  # noqa
                if isinstance(e, KeyboardInterrupt) and not getattr(e, '_verif_injected', False):
                    raise
                res = exc_enum(e)
            d1 = diff_keys(before, snapshot(img))
            print({'override': ov, 'k': k, 'injected': exc, 'result': res, 'changed': d1})
            if d1:
                bad = True
        print('property fails on this case' if bad else 'property holds on this case')
        return 1 if bad else 0
    print('nothing to replay:', obj.get('predicate'))
    return 1
