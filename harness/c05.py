"""C05 — Reorienting, canonicalising and slicing keep each voxel at its world position.

Model: coq/C05/Model.v (apply_orientation, inv_ornt_aff, ornt_transform, ornt2axcodes,
axcodes2ornt, the loop of io_orientation, as_reoriented incl. the NIfTI dim_info remap,
check_slicing / slice_affine / SpatialFirstSlicer.__getitem__ on top of C06's
canonical_slicers and Base/PySlice.v).  Theorems: coq/C05/Props.v.

Case lines sent to bin/modelrun_c05 (see coq/C05/driver.ml):
  reorient <nifti> <shape> <ornt> <affine> <dim> | slicer <shape> <ix> <affine>
  slaff <shape> <ix> <affine> | hyp <shape> <ix> | invaff <ornt> <shape> | otrans <o1> <o2>
  ocomp <o1> <o2> | o2c <orows> | c2o <codes> | ioloop <atol> <R> <p>
Orientations "a:f,a:f,a:f" (nan row "n"), matrices "a,b,c,d|e,f,g,h|...", index tuples as in C06.

Every image carries data = arange(size) (C order), so the value of an output voxel IS the C-order
offset of its source voxel: the model's `srcs` list is compared with the output array, and the
property predicate reads the source index of every output voxel off the data (independently of
the model) and compares new.affine @ j with old.affine @ src(j) exactly (integer-valued affines).
"""
import itertools
import warnings
from fractions import Fraction

import numpy as np

from common import Check, ensure_impl_path, run_model, run_model_parallel, vm_crosscheck

PROP = 'C05'
CORR_THM = 'correspondence C05/Model.v <-> nibabel/{orientations,spatialimages,nifti1,funcs}.py'


# ------------------------------------------------------------------ formatting
def o2s(v):
    return '_' if v is None else str(int(v))


def lst(l):
    return '[' + ','.join(str(int(x)) for x in l) + ']'


def sl2s(s):
    return f'{o2s(s.start)}:{o2s(s.stop)}:{o2s(s.step)}'


def ix2s(ix):
    if not isinstance(ix, tuple):
        ix = (ix,)
    if len(ix) == 0:
        return '()'
    out = []
    for x in ix:
        if x is None:
            out.append('n')
        elif x is Ellipsis:
            out.append('e')
        elif isinstance(x, slice):
            out.append('s' + sl2s(x))
        else:
            out.append('i%d' % int(x))
    return ','.join(out)


def s2ix(toks):
    ix = []
    if toks != '()':
        for t in toks.split(','):
            if t == 'n':
                ix.append(None)
            elif t == 'e':
                ix.append(Ellipsis)
            elif t[0] == 'i':
                ix.append(int(t[1:]))
            else:
                a, b, c = [None if v == '_' else int(v) for v in t[1:].split(':')]
                ix.append(slice(a, b, c))
    return tuple(ix)


def ornt2s(o):
    rows = []
    for a, f in np.asarray(o, dtype=float):
        rows.append('n' if np.isnan(a) or np.isnan(f) else f'{int(a)}:{int(f)}')
    return ','.join(rows) if rows else '()'


def is_int_mat(m):
    m = np.asarray(m, dtype=float)
    return bool(np.all(np.isfinite(m)) and np.all(m == np.rint(m)))


def mat2s(m):
    m = np.asarray(m)
    return '|'.join(','.join(str(int(x)) for x in r) for r in m)


def affs(m):
    """canonical string of an affine observed on the implementation (exact integers or 'nonint')"""
    return mat2s(m) if is_int_mat(m) else 'nonint:' + repr(np.asarray(m).tolist())


def opts2s(l):
    return ','.join(o2s(x) for x in l) if len(l) else '()'


def rzs_is_diag(aff):
    """the affine's 3x3 part is diagonal up to np.allclose's default tolerances (the documented meaning of
    enforce_diag); written here so that the harness uses no private name of nibabel"""
    rzs = np.asarray(aff)[:3, :3]
    return bool(np.allclose(rzs, np.diag(np.diag(rzs))))


def err_enum(e):
    from nibabel.orientations import OrientationError
    if isinstance(e, IndexError):
        return 'err index'
    if isinstance(e, OrientationError):
        return 'err orient'
    if isinstance(e, (ValueError, TypeError)):
        return 'err value'
    return 'err other:' + type(e).__name__


# ------------------------------------------------------------------ generators
def all_ornts():
    return [np.array([[p[i], f[i]] for i in range(3)]) for p in itertools.permutations(range(3))
            for f in itertools.product([1, -1], repeat=3)]


def rand_affine(rng):
    """integer-valued, oblique and sheared, invertible"""
    while True:
        A = np.eye(4)
        A[:3, :4] = [[rng.randint(-5, 5) for _ in range(4)] for _ in range(3)]
        A[:3, 3] = [rng.randint(-40, 40) for _ in range(3)]
        if abs(round(np.linalg.det(A[:3, :3]))) >= 1:
            return A


FIXED_AFFS = [np.array(a, float) for a in (
    [[2, -1, 1, 7], [1, 3, 0, -4], [0, 1, -2, 5], [0, 0, 0, 1]],
    [[0, -3, 1, -11], [2, 1, 0, 6], [1, 0, 4, 0], [0, 0, 0, 1]],
    [[-1, 0, 2, 3], [0, 5, 1, -9], [3, -2, 1, 1], [0, 0, 0, 1]])]


def slices_for(n):
    vals = [None] + list(range(-n - 2, n + 3))
    steps = [None, 1, 2, 3, -1, -2, -3]
    return [slice(a, b, c) for a in vals for b in vals for c in steps]


def rand_slice(rng, n, want_nonempty=0.8):
    vals = [None, None] + list(range(-n - 2, n + 3))
    for _ in range(20):
        s = slice(rng.choice(vals), rng.choice(vals), rng.choice([None, None, 1, 2, 3, -1, -1, -2, -3]))
        if len(range(n)[s]) > 0 or rng.random() > want_nonempty:
            return s
    return slice(None)


def image_classes():
    import nibabel as nib
    return {'n1': nib.Nifti1Image, 'n2': nib.Nifti2Image, 'p1': nib.Nifti1Pair, 'spm': nib.Spm99AnalyzeImage,
            'ana': nib.AnalyzeImage}


KINDS = {'i32': 'int32 arange', 'i16': 'int16 arange', 'i32big': 'int32 above 2**24 (odd: not exact in float32)',
         'i64': 'int64 above 2**40', 'f64': 'float64 with more than 24 significant bits'}
HISTS = [(), (), ('G64',), ('G32',), ('G32', 'E32'), ('G32', 'U'), ('N32',), ('G64', 'E64', 'G32'), ('G32', 'U', 'G64')]


def make_data(kind, shape):
    n = int(np.prod(shape))
    a = np.arange(n, dtype=np.int64)
    if kind == 'i16':
        d = a.astype(np.int16)
    elif kind == 'i32big':
        d = (2 ** 24 + 1 + 2 * a).astype(np.int32)
    elif kind == 'i64':
        d = 2 ** 40 + 3 * a
    elif kind == 'f64':
        d = a.astype(np.float64) + 1.0 + 2.0 ** -30
    else:
        d = a.astype(np.int32)
    return d.reshape(shape)


def cache_op(img, tok):
    """one step of a get_fdata-cache history on an image object (read-only accessors, an in-place edit of the
    array get_fdata returned when that array is not the image's own data, uncache)"""
    if tok == 'G64':
        img.get_fdata()
    elif tok == 'G32':
        img.get_fdata(dtype=np.float32)
    elif tok == 'N32':
        img.get_fdata(dtype=np.float32, caching='unchanged')
    elif tok == 'U':
        img.uncache()
    elif tok in ('E32', 'E64'):
        # get_fdata returns the cached array itself when one of that dtype is cached (public, documented): edit it
        c = img.get_fdata(dtype=np.float32 if tok == 'E32' else np.float64)
        if not (isinstance(img.dataobj, np.ndarray) and np.shares_memory(c, img.dataobj)):
            c += 7


def hist_tokens(hist):
    """the same history for the model's `ops` line (conversions are tagged so that a use of the cache would show)"""
    m = {'G64': ['G=1000'], 'G32': ['G=2000'], 'N32': ['N=2000'], 'E32': ['G=2000', 'E=7'], 'E64': ['G=1000', 'E=7'], 'U': ['U=0']}
    return [x for t in hist for x in m[t]]


def make_img(cls, shape, A, dim=None, proxy=False, kind='i32', hist=()):
    """image whose voxel values are distinct and name their source voxel (KINDS); proxy=True: written to in-memory
    files and loaded back, so that dataobj is an ArrayProxy and img.slicer / as_reoriented go through fileslice.py;
    hist: get_fdata-cache history applied to the image object before it is used"""
    data = make_data(kind, shape)
    klass = image_classes()[cls]
    img = klass(data, A)
    if dim is not None and cls in ('n1', 'n2', 'p1'):
        img.header.set_dim_info(*dim)
    if proxy:
        import io
        from nibabel.fileholders import FileHolder
        fm = {k: FileHolder(fileobj=io.BytesIO()) for k in klass.make_file_map()}
        img.to_file_map(fm)
        img = klass.from_file_map(fm)
        got = np.asarray(img.dataobj)
        if isinstance(img.dataobj, np.ndarray) or got.dtype != data.dtype or not np.array_equal(got, data):
            raise RuntimeError('proxy image construction failed')
    for tok in hist:
        cache_op(img, tok)
    if not np.array_equal(np.asarray(img.dataobj), data):
        raise RuntimeError('cache history changed the source dataobj')
    return img, data


def decode(values, src):
    """C-order source offsets of `values` in `src` (distinct values), -1 where a value is not a source value"""
    flat = np.asarray(values).ravel()
    sv = np.asarray(src).ravel()
    if flat.dtype != sv.dtype:
        return np.full(flat.shape, -1, dtype=np.int64)
    order = np.argsort(sv, kind='stable')
    pos = np.clip(np.searchsorted(sv[order], flat), 0, sv.size - 1)
    idx = order[pos]
    return np.where(sv[idx] == flat, idx, -1).astype(np.int64)


# ------------------------------------------------------------------ the property predicate
def world_check(new, old_affine, old_shape, src=None):
    """Every output voxel: value AND dtype of the stored data (dataobj, not get_fdata) = those of a distinct
    input voxel of the source dataobj, same world position.  Returns (None | reason, S, J)."""
    out = np.asarray(new.dataobj)
    if src is None:
        src = make_data('i32', old_shape)
    if out.dtype != src.dtype:
        return f'dataobj of the result has dtype {out.dtype}, the source dataobj {src.dtype}', None, None
    if out.size == 0:       # no voxel to misplace (the slicer documents a refusal here: correspondence)
        return None, None, None
    flat = decode(out, src)
    if flat.min() < 0:
        k = int(np.argmax(flat < 0))
        return f'stored value {out.ravel()[k]!r} of the result is not a value of the source dataobj', None, None
    if len(np.unique(flat)) != flat.size:
        return 'output values are not distinct input voxels', None, None
    J = np.indices(out.shape).reshape(out.ndim, -1)
    S = np.array(np.unravel_index(flat, old_shape))
    ones = np.ones((1, J.shape[1]))
    wn = np.asarray(new.affine) @ np.vstack([J[:3], ones])
    wo = np.asarray(old_affine) @ np.vstack([S[:3], ones])
    if not np.array_equal(wn, wo):
        k = int(np.argmax(np.any(wn != wo, axis=0)))
        return (f'voxel {tuple(int(x) for x in J[:, k])} (source {tuple(int(x) for x in S[:, k])}): world '
                f'{wn[:3, k].tolist()} under the new affine, {wo[:3, k].tolist()} under the old one'), S, J
    return None, S, J


def dim_candidates(S, J, old_shape, out_shape, a):
    """output axes k along which input axis a runs (several when lengths are 1)"""
    c = []
    for k in range(3):
        if out_shape[k] == old_shape[a] and (np.array_equal(S[a], J[k]) or
                                             np.array_equal(S[a], old_shape[a] - 1 - J[k])):
            c.append(k)
    return c


def reorient_predicate(img, data, new, o, nifti):
    if new is img:
        return None if np.array_equal(np.asarray(o), [[0, 1], [1, 1], [2, 1]]) else \
            'the same image returned for a non-identity orientation'
    bad, S, J = world_check(new, img.affine, img.shape, data)
    if bad:
        return bad
    out = np.asarray(new.dataobj)
    if out.size != data.size:
        return 'voxels lost or duplicated'
    if out.ndim != data.ndim or not np.array_equal(S[3:], J[3:]) or out.shape[3:] != data.shape[3:]:
        return 'non-spatial axes changed'
    if nifti:
        old = img.header.get_dim_info()
        nw = new.header.get_dim_info()
        for lab, a, k in zip(('freq', 'phase', 'slice'), old, nw):
            if (a is None) != (k is None):
                return f'dim_info {lab}: {a} -> {k}'
            if a is not None and k not in dim_candidates(S, J, img.shape, out.shape, a):
                return f'dim_info {lab}: label on input axis {a} moved to output axis {k}, which does not run along it'
    return None


# ------------------------------------------------------------------ run
def run(chk: Check):
    ensure_impl_path()
    warnings.simplefilter('ignore')
    import nibabel as nib
    from nibabel import orientations as no
    from nibabel.funcs import as_closest_canonical
    chk.rule = ('(R) all 48 signed axis permutations x {3 fixed + random} shapes of rank 3-5 (axis lengths 1-4) x random '
                'integer-valued oblique/sheared affines x image classes {Nifti1Image, Nifti2Image, Nifti1Pair, '
                'Spm99AnalyzeImage, AnalyzeImage} x random dim_info: output array, affine, dim_info, same-object flag vs the '
                'model; (S1) exhaustive one-axis slicer: every spatial axis x axis length 1..5 x every slice with start/stop in '
                '[-n-2,n+2]|None, step in {+-1,+-2,+-3,None} (+ step 0); (S2) all pairs of representative slices on two '
                'spatial axes; (S3) random index tuples over 3-5 axes (three spatial slices, ints/slices/None/Ellipsis on '
                'the others, some ints/None in spatial position, short tuples); (O) ornt2axcodes/axcodes2ornt for all 48, '
                'ornt_transform for all 48x48 pairs, composition on random triples, inv_ornt_aff for 48 x shapes; (C) '
                'io_orientation loop on R computed as the code does, as_closest_canonical once and twice on affines with '
                'a dominant-axis margin (integer, mildly oblique, strongly sheared with off-axis components up to 1.1 and '
                'anisotropic voxels), each also under a SCALE SWEEP of the voxel sizes (uniform and per-axis anisotropic, '
                's in {1e-6,1e-4,1e-3,1,1e3,1e6}): io_orientation must not change, canonical twice = once; general (q,p) '
                'affines with dropped axes and NEAR-TIE rotations (45 degrees +- 0..1e-6) decided on the exact computed R; '
                '(S4) realistic axis lengths (20-40) where fileslice switches read strategy; about 40% of all slicer / sequence / '
                'reorientation images are FILE-BACKED (ArrayProxy over in-memory files, so slicing goes through fileslice.py); '
                '(Q) random sequences of 2-4 slicer / as_reoriented calls in any order; (L) axis codes with custom label '
                'tables (word labels, 2 and 4 pairs, duplicated codes, dropped rows, bad directions); (E) orientations of 1, 2 '
                'and 4 axes through apply_orientation / inv_ornt_aff / ornt_transform and their refusals, flip_axis; (F) '
                'four_to_three, squeeze_image, concat_images(four_to_three), as_closest_canonical(enforce_diag=True). '
                'Voxel data of five kinds (int32/int16 arange, int32 > 2**24, int64 > 2**40, float64 with > 24 significant bits) and a '
                'get_fdata-cache HISTORY before every reorient/canonicalise/slicer call and between the calls of a sequence (none, '
                'get_fdata(), get_fdata(float32), caching=unchanged, edited cache, uncache, refilled); values AND dtype of the result '
                'dataobj are compared exactly with the source dataobj. Non-trivial: a non-identity orientation '
                'or an index that is not the whole array, not refused; distinct by (op, shape, orientation/index, affine, class)')
    chk.assumptions = ['images carry data = arange(size) (int32, unscaled), in memory or file-backed through in-memory files: the '
                       'value of a voxel names its source voxel, so value equality is checked at every voxel of every result',
                       'affines are integer-valued float64 matrices, so world positions are compared exactly',
                       'numpy.linalg.svd inside io_orientation is an oracle: the harness recomputes R with the same '
                       'expressions and feeds it (scaled exactly to integers) to the model of the loop']
    chk.trusted.append('NumPy flip/transpose/basic indexing as index maps (np_flip, np_transpose, src_index in C05/Model.v; '
                       'checked against NumPy at every voxel of every case), CPython slice.indices (Base/PySlice.v, validated by C06)')
    chk.trusted.append('oracle: the part of io_orientation before its loop (zooms, numpy.linalg.svd, rank threshold) — '
                       'parameter `rot` of the model; C05_canonical_idempotent assumes its equivariance under signed column '
                       'permutations (an identity of exact arithmetic)')
    chk.build()
    chk.run_probes()
    if not chk.model_ok:
        return
    rng = chk.rng
    ORNTS = all_ornts()
    lines = []
    expect = {}
    info = {}
    preds = {}

    def add(cid, line, exp, case=None, pred=None):
        lines.append(f'{cid} {line}')
        expect[cid] = exp
        info[cid] = case if case is not None else line
        preds[cid] = pred

    nviol = [0]

    def prop_fail(case, pred, impl_output=None):
        nviol[0] += 1
        if nviol[0] <= 6:
            chk.violation('property_violation', case=case, impl_output=impl_output, predicate=pred)

    # ============================================================== (R) reorientation
    fixed_shapes = [(2, 3, 4), (1, 3, 2, 2), (3, 1, 2, 2, 2)]
    nrand = chk.n(24, 200)
    classes = ['n1', 'n1', 'n2', 'p1', 'spm', 'ana']
    ri = 0
    for oi, o in enumerate(ORNTS):
        shapes = list(fixed_shapes)
        for _ in range(nrand):
            nd = rng.choice([3, 3, 4, 5])
            shapes.append(tuple(rng.randint(1, 4) for _ in range(nd)))
        for si, shape in enumerate(shapes):
            if si < len(fixed_shapes):
                A = FIXED_AFFS[(oi + si) % 3]
                cls = classes[(oi + si) % len(classes)]
                dim = [(0, 1, 2), (2, 0, 1), (None, 1, None)][(oi + si) % 3]
            else:
                A = rand_affine(rng)
                cls = rng.choice(classes)
                dim = tuple(rng.sample([0, 1, 2], 3)) if rng.random() < 0.6 else \
                    tuple(rng.choice([None, 0, 1, 2]) for _ in range(3))
            nifti = cls in ('n1', 'n2', 'p1')
            kind = rng.choice(['i32', 'i32', 'i16', 'f64'] + (['i32big', 'i64'] if nifti else []))
            hist = HISTS[rng.randrange(len(HISTS))] if si >= len(fixed_shapes) else HISTS[(oi + si) % len(HISTS)]
            img, data = make_img(cls, shape, A, dim, proxy=(nifti and (oi + si) % 4 == 0), kind=kind, hist=hist)
            oarg = o.astype(float) if (oi + si) % 2 else o
            case = {'op': 'as_reoriented', 'cls': cls, 'shape': list(shape), 'ornt': ornt2s(o), 'affine': mat2s(A),
                    'kind': kind, 'hist': list(hist), 'proxy': not isinstance(img.dataobj, np.ndarray),
                    'dim_info': list(dim) if nifti else None}
            try:
                new = img.as_reoriented(oarg)
                same = new is img
                ndim_info = new.header.get_dim_info() if nifti else ()
                exp = (f'ok same={int(same)} shape={lst(new.shape)} aff={affs(new.affine)} '
                       f'dim={opts2s(ndim_info)} srcs={lst(decode(new.dataobj, data))}')
                pred = reorient_predicate(img, data, new, o, nifti)
            except Exception as e:  # a refusal is never expected inside the quantifier
                new = None
                exp = err_enum(e)
                pred = f'as_reoriented raised {e!r}'
            ident = np.array_equal(o, [[0, 1], [1, 1], [2, 1]])
            chk.count(key=('R', cls, shape, ornt2s(o), mat2s(A), dim) if not ident else None,
                      tag=f'R:rank{len(shape)}:{"nifti" if nifti else "analyze"}',
                      sample=case if ri in (7, 150) else None)
            chk.tagc('data:' + kind)
            chk.tagc('cache-history:' + ('+'.join(hist) or 'none'))
            cid = f'R{ri}'
            ri += 1
            add(cid, f'reorient {int(nifti)} {lst(shape)} {ornt2s(o)} {mat2s(A)} {opts2s(dim) if nifti else "()"}',
                exp, case, pred)
            if pred:
                prop_fail(case, pred, exp[:300])

    # ============================================================== (S) slicer
    img_cache = {}
    fstate = {'n': 0, 'max': chk.n(200, 4000)}

    def slicer_case(tag, shape, ix, A, cls='n1', sample=False, proxy=False, dim=None, kind='i32', hist=()):
        nifti = cls in ('n1', 'n2', 'p1')
        proxy = proxy and nifti                 # Analyze files cannot hold an arbitrary affine
        dim = dim if nifti else None
        if kind in ('i32big', 'i64') and not nifti:
            kind = 'i32'
        ck = (cls, shape, A.tobytes(), proxy, dim, kind, hist)      # the slicer never modifies its image: reuse it
        if ck not in img_cache:
            if len(img_cache) > 400:
                img_cache.clear()
            img_cache[ck] = make_img(cls, shape, A, dim, proxy, kind, hist)
        img, data = img_cache[ck]
        if proxy and not np.array_equal(img.affine, A):
            raise RuntimeError('affine changed by the file round trip')
        ixs = ix2s(ix)
        case = {'op': 'slicer', 'cls': cls, 'shape': list(shape), 'ix': ixs, 'affine': mat2s(A), 'proxy': proxy,
                'kind': kind, 'hist': list(hist),
                'dim_info': list(dim) if dim else None}
        pred = None
        try:
            want = data[ix]
        except Exception:
            want = None
        try:
            new = img.slicer[ix]
            out = np.asarray(new.dataobj)
            ndim_info = new.header.get_dim_info() if nifti else ()
            exp = f'ok shape={lst(new.shape)} aff={affs(new.affine)} dim={opts2s(ndim_info)} srcs={lst(decode(out, data))}'
            if want is None or out.shape != want.shape or out.dtype != want.dtype or not np.array_equal(out, want):
                pred = 'sliced image data differ from data[index]'
            else:
                pred, S, J = world_check(new, img.affine, img.shape, data)
            if nifti and ndim_info != img.header.get_dim_info():
                pred = pred or f'slicing changed dim_info {img.header.get_dim_info()} -> {ndim_info} (spatial axes stay in place)'
        except Exception as e:
            new = None
            exp = err_enum(e)
            chk.refusal(tag.split(':')[0] + ':' + exp[4:] + (':empty' if want is not None and want.size == 0 else ''))
        try:
            e_aff = 'ok ' + affs(img.slicer.slice_affine(ix))
        except Exception as e:
            e_aff = err_enum(e)
        if new is not None and e_aff != 'ok ' + affs(new.affine):
            pred = pred or 'slice_affine(index) differs from the affine of slicer[index]'
        nontriv = new is not None and np.asarray(new.dataobj).size < data.size or \
            (new is not None and not np.array_equal(np.asarray(new.dataobj), data))
        chk.count(key=('S', shape, ixs, mat2s(A), proxy) if nontriv else None, tag=tag + (':ok' if new is not None else ':refused'),
                  sample=case if sample else None)
        if proxy:
            chk.tagc('S:file-backed(ArrayProxy)')
        n = len(expect)
        add(f'S{n}.g', f'slicer {lst(shape)} {ixs} {mat2s(A)} {opts2s(img.header.get_dim_info()) if nifti else "()"}', exp, case, pred)
        add(f'S{n}.a', f'slaff {lst(shape)} {ixs} {mat2s(A)}', e_aff, case, pred)
        if new is not None:
            add(f'S{n}.h', f'hyp {lst(shape)} {ixs}', 'ok 1', case, pred)
        if new is not None and proxy and cls in ('n1', 'n2') and data.nbytes <= 1600 and fstate['n'] < fstate['max'] \
                and n % 5 == 0:
            # the bytes of the file the image was loaded from, through C06's fileslice model on the canonical index
            # (theorem C05_slicer_file_backed) against the stored items of the implementation's result
            fb = image_classes()[cls](data, A).to_bytes()
            voff = int(img.dataobj.offset)
            add(f'S{n}.f', f'fslc x{fb.hex()} {lst(shape)} {data.dtype.itemsize} {voff} {ixs}',
                'ok ' + lst(out.shape) + ' x' + np.asarray(out).tobytes(order='F').hex(), case, pred)
            fstate['n'] += 1
            chk.tagc('S:file-bytes-through-fileslice-model')
        if pred:
            prop_fail(case, pred, exp[:300])

    # (S1) one axis at a time, exhaustive
    base = (2, 3, 2)
    for ax in range(3):
        for n in range(1, 6):
            shape = list(base)
            shape[ax] = n
            if (ax + n) % 3 == 0:
                shape.append(2)
            shape = tuple(shape)
            A = FIXED_AFFS[(ax + n) % 3]
            for si, s in enumerate(slices_for(n) + [slice(None, None, 0), slice(1, 3, 0)]):
                ix = (slice(None),) * ax + (s,)
                slicer_case('S1:one-axis', shape, ix, A, cls='n1' if si % 5 else 'spm', sample=(ax == 1 and n == 4 and si == 777),
                            proxy=(si % 3 == 1), dim=(2, 0, 1) if si % 2 else (None, 1, 0),
                            kind=('i32', 'f64', 'i32big', 'i16')[si % 4], hist=HISTS[si % len(HISTS)])
    # (S2) pairs of representative slices on two spatial axes
    reps = {}
    for n in (2, 3, 4):
        seen = {}
        for s in slices_for(n):
            key = (tuple(range(n)[s]))
            if key and key not in seen:
                seen[key] = s
        reps[n] = list(seen.values())
    for (a, b) in ((0, 1), (0, 2), (1, 2)):
        for (na, nb) in ((3, 4), (4, 2)) if chk.tier == 'quick' else ((3, 4), (4, 2), (4, 4), (2, 3)):
            shape = [2, 2, 2]
            shape[a], shape[b] = na, nb
            for x in reps[na]:
                for y in reps[nb]:
                    ix = [slice(None)] * 3
                    ix[a], ix[b] = x, y
                    slicer_case('S2:two-axes', tuple(shape), tuple(ix), FIXED_AFFS[(a + b) % 3], proxy=True, dim=(1, 2, 0))
    # (S3) random tuples
    for k in range(chk.n(5000, 80000)):
        nd = rng.choice([3, 3, 4, 4, 5])
        shape = tuple(rng.randint(1, 5) for _ in range(nd))
        ix = [rand_slice(rng, shape[i]) for i in range(3)]
        for i in range(3, nd):
            r = rng.random()
            n = shape[i]
            if r < 0.3:
                ix.append(rng.randrange(-n, n) if rng.random() < 0.9 else rng.choice([n, -n - 1]))
            elif r < 0.7:
                ix.append(rand_slice(rng, n))
        r = rng.random()
        if r < 0.06:      # scalar / None in a spatial position: refused
            ix[rng.randrange(3)] = rng.choice([0, None, -1])
        elif r < 0.12:
            ix = ix[:rng.randrange(0, 3)]
        if rng.random() < 0.25 and len(ix) >= 3:
            ix.insert(rng.randrange(3, len(ix) + 1), None)
        if rng.random() < 0.3:
            pos = rng.randrange(0, len(ix) + 1)
            if pos >= 3 or rng.random() < 0.3:
                ix.insert(pos, Ellipsis)
        if rng.random() < 0.02:
            ix.append(0)
        if rng.random() < 0.01 and ix:
            j = rng.randrange(len(ix))
            if isinstance(ix[j], slice):
                ix[j] = slice(ix[j].start, ix[j].stop, 0)
        slicer_case('S3:random', shape, tuple(ix), rand_affine(rng), cls=rng.choice(['n1', 'n1', 'n2', 'p1', 'ana']), sample=(k == 11),
                    proxy=rng.random() < 0.4, dim=tuple(rng.choice([None, 0, 1, 2]) for _ in range(3)),
                    kind=rng.choice(list(KINDS)), hist=HISTS[rng.randrange(len(HISTS))])

    # (S4) realistic axis lengths: the read strategy of fileslice (full / contiguous / skip) depends on the strides
    big = [(20, 17, 9), (33, 20, 13), (16, 16, 16, 3), (7, 40, 11)]
    for k in range(chk.n(240, 3000)):
        shape = big[k % len(big)]
        ix = []
        for i in range(3):
            n = shape[i]
            if rng.random() < 0.25:
                ix.append(slice(None))
            else:
                vals = [None, None] + list(range(-n - 2, n + 3))
                for _ in range(30):
                    sl = slice(rng.choice(vals), rng.choice(vals), rng.choice([None, 1, 2, 3, 4, 5, -1, -2, -3, -3, -4, -5]))
                    if len(range(n)[sl]) > 0:
                        break
                ix.append(sl)
        if len(shape) > 3 and rng.random() < 0.6:
            ix.append(rng.choice([0, -1, slice(None, None, -1), slice(1, None)]))
        slicer_case('S4:large', shape, tuple(ix), FIXED_AFFS[k % 3], cls='n1', proxy=(k % 4 != 0), dim=(0, 1, 2))

    # ============================================================== (Q) compositions of slicer and as_reoriented
    def runs_along(S, J, a, k):
        """input axis a runs along output axis k: S[a] is an injective function of J[k] alone"""
        m = {}
        for jv, sv in zip(J[k].tolist(), S[a].tolist()):
            if m.setdefault(jv, sv) != sv:
                return False
        return len(set(m.values())) == len(m)

    for k in range(chk.n(1500, 20000)):
        nd = rng.choice([3, 3, 4, 5])
        shape = tuple(rng.randint(2, 5) for _ in range(3)) + tuple(rng.randint(1, 3) for _ in range(nd - 3))
        cls = rng.choice(['n1', 'n1', 'n2', 'p1', 'ana', 'spm'])
        nifti = cls in ('n1', 'n2', 'p1')
        A = rand_affine(rng)
        dim = tuple(rng.sample([0, 1, 2], 3)) if rng.random() < 0.7 else tuple(rng.choice([None, 0, 1, 2]) for _ in range(3))
        kind = rng.choice(['i32', 'i16', 'f64'] + (['i32big', 'i64'] if nifti else []))
        hist = HISTS[rng.randrange(len(HISTS))]
        img, data = make_img(cls, shape, A, dim, proxy=(nifti and rng.random() < 0.3), kind=kind, hist=hist)
        cur = img
        toks = hist_tokens(hist)
        hyps = []
        err = None
        for _ in range(rng.choice([2, 2, 3, 3, 4])):
            if rng.random() < 0.4:      # cache operations on the intermediate image, between the calls
                h2 = HISTS[rng.randrange(2, len(HISTS))]
                for t in h2:
                    cache_op(cur, t)
                toks += hist_tokens(h2)
            if rng.random() < 0.5:
                o = ORNTS[rng.randrange(48)]
                toks.append('R=' + ornt2s(o))
                try:
                    cur = cur.as_reoriented(o if rng.random() < 0.5 else o.astype(float))
                except Exception as e:
                    err = err_enum(e)
                    break
            else:
                sh = cur.shape
                ix = [rand_slice(rng, sh[i], 0.95) for i in range(3)]
                for i in range(3, len(sh)):
                    r = rng.random()
                    if r < 0.2:
                        ix.append(rng.randrange(-sh[i], sh[i]))
                    elif r < 0.6:
                        ix.append(rand_slice(rng, sh[i], 0.95))
                if rng.random() < 0.04:
                    ix[rng.randrange(3)] = 0
                if rng.random() < 0.2:
                    ix.insert(rng.randrange(3, len(ix) + 1), Ellipsis)
                if rng.random() < 0.1:
                    ix.append(None)
                ix = tuple(ix)
                toks.append('S=' + ix2s(ix))
                try:
                    nxt = cur.slicer[ix]
                    hyps.append((lst(sh), ix2s(ix)))
                    cur = nxt
                except Exception as e:
                    err = err_enum(e)
                    break
        case = {'op': 'sequence', 'cls': cls, 'shape': list(shape), 'affine': mat2s(A), 'dim_info': list(dim) if nifti else None,
                'ops': ';'.join(toks), 'proxy': not isinstance(img.dataobj, np.ndarray), 'kind': kind}
        pred = None
        if err is None:
            out = np.asarray(cur.dataobj)
            ndim_info = cur.header.get_dim_info() if nifti else ()
            exp = f'ok shape={lst(cur.shape)} aff={affs(cur.affine)} dim={opts2s(ndim_info)} srcs={lst(decode(out, data))}'
            pred, S, J = world_check(cur, img.affine, img.shape, data)
            if not pred and nifti and S is not None:
                for lab, a, kk in zip(('freq', 'phase', 'slice'), img.header.get_dim_info(), ndim_info):
                    if (a is None) != (kk is None):
                        pred = f'dim_info {lab}: {a} -> {kk}'
                    elif a is not None:
                        cand = [x for x in range(3) if runs_along(S, J, a, x)]
                        if len(set(S[a].tolist())) == 1:
                            cand = [x for x in range(3) if out.shape[x] == 1]
                        if kk not in cand:
                            pred = f'dim_info {lab}: label of input axis {a} ended on output axis {kk}, which does not run along it'
        else:
            exp = err
            chk.refusal('Q:' + err[4:])
        chk.count(key=('Q', cls, shape, mat2s(A), ';'.join(toks)) if err is None else None,
                  tag='Q:sequence:' + ('ok' if err is None else 'refused'), sample=case if k == 3 else None)
        chk.tagc('Q:cache-ops-in-sequence', sum(1 for t in toks if t[0] in 'GNEU'))
        cid = f'Q{k}'
        add(cid, f'ops {int(nifti)} {lst(shape)} {mat2s(A)} {opts2s(dim) if nifti else "()"} {";".join(toks)}', exp, case, pred)
        for hi, (hs, hx) in enumerate(hyps):
            add(f'{cid}.h{hi}.h', f'hyp {hs} {hx}', 'ok 1', case, pred)
        if pred:
            prop_fail(case, pred, exp[:300])

    # ============================================================== (O) orientation consistency
    ident = np.array([[0, 1], [1, 1], [2, 1]])
    for oi, o in enumerate(ORNTS):
        codes = no.ornt2axcodes(o.astype(float))
        back = no.axcodes2ornt(codes)
        ccodes = ','.join(str(ord(c)) for c in codes)
        add(f'O{oi}.c', f'o2c {ornt2s(o)}', 'ok ' + ccodes)
        add(f'O{oi}.o', f'c2o {ccodes}', 'ok ' + ornt2s(back))
        chk.count(key=('O', 'codes', ornt2s(o)), tag='O:axcodes')
        if not np.array_equal(back, o):
            prop_fail({'op': 'axcodes', 'ornt': ornt2s(o)}, f'axcodes2ornt(ornt2axcodes(o)) = {back.tolist()} != o')
        if len(set(codes)) != 3 or any(c not in 'LRPAIS' for c in codes):
            prop_fail({'op': 'axcodes', 'ornt': ornt2s(o)}, f'axis codes {codes} are not three distinct world directions')
        for si, shape in enumerate([(2, 3, 4), (5, 1, 2), (4, 4, 3, 2)]):
            add(f'O{oi}.i{si}', f'invaff {ornt2s(o)} {lst(shape)}', 'ok ' + affs(no.inv_ornt_aff(o, shape)))
            chk.count(tag='O:inv_ornt_aff')
    # partially dropped axes through the codes
    for oi, rows in enumerate(['1:-1,n,0:1', 'n,n,2:1', '0:1,n']):
        o = np.array([[np.nan, np.nan] if r == 'n' else [float(x) for x in r.split(':')] for r in rows.split(',')])
        codes = no.ornt2axcodes(o)
        cs = ','.join('_' if c is None else str(ord(c)) for c in codes)
        add(f'On{oi}.c', f'o2c {rows}', 'ok ' + cs)
        add(f'On{oi}.o', f'c2o {cs}', 'ok ' + ornt2s(no.axcodes2ornt(codes)))
        chk.count(tag='O:axcodes-dropped')
    darr = np.arange(24).reshape(2, 3, 4)
    for ai, a in enumerate(ORNTS):
        for bi, b in enumerate(ORNTS):
            t = no.ornt_transform(a, b)
            add(f'T{ai}.{bi}', f'otrans {ornt2s(a)} {ornt2s(b)}', 'ok ' + ornt2s(t))
            chk.count(key=('O', 'trans', ai, bi) if ai != bi else None, tag='O:ornt_transform')
            if ai == bi and not np.array_equal(t, ident):
                prop_fail({'op': 'ornt_transform', 'start': ornt2s(a), 'end': ornt2s(b)}, 'ornt_transform(o, o) is not the identity')
            # meaning: an image whose voxel axes have orientation a, reoriented by t, has orientation b
            Aa = np.eye(4)
            Aa[:3, :3] = 0
            for r in range(3):
                Aa[int(a[r, 0]), r] = a[r, 1] * (r + 2)
            got = no.io_orientation(Aa @ no.inv_ornt_aff(t, (2, 3, 4)))
            if not np.array_equal(got, b):
                prop_fail({'op': 'ornt_transform', 'start': ornt2s(a), 'end': ornt2s(b)},
                          f'reorienting an image of orientation start by ornt_transform(start, end) gives orientation {got.tolist()}')
    for _ in range(chk.n(1500, 20000)):
        a, b, c = (ORNTS[rng.randrange(48)] for _ in range(3))
        tab, tbc, tac = no.ornt_transform(a, b), no.ornt_transform(b, c), no.ornt_transform(a, c)
        add(f'K{len(expect)}', f'ocomp {ornt2s(tab)} {ornt2s(tbc)}', 'ok ' + ornt2s(tac))
        chk.count(key=('O', 'comp', ornt2s(a), ornt2s(b), ornt2s(c)), tag='O:composition')
        if not np.array_equal(no.apply_orientation(no.apply_orientation(darr, tab), tbc), no.apply_orientation(darr, tac)):
            prop_fail({'op': 'composition', 'a': ornt2s(a), 'b': ornt2s(b), 'c': ornt2s(c)},
                      'apply(apply(arr, T(a,b)), T(b,c)) != apply(arr, T(a,c))')

    # ============================================================== (L) axis codes with custom labels
    def lab_ids(labels):
        ids = {}
        for pr in labels:
            for x in pr:
                ids.setdefault(x, len(ids) + 1)
        return ids, ','.join(f'{ids[a]}:{ids[b]}' for a, b in labels)

    LABELS = [(('L', 'R'), ('P', 'A'), ('I', 'S')), (('left', 'right'), ('back', 'front'), ('down', 'up')),
              (('B', 'F'), ('L', 'R'), ('D', 'U')), (('a', 'b'), ('c', 'd')), (('x', 'y'), ('x', 'z'), ('p', 'q')),
              (('a', 'b'), ('c', 'd'), ('e', 'f'), ('g', 'h'))]
    for li, labels in enumerate(LABELS):
        ids, ls = lab_ids(labels)
        rows_list = [o.astype(float) for o in ORNTS] if li < 3 else [o.astype(float) for o in ORNTS[::5]]
        rows_list += [np.array([[1, -1], [np.nan, np.nan], [0, 1]]), np.array([[0, 1], [1, 2], [2, 1]]),
                      np.array([[0, 1], [3, -1]]), np.array([[-1, 1], [0, -1]])]
        for ri2, o in enumerate(rows_list):
            try:
                codes = no.ornt2axcodes(o, labels)
                e1 = 'ok ' + opts2s([None if c is None else ids[c] for c in codes])
            except Exception as e:
                codes = None
                e1 = err_enum(e)
            add(f'L{li}.{ri2}.c', f'o2cl {ls} {ornt2s(o)}', e1)
            chk.count(key=('L', li, ornt2s(o)), tag='L:labels:ornt2axcodes' + (':refused' if codes is None else ''))
            if codes is not None:
                try:
                    back = no.axcodes2ornt(codes, labels)
                    e2 = 'ok ' + ornt2s(back)
                    if len(set(ids.values())) == 2 * len(labels) and not np.any(o[:, 0] < 0) and \
                            not np.array_equal(back, o, equal_nan=True):
                        prop_fail({'op': 'axcodes', 'ornt': ornt2s(o), 'labels': [list(x) for x in labels]},
                                  f'axcodes2ornt(ornt2axcodes(o, labels), labels) = {back.tolist()} != o')
                except Exception as e:
                    e2 = err_enum(e)
                add(f'L{li}.{ri2}.o', f'c2ol {ls} {opts2s([None if c is None else ids[c] for c in codes])}', e2)
        # codes outside the label set / duplicated labels: refusals
        for ci2, codes in enumerate([('zz', labels[0][0]), (labels[0][1], None, labels[-1][0]), ()]):
            ids2 = dict(ids)
            ids2.setdefault('zz', 99)
            try:
                e2 = 'ok ' + ornt2s(no.axcodes2ornt(codes, labels))
            except Exception as e:
                e2 = err_enum(e)
            add(f'L{li}.x{ci2}', f'c2ol {ls} {opts2s([None if c is None else ids2[c] for c in codes])}', e2)
            chk.count(tag='L:labels:axcodes2ornt-odd')

    # ============================================================== (E) orientations of 1, 2 and 4 axes; error branches
    def signed_perms(n):
        return [np.array([[p[i], f[i]] for i in range(n)]) for p in itertools.permutations(range(n))
                for f in itertools.product([1, -1], repeat=n)]
    for n in (1, 2, 4):
        SP = signed_perms(n)
        sub = SP if n < 4 else [SP[i] for i in sorted(rng.sample(range(len(SP)), chk.n(40, 384)))]
        for oi, o in enumerate(sub):
            for shape in ([tuple(rng.randint(1, 4) for _ in range(n)), tuple(rng.randint(1, 3) for _ in range(n + 1))] +
                          ([tuple(rng.randint(1, 3) for _ in range(n - 1))] if n > 1 else [])):
                arr = np.arange(int(np.prod(shape))).reshape(shape)
                try:
                    t = no.apply_orientation(arr, o)
                    e1 = f'ok shape={lst(t.shape)} srcs={lst(t.ravel())}'
                except Exception as e:
                    t = None
                    e1 = err_enum(e)
                    chk.refusal('E:apply_orientation:' + e1[4:])
                add(f'E{n}.{oi}.{len(shape)}.a', f'applyo {lst(shape)} {ornt2s(o)}', e1)
                chk.count(key=('E', n, ornt2s(o), shape) if t is not None else None, tag=f'E:apply_orientation:n={n}')
                if t is not None and len(shape) >= n:
                    M = no.inv_ornt_aff(o, shape)
                    add(f'E{n}.{oi}.{len(shape)}.i', f'invaff {ornt2s(o)} {lst(shape)}', 'ok ' + affs(M))
                    # property clause: the affine sends every output index to its source index
                    J = np.indices(t.shape).reshape(t.ndim, -1)
                    Ssrc = np.array(np.unravel_index(t.ravel(), shape))
                    if not np.array_equal((M @ np.vstack([J[:n], np.ones((1, J.shape[1]))]))[:n], Ssrc[:n]) or \
                            not np.array_equal(J[n:], Ssrc[n:]):
                        prop_fail({'op': 'apply_orientation', 'ornt': ornt2s(o), 'shape': list(shape)},
                                  'inv_ornt_aff does not map output indices of apply_orientation to their source indices')
            b = sub[(oi * 7 + 3) % len(sub)]
            t = no.ornt_transform(o, b)
            add(f'E{n}.{oi}.t', f'otrans {ornt2s(o)} {ornt2s(b)}', 'ok ' + ornt2s(t))
            chk.count(tag=f'E:ornt_transform:n={n}')
            if not np.array_equal(no.ornt_transform(o, o), np.array([[i, 1] for i in range(n)])):
                prop_fail({'op': 'ornt_transform', 'start': ornt2s(o), 'end': ornt2s(o)}, 'ornt_transform(o, o) is not the identity')
    for bi, (a, b) in enumerate([([[0, 1], [1, 1]], [[0, 1], [1, 1], [2, 1]]), ([[0, 1], [1, 1], [2, 1]], [[0, 1], [1, -1], [3, 1]]),
                                 ([[0, 1], [0, -1]], [[0, 1], [1, 1]]), ([[2, 1], [0, 1]], [[0, -1], [2, -1]])]):
        try:
            e1 = 'ok ' + ornt2s(no.ornt_transform(np.array(a), np.array(b)))
        except Exception as e:
            e1 = err_enum(e)
            chk.refusal('E:ornt_transform:' + e1[4:])
        add(f'Ex{bi}', f'otrans {ornt2s(a)} {ornt2s(b)}', e1)
        chk.count(tag='E:ornt_transform:odd')
    for shape in [(3,), (2, 3), (2, 1, 3), (2, 2, 2, 2)]:
        arr = np.arange(int(np.prod(shape))).reshape(shape)
        for ax in range(len(shape)):
            with warnings.catch_warnings():
                warnings.simplefilter('ignore')
                try:
                    e1 = 'ok ' + lst(no.flip_axis(arr, ax).ravel())
                except Exception as e:      # flip_axis is deprecated; an expired deprecation raises
                    e1 = None
                    chk.refusal('E:flip_axis:' + type(e).__name__)
            if e1:
                add(f'Ef{len(shape)}.{ax}', f'flipax {lst(shape)} {ax}', e1)
            chk.count(tag='E:flip_axis')

    # ============================================================== (F) funcs: four_to_three, squeeze_image, concat_images, enforce_diag
    from nibabel import funcs
    for k in range(chk.n(60, 600)):
        nd = rng.choice([3, 4, 4, 4, 5])
        shape = tuple(rng.randint(1, 3) for _ in range(nd))
        if rng.random() < 0.5:
            shape = shape[:3] + tuple(rng.choice([1, 1, 2]) for _ in range(nd - 3))
        A = rand_affine(rng)
        cls = rng.choice(['n1', 'n2', 'ana'])
        img, data = make_img(cls, shape, A, proxy=(cls != 'ana' and k % 3 == 0))
        case = {'op': 'funcs', 'cls': cls, 'shape': list(shape), 'affine': mat2s(A)}

        def desc(im):
            return f'shape={lst(im.shape)} aff={affs(im.affine)} srcs={lst(np.asarray(im.dataobj).ravel())}'
        pred = None
        try:
            parts = funcs.four_to_three(img)
            e1 = 'ok ' + ' ; '.join(desc(x) for x in parts)
            for i, x in enumerate(parts):
                if not np.array_equal(np.asarray(x.dataobj), data[..., i]) or not np.array_equal(x.affine, img.affine):
                    pred = 'four_to_three: volume data or affine differ from the 4-D image'
            back = funcs.concat_images(parts)
            e3 = 'ok ' + desc(back)
            if not np.array_equal(np.asarray(back.dataobj), data) or not np.array_equal(back.affine, img.affine):
                pred = pred or 'concat_images(four_to_three(img)) differs from img'
        except ValueError as e:
            e1 = e3 = err_enum(e)
            chk.refusal('F:four_to_three:' + ('ndim!=4' if nd != 4 else 'other'))
            if nd == 4:
                pred = f'four_to_three refused a 4-D image: {e!r}'
        add(f'F{k}.4', f'f43 {lst(shape)} {mat2s(A)}', e1, case, pred)
        add(f'F{k}.c', f'concat43 {lst(shape)} {mat2s(A)}', e3, case, pred)
        sq = funcs.squeeze_image(img)
        add(f'F{k}.s', f'squeeze {lst(shape)} {mat2s(A)}', 'ok ' + desc(sq), case, pred)
        if not np.array_equal(np.asarray(sq.dataobj).ravel(), data.ravel()) or not np.array_equal(sq.affine, img.affine) \
                or sq.shape[:3] != img.shape[:3]:
            pred = pred or 'squeeze_image changed voxel values, the spatial shape or the affine'
        chk.count(key=('F', cls, shape, mat2s(A)), tag=f'F:funcs:rank{nd}')
        if pred:
            prop_fail(case, pred)
    # enforce_diag: refusal exactly when the reoriented affine is not diagonal
    for k in range(chk.n(96, 960)):
        o = ORNTS[k % 48]
        R0 = np.zeros((3, 3))
        for r in range(3):
            R0[int(o[r, 0]), r] = o[r, 1]
        A = np.eye(4)
        A[:3, :3] = R0 @ np.diag([rng.randint(2, 6) for _ in range(3)])
        sheared = k % 2 == 1
        if sheared:
            i, j = rng.sample(range(3), 2)
            A[i, j] += rng.choice([-1, 1]) if A[i, j] == 0 else 0
        A[:3, 3] = [rng.randint(-9, 9) for _ in range(3)]
        shape = tuple(rng.randint(1, 4) for _ in range(3))
        img, data = make_img('n1', shape, A)
        got = no.io_orientation(A)
        diag_after = rzs_is_diag(A @ no.inv_ornt_aff(got, shape))
        case = {'op': 'enforce_diag', 'shape': list(shape), 'affine': mat2s(A)}
        try:
            c1 = as_closest_canonical(img, enforce_diag=True)
            e1 = f'ok shape={lst(c1.shape)} aff={affs(c1.affine)}'
            pred = None if diag_after else 'enforce_diag=True returned an image whose affine is not diagonal'
            if not pred and c1 is not img:
                pred = reorient_predicate(img, data, c1, got, False)
        except no.OrientationError as e:
            e1 = 'err orient'
            chk.refusal('F:enforce_diag:not-diagonal')
            pred = 'enforce_diag=True refused although the canonical affine is diagonal' if diag_after else None
        add(f'D{k}', f'ediag {lst(shape)} {ornt2s(got)} {mat2s(A)}', e1, case, pred)
        chk.count(key=('D', mat2s(A), shape), tag='F:enforce_diag:' + ('sheared' if sheared else 'diagonal'))
        if pred:
            prop_fail(case, pred)

    # ============================================================== (C) io_orientation / canonical
    ATOL = Fraction(1e-8)

    def rot_of(aff):
        """the lines of io_orientation before its loop (the oracle), verbatim"""
        import numpy.linalg as npl
        affine = np.asarray(aff)
        q, p = affine.shape[0] - 1, affine.shape[1] - 1
        RZS = affine[:q, :p]
        zooms = np.sqrt(np.sum(RZS * RZS, axis=0))
        zooms[zooms == 0] = 1
        RS = RZS / zooms
        P, S, Qs = npl.svd(RS, full_matrices=False)
        tol = S.max() * max(RS.shape) * np.finfo(S.dtype).eps
        keep = S > tol
        return np.dot(P[:, keep], Qs[keep]), p

    def scaled(R):
        fr = [[Fraction(float(x)) for x in r] for r in R]
        den = max([f.denominator for r in fr for f in r] + [ATOL.denominator])
        return '|'.join(','.join(str(int(f * den)) for f in r) for r in fr), int(ATOL * den)

    def dominant(R):
        """hypothesis of C05_canonical_idempotent: every column has a strictly dominant row above atol, all distinct"""
        R = np.abs(np.asarray(R))
        if R.shape[0] != R.shape[1]:
            return False
        d = []
        for c in range(R.shape[1]):
            k = int(np.argmax(R[:, c]))
            if R[k, c] <= 1e-8 or any(R[i, c] >= R[k, c] for i in range(R.shape[0]) if i != k):
                return False
            d.append(k)
        return len(set(d)) == len(d)

    nhyp = 0
    cstate = {'ci': 0, 'nhyp': 0, 'nscale': 0}
    SCALES = [1e-6, 1e-4, 1e-3, 1.0, 1e3, 1e6]
    ANISO = [(1, 1, 6), (6, 1, 1), (1, 5, 2), (3, 1, 0.5)]

    def canon_case(A, shape, o, exact, tag, base=None, sample=False):
        """io_orientation (loop vs model on the recomputed, zoom-normalised R), as_closest_canonical once
        (voxels keep value and world position) and twice (no change); `base` = (orientation, dominant?) of
        the same affine before a positive rescaling of its voxel sizes, which must not change the answer"""
        ci = cstate['ci']
        cstate['ci'] += 1
        case = {'op': 'as_closest_canonical', 'shape': list(shape), 'affine': A.tolist()}
        R, p = rot_of(A)
        got = no.io_orientation(A)
        rs, at = scaled(R)
        add(f'C{ci}.l', f'ioloop {at} {rs} {p}', 'ok ' + ornt2s(got), case)
        ckind = ('i32', 'f64', 'i32big', 'i64', 'i16')[ci % 5]
        img, data = make_img('n1', shape, A, tuple(rng.sample([0, 1, 2], 3)), proxy=(exact and ci % 3 == 0),
                             kind=ckind, hist=HISTS[ci % len(HISTS)])
        try:
            c1 = as_closest_canonical(img)
            c2 = as_closest_canonical(c1)
        except Exception as e:
            pred = f'as_closest_canonical raised {e!r} (io_orientation = {got.tolist()})'
            preds[f'C{ci}.l'] = pred
            chk.count(tag=tag)
            prop_fail(case, pred)
            return got, False
        pred = None
        if exact:
            d0 = img.header.get_dim_info()
            add(f'C{ci}.r', f'reorient 1 {lst(shape)} {ornt2s(got)} {mat2s(A)} {opts2s(d0)}',
                f'ok same={int(c1 is img)} shape={lst(c1.shape)} aff={affs(c1.affine)} '
                f'dim={opts2s(c1.header.get_dim_info())} srcs={lst(decode(c1.dataobj, data))}', case)
            pred = reorient_predicate(img, data, c1, got, True)
        else:
            # float affine: same voxels, world positions to rounding (relative to the voxel size)
            out = np.asarray(c1.dataobj)
            didx = decode(out, data)
            if out.dtype != data.dtype or didx.min() < 0:
                pred = 'canonical image: stored values or dtype differ from the source dataobj'
            else:
                J = np.indices(out.shape).reshape(out.ndim, -1)
                S = np.array(np.unravel_index(didx, shape))
                ones = np.ones((1, J.shape[1]))
                wn, wo = c1.affine @ np.vstack([J[:3], ones]), A @ np.vstack([S[:3], ones])
                if out.size != data.size or len(np.unique(didx)) != out.size or \
                        not np.allclose(wn, wo, rtol=1e-9, atol=1e-9 * float(np.abs(A[:3, :4]).max())):
                    pred = 'canonical image: a voxel was lost or moved in world space'
        dom = dominant(R)
        if dom:
            cstate['nhyp'] += 1
            if no.aff2axcodes(c1.affine) != ('R', 'A', 'S'):
                pred = pred or f'closest canonical image has axis codes {no.aff2axcodes(c1.affine)}'
            if not (c2 is c1 or (np.array_equal(np.asarray(c2.dataobj), np.asarray(c1.dataobj))
                                 and np.array_equal(c2.affine, c1.affine)
                                 and c2.header.get_dim_info() == c1.header.get_dim_info())):
                pred = pred or 'canonicalising twice changed the image although every voxel axis has its own dominant world axis'
            if o is not None and not np.array_equal(got, o):
                pred = pred or f'io_orientation {got.tolist()} is not the dominant-axis orientation {o.tolist()}'
        if base is not None and base[1] and not np.array_equal(got, base[0]):
            pred = pred or (f'io_orientation changes from {base[0].tolist()} to {got.tolist()} under a positive rescaling of the '
                            'voxel sizes (it normalises by the zooms)')
        chk.count(key=('C', mat2s(A) if exact else repr(A.tolist())), tag=tag, sample=case if sample else None)
        preds[f'C{ci}.l'] = pred
        if pred:
            prop_fail(case, pred)
        return got, dom

    for rep in range(chk.n(8, 60)):
        for oi, o in enumerate(ORNTS):
            shape = tuple(rng.randint(1, 4) for _ in range(rng.choice([3, 3, 4])))
            R0 = np.zeros((3, 3))
            for r in range(3):
                R0[int(o[r, 0]), r] = o[r, 1]
            A = np.eye(4)
            kind = (0, 1, 2, 2)[rep % 4]
            if kind == 0:   # integer-valued: exact world comparison
                zo = np.diag([rng.randint(3, 6) for _ in range(3)])
                shear = np.array([[rng.randint(-1, 1) for _ in range(3)] for _ in range(3)])
                A[:3, :3] = R0 @ zo + shear
                A[:3, 3] = [rng.randint(-30, 30) for _ in range(3)]
            elif kind == 1:  # mildly oblique
                noise = np.array([[rng.uniform(-0.15, 0.15) for _ in range(3)] for _ in range(3)])
                A[:3, :3] = (R0 + noise) @ np.diag([rng.uniform(0.5, 3) for _ in range(3)])
                A[:3, 3] = [rng.uniform(-50, 50) for _ in range(3)]
            else:            # strongly oblique / sheared (off-axis components up to ~1), anisotropic voxels
                amp = rng.choice([0.5, 0.8, 1.0, 1.1])
                while True:
                    noise = np.array([[rng.uniform(-amp, amp) for _ in range(3)] for _ in range(3)]) * (R0 == 0)
                    if abs(np.linalg.det(R0 + noise)) > 0.05:
                        break
                A[:3, :3] = (R0 + noise) @ np.diag([rng.choice([0.3, 1, 1, 2, 6]) for _ in range(3)])
                A[:3, 3] = [rng.uniform(-50, 50) for _ in range(3)]
            tag = 'C:canonical:' + ('int', 'oblique', 'sheared')[kind]
            base = canon_case(A, shape, o if kind < 2 else None, kind == 0, tag, sample=(cstate['ci'] == 5))
            # scale sweep: uniform and per-axis positive rescaling of the voxel sizes
            for s in SCALES:
                for an in ((1, 1, 1), ANISO[(oi + rep) % len(ANISO)]):
                    if s == 1.0 and an == (1, 1, 1):
                        continue
                    B = A.copy()
                    B[:3, :3] = A[:3, :3] @ np.diag([s * x for x in an])
                    B[:3, 3] = A[:3, 3] * s
                    canon_case(B, shape, None, False, f'C:scale:{s:g}:' + ('uniform' if an == (1, 1, 1) else 'anisotropic'), base=base)
                    cstate['nscale'] += 1
    nhyp = cstate['nhyp']
    chk.extra['scale_sweep_cases'] = cstate['nscale']
    # general (q, p): dropped axes, zero columns, ties decided on the computed R
    for k in range(chk.n(300, 3000)):
        q, p = rng.choice([(2, 2), (3, 2), (2, 3), (3, 4), (4, 3), (3, 3), (3, 3)])
        M = np.array([[rng.choice([0, 0, 1, -1, 2, -3, 0.5, rng.uniform(-2, 2)]) for _ in range(p)] for _ in range(q)], float)
        if rng.random() < 0.3:
            M[:, rng.randrange(p)] = 0
        if k % 3 == 0 and q == 3 and p == 3:
            # near ties: a 45-degree rotation about one axis (two equal dominant components up to rounding) composed
            # with a signed permutation, perturbed by eps in {0, 1e-16 .. 1e-6}; anisotropic zooms
            o = ORNTS[rng.randrange(48)]
            P0 = np.zeros((3, 3))
            for r in range(3):
                P0[int(o[r, 0]), r] = o[r, 1]
            th = np.pi / 4 + rng.choice([0, 0, 1e-16, -1e-16, 1e-12, -1e-12, 1e-9, -1e-9, 1e-6, -1e-6])
            ax = rng.randrange(3)
            i, j = [x for x in range(3) if x != ax]
            Rt = np.eye(3)
            Rt[i, i] = Rt[j, j] = np.cos(th)
            Rt[i, j], Rt[j, i] = -np.sin(th), np.sin(th)
            if rng.random() < 0.4:      # second 45-degree turn: three-way near ties
                Rt2 = np.eye(3)
                Rt2[ax, ax] = Rt2[i, i] = np.cos(np.pi / 4)
                Rt2[ax, i], Rt2[i, ax] = -np.sin(np.pi / 4), np.sin(np.pi / 4)
                Rt = Rt @ Rt2
            M = P0 @ Rt @ np.diag([rng.choice([0.5, 1, 2, 3]) for _ in range(3)])
            chk.tagc('C:io_orientation:near-tie')
        A = np.zeros((q + 1, p + 1))
        A[:q, :p] = M
        A[q, p] = 1
        try:
            got = no.io_orientation(A)
            R, pp = rot_of(A)
        except Exception as e:     # all-zero matrix: S.max() of an empty/zero SVD etc.
            chk.refusal('io_orientation:' + type(e).__name__)
            continue
        rs, at = scaled(R)
        add(f'G{k}', f'ioloop {at} {rs} {pp}', 'ok ' + ornt2s(got), {'op': 'io_orientation', 'affine': A.tolist()})
        if q <= 3:
            try:
                add(f'G{k}.c', f'o2c {ornt2s(got)}', 'ok ' + opts2s([None if c is None else ord(c) for c in no.aff2axcodes(A)]))
            except Exception as e:
                add(f'G{k}.c', f'o2c {ornt2s(got)}', err_enum(e))
        chk.count(key=('G', repr(A.tolist())), tag=f'C:io_orientation:{q}x{p}')
        # property clause: distinct output axes, every kept axis within range
        kept = [int(r[0]) for r in got if not np.isnan(r[0])]
        if len(set(kept)) != len(kept) or any(not (0 <= x < q) for x in kept):
            prop_fail({'op': 'io_orientation', 'affine': A.tolist()}, f'io_orientation rows {got.tolist()} reuse or exceed output axes')
    chk.extra['idempotence_hypothesis_cases'] = nhyp

    # ============================================================== out-of-statement observations (recorded, never a violation)
    # C05 names the freq/phase/slice LABELS; the slice-timing fields that hang on the slice axis are not named.
    obs = {}
    try:
        d4 = np.arange(24, dtype=np.int16).reshape(2, 3, 4)
        im = nib.Nifti1Image(d4, np.diag([2., 3, 4, 1]))
        im.header.set_dim_info(0, 1, 2)
        im.header.set_slice_duration(0.1)
        im.header.set_slice_times([0, 0.1, 0.2, 0.3])
        fl = im.as_reoriented(np.array([[0, 1], [1, 1], [2, -1]]))
        t0, t1 = im.header.get_slice_times(), fl.header.get_slice_times()
        obs['slice_times_after_flipping_the_slice_axis'] = (
            'unchanged (slice k of the flipped image is slice n-1-k of the original, so the times are mirrored onto the '
            'wrong slices; slice_code/slice_start/slice_end are copied)' if tuple(t1) == tuple(t0) else 'mirrored')
        sl = im.slicer[:, :, 1:3]
        obs['slice_start_end_after_cropping_the_slice_axis'] = (
            f"copied ({int(sl.header['slice_start'])}, {int(sl.header['slice_end'])}) for an axis now of length {sl.shape[2]}"
            if (int(sl.header['slice_start']), int(sl.header['slice_end'])) == (int(im.header['slice_start']), int(im.header['slice_end']))
            else 'adjusted')
    except Exception as e:
        obs['error'] = repr(e)[:200]
    chk.extra['out_of_statement_observations'] = obs

    # ============================================================== model run + comparison
    mod = run_model_parallel(PROP, lines, jobs=8)
    ncorr = 0
    nhyp_bad = 0
    for cid, exp in expect.items():
        got = mod.get(cid, '<missing>')
        if got != exp:
            ncorr += 1
            chk.disagreements += 1
            if cid.endswith('.h'):
                nhyp_bad += 1
            if ncorr <= 4 and not preds.get(cid):
                what = ('hypothesis ix_valid of theorem C05_slicer_voxel_world fails on an index the implementation accepts'
                        if cid.endswith('.h') else 'model and implementation disagree; the property predicate holds on this case')
                chk.violation('correspondence', case=info[cid] if isinstance(info[cid], dict) else str(info[cid])[:400],
                              model_output=got[:300], impl_output=exp[:300], predicate=what, found_input=False,
                              theorem=CORR_THM, inputs={'line': [l for l in lines if l.startswith(cid + ' ')][0][:600]})
    chk.extra['model_lines'] = len(lines)
    chk.extra['correspondence_mismatches'] = ncorr
    chk.extra['theorem_hypothesis_mismatches'] = nhyp_bad
    chk.extra['unproved_statements'] = []
    chk.exhaustive = False

    # ============================================================== vm_compute cross-check of the extraction
    pairs = []
    samp = [l for l in lines if ' invaff ' in l][::29][:6] + [l for l in lines if ' slaff ' in l][::1733][:12] + \
           [l for l in lines if ' otrans ' in l][::211][:10] + [l for l in lines if ' reorient ' in l][::173][:8]

    def cq_ornt(s):
        return '[' + ';'.join('(%s, %s)' % tuple(r.split(':')) for r in s.split(',')) + ']'

    def cq_mat(s):
        return '[' + ';'.join('[' + ';'.join(r.split(',')) + ']' for r in s.split('|')) + ']'

    def cq_list(s):
        return '[' + ';'.join(x for x in s.strip('[]').split(',') if x) + ']'

    def cq_opt(v):
        return 'None' if v == '_' else f'(Some ({v}))'

    def cq_ix(s):
        out = []
        for t in ([] if s == '()' else s.split(',')):
            if t == 'n':
                out.append('INew')
            elif t == 'e':
                out.append('IEll')
            elif t[0] == 'i':
                out.append(f'IInt ({t[1:]})')
            else:
                a, b, c = t[1:].split(':')
                out.append(f'ISl (mkSl {cq_opt(a)} {cq_opt(b)} {cq_opt(c)})')
        return '[' + ';'.join(out) + ']'

    for l in samp:
        w = l.split()
        cid, op = w[0], w[1]
        r = mod.get(cid, '')
        if op == 'invaff':
            pairs.append((f'meqb (inv_ornt_aff {cq_ornt(w[2])} {cq_list(w[3])}) {cq_mat(r[3:])}', l))
        elif op == 'slaff':
            call = f'slice_affine {cq_mat(w[4])} {cq_list(w[2])} {cq_ix(w[3])}'
            if r.startswith('ok '):
                pairs.append((f'match {call} with Ok5 m => meqb m {cq_mat(r[3:])} | _ => false end', l))
            else:
                pairs.append((f'match {call} with Err5 _ => true | _ => false end', l))
        elif op == 'otrans' and r.startswith('ok '):
            pairs.append((f'match ornt_transform {cq_ornt(w[2])} {cq_ornt(w[3])} with Ok5 o => ornt_eqb o {cq_ornt(r[3:])} | _ => false end', l))
        elif op == 'reorient' and r.startswith('ok '):
            f = dict(x.split('=') for x in r[3:].split())
            dim = '[' + ';'.join(cq_opt(v) for v in ([] if w[6] == '()' else w[6].split(','))) + ']'
            pairs.append((f'match run_reorient {"true" if w[2] == "1" else "false"} {cq_list(w[3])} {cq_ornt(w[4])} {cq_mat(w[5])} {dim} '
                          f'with Ok5 (_, sh, a, _, srcs) => zeqb sh {cq_list(f["shape"])} && meqb a {cq_mat(f["aff"])} && '
                          f'zeqb srcs {cq_list(f["srcs"])} | _ => false end', l))
    imports = ('From Coq Require Import ZArith List Bool. Import ListNotations. Open Scope Z_scope.\n'
               'From NV Require Import Base.PySlice C06.Model C05.Model.\n'
               'Fixpoint zeqb (a b : list Z) : bool := match a, b with [], [] => true | x :: a\', y :: b\' => (x =? y) && zeqb a\' b\' | _, _ => false end.\n'
               'Fixpoint meqb (a b : list (list Z)) : bool := match a, b with [], [] => true | x :: a\', y :: b\' => zeqb x y && meqb a\' b\' | _, _ => false end.\n')
    ncase, bad = vm_crosscheck(PROP, imports, pairs)
    chk.vm = {'cases': ncase, 'disagreements': len(bad)}
    if bad:
        chk.disagreements += 1
        chk.violation('correspondence', case={'vm_crosscheck': [pairs[b][1][:200] if isinstance(b, int) and b < len(pairs) else str(b)[:300] for b in bad][:5]},
                      predicate='extracted model disagrees with vm_compute evaluation of the model', found_input=False,
                      theorem='extraction cross-check')


def replay(chk, obj):
    ensure_impl_path()
    warnings.simplefilter('ignore')
    c = obj.get('case')
    if isinstance(c, dict) and c.get('op') == 'slicer':
        shape = tuple(c['shape'])
        A = np.array([[float(x) for x in r.split(',')] for r in c['affine'].split('|')])
        img, data = make_img(c['cls'], shape, A, tuple(c['dim_info']) if c.get('dim_info') else None, bool(c.get('proxy')),
                             c.get('kind', 'i32'), tuple(c.get('hist', ())))
        ix = s2ix(c['ix'])
        try:
            new = img.slicer[ix]
        except Exception as e:
            print('slicer raised', repr(e), '(a refusal)')
            print('property holds on this case')
            return 0
        bad, _, _ = world_check(new, img.affine, img.shape, data)
        if not bad and not np.array_equal(np.asarray(new.dataobj), data[ix]):
            bad = 'data differ from data[index]'
        print(bad or 'every voxel keeps value and world position')
        print('property fails on this case' if bad else 'property holds on this case')
        return 1 if bad else 0
    if isinstance(c, dict) and c.get('op') in ('funcs', 'enforce_diag'):
        from nibabel import funcs
        from nibabel import orientations as no
        shape = tuple(c['shape'])
        A = np.array([[float(x) for x in r.split(',')] for r in c['affine'].split('|')])
        img, data = make_img(c.get('cls', 'n1'), shape, A)
        bad = None
        if c['op'] == 'funcs':
            if len(shape) == 4:
                try:
                    parts = funcs.four_to_three(img)
                    if any(not np.array_equal(np.asarray(x.dataobj), data[..., i]) or not np.array_equal(x.affine, img.affine)
                           for i, x in enumerate(parts)):
                        bad = 'four_to_three: volume data or affine differ'
                    back = funcs.concat_images(parts)
                    if not np.array_equal(np.asarray(back.dataobj), data) or not np.array_equal(back.affine, img.affine):
                        bad = bad or 'concat_images(four_to_three(img)) differs from img'
                except Exception as e:
                    bad = f'raised {e!r}'
            sq = funcs.squeeze_image(img)
            if not np.array_equal(np.asarray(sq.dataobj).ravel(), data.ravel()) or not np.array_equal(sq.affine, img.affine):
                bad = bad or 'squeeze_image changed values or affine'
        else:
            got = no.io_orientation(A)
            diag_after = rzs_is_diag(A @ no.inv_ornt_aff(got, shape))
            try:
                funcs.as_closest_canonical(img, enforce_diag=True)
                bad = None if diag_after else 'answered with a non-diagonal affine'
            except no.OrientationError:
                bad = 'refused a diagonal canonical affine' if diag_after else None
        print(bad or 'consistent')
        print('property fails on this case' if bad else 'property holds on this case')
        return 1 if bad else 0
    if isinstance(c, dict) and c.get('op') == 'sequence':
        shape = tuple(c['shape'])
        A = np.array([[float(x) for x in r.split(',')] for r in c['affine'].split('|')])
        img, data = make_img(c['cls'], shape, A, tuple(c['dim_info']) if c.get('dim_info') else None, bool(c.get('proxy')),
                             c.get('kind', 'i32'))
        cur = img
        back = {'G=1000': 'G64', 'G=2000': 'G32', 'N=2000': 'N32', 'U=0': 'U'}
        last = 'G64'
        try:
            for t in c['ops'].split(';'):
                if t == 'E=7':
                    cache_op(cur, 'E32' if last == 'G32' else 'E64')
                elif t in back:
                    cache_op(cur, back[t])
                    last = back[t] if back[t] in ('G32', 'G64') else last
                elif t[0] == 'R':
                    cur = cur.as_reoriented(np.array([[int(x) for x in r.split(':')] for r in t[2:].split(',')]))
                else:
                    cur = cur.slicer[s2ix(t[2:])]
        except Exception as e:
            print('raised', repr(e)[:200], '(a refusal)')
            print('property holds on this case')
            return 0
        bad, _, _ = world_check(cur, img.affine, img.shape, data)
        print(bad or 'every voxel keeps value and world position through the sequence')
        print('property fails on this case' if bad else 'property holds on this case')
        return 1 if bad else 0
    if isinstance(c, dict) and c.get('op') == 'as_reoriented':
        shape = tuple(c['shape'])
        A = np.array([[float(x) for x in r.split(',')] for r in c['affine'].split('|')])
        nifti = c['cls'] in ('n1', 'n2', 'p1')
        img, data = make_img(c['cls'], shape, A, tuple(c['dim_info']) if nifti else None, bool(c.get('proxy')),
                             c.get('kind', 'i32'), tuple(c.get('hist', ())))
        o = np.array([[int(x) for x in r.split(':')] for r in c['ornt'].split(',')])
        try:
            new = img.as_reoriented(o)
            bad = reorient_predicate(img, data, new, o, nifti)
        except Exception as e:
            bad = f'as_reoriented raised {e!r}'
        print(bad or 'every voxel keeps value and world position; dim_info follows')
        print('property fails on this case' if bad else 'property holds on this case')
        return 1 if bad else 0
    if isinstance(c, dict) and c.get('op') == 'as_closest_canonical':
        import nibabel as nib
        from nibabel.funcs import as_closest_canonical
        from nibabel.orientations import aff2axcodes
        A = np.array(c['affine'])
        img, data = make_img('n1', tuple(c['shape']), A)
        try:
            c1 = as_closest_canonical(img)
            c2 = as_closest_canonical(c1)
        except Exception as e:
            print('as_closest_canonical raised', repr(e)[:200])
            print('property fails on this case')
            return 1
        bad = None
        if aff2axcodes(c1.affine) != ('R', 'A', 'S'):
            bad = f'axis codes {aff2axcodes(c1.affine)}'
        elif not (c2 is c1 or (np.array_equal(np.asarray(c2.dataobj), np.asarray(c1.dataobj)) and np.array_equal(c2.affine, c1.affine))):
            bad = 'canonicalising twice changed the image'
        elif is_int_mat(A):
            bad = reorient_predicate(img, data, c1, None, False) if c1 is not img else None
        print(bad or 'canonical image keeps every voxel; second canonicalisation is a no-op')
        print('property fails on this case' if bad else 'property holds on this case')
        return 1 if bad else 0
    if isinstance(c, dict) and c.get('op') in ('ornt_transform', 'composition', 'axcodes', 'io_orientation'):
        from nibabel import orientations as no

        def po(t):
            return np.array([[int(x) for x in r.split(':')] for r in t.split(',')])
        bad = None
        if c['op'] == 'ornt_transform':
            a, b = po(c['start']), po(c['end'])
            t = no.ornt_transform(a, b)
            Aa = np.eye(4)
            Aa[:3, :3] = 0
            for r in range(3):
                Aa[int(a[r, 0]), r] = a[r, 1] * (r + 2)
            got = no.io_orientation(Aa @ no.inv_ornt_aff(t, (2, 3, 4)))
            if np.array_equal(a, b) and not np.array_equal(t, [[0, 1], [1, 1], [2, 1]]):
                bad = f'ornt_transform(o, o) = {t.tolist()}'
            elif not np.array_equal(got, b):
                bad = f'reorienting by ornt_transform(start, end) gives orientation {got.tolist()}, not end'
        elif c['op'] == 'composition':
            a, b, cc = po(c['a']), po(c['b']), po(c['c'])
            d = np.arange(24).reshape(2, 3, 4)
            if not np.array_equal(no.apply_orientation(no.apply_orientation(d, no.ornt_transform(a, b)), no.ornt_transform(b, cc)),
                                  no.apply_orientation(d, no.ornt_transform(a, cc))):
                bad = 'apply(apply(arr, T(a,b)), T(b,c)) != apply(arr, T(a,c))'
        elif c['op'] == 'axcodes':
            o = po(c['ornt'])
            codes = no.ornt2axcodes(o.astype(float))
            if not np.array_equal(no.axcodes2ornt(codes), o) or len(set(codes)) != 3:
                bad = f'axis codes {codes} do not give the orientation back'
        else:
            got = no.io_orientation(np.array(c['affine']))
            kept = [int(r[0]) for r in got if not np.isnan(r[0])]
            if len(set(kept)) != len(kept):
                bad = f'io_orientation rows {got.tolist()} reuse an output axis'
        print(bad or 'consistent')
        print('property fails on this case' if bad else 'property holds on this case')
        return 1 if bad else 0
    if obj.get('inputs') and obj['inputs'].get('probe_fn'):
        import defect_probes
        r = defect_probes.PROBES[obj['inputs']['probe_fn']]()
        print('defect present' if r else 'defect absent')
        return 1 if r else 0
    print('nothing to replay on the implementation:', (obj.get('predicate') or '')[:300])
    return 1
