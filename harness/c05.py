"""C05 — Reorienting, canonicalising and slicing keep each voxel at its world position.

Model: coq/C05/Model.v (apply_orientation, inv_ornt_aff, ornt_transform, ornt2axcodes,
axcodes2ornt, the loop of io_orientation, as_reoriented incl. the NIfTI dim_info remap,
check_slicing / slice_affine / SpatialFirstSlicer.__getitem__ on top of C06's
canonical_slicers and Base/PySlice.v).  Theorems: coq/C05/Props.v.

Case lines sent to bin/modelrun_c05 (see coq/C05/driver.ml):
  reorient <nifti> <shape> <ornt> <affine> <dim> | slicer <shape> <ix> <affine>
  slaff <shape> <ix> <affine> | hyp <shape> <ix> | invaff <ornt> <shape> | otrans <o1> <o2>
  ocomp <o1> <o2> | o2c <orows> | c2o <codes> | ioloop <atol> <R> <p>
Orientations "a:f,a:f,a:f" (nan row "n"), matrices "a,b,c,d|e,f,g,h|...", index tuples as in C06.

Every image carries data = arange(size) (C order), so the value of an output voxel IS the C-order
offset of its source voxel: the model's `srcs` list is compared with the output array, and the
property predicate reads the source index of every output voxel off the data (independently of
the model) and compares new.affine @ j with old.affine @ src(j) exactly (integer-valued affines).
"""
import itertools
import warnings
from fractions import Fraction

import numpy as np

from common import Check, ensure_impl_path, run_model, run_model_parallel, vm_crosscheck

PROP = 'C05'
CORR_THM = 'correspondence C05/Model.v <-> nibabel/{orientations,spatialimages,nifti1,funcs}.py'


# ------------------------------------------------------------------ formatting
def o2s(v):
    return '_' if v is None else str(int(v))


def lst(l):
    return '[' + ','.join(str(int(x)) for x in l) + ']'


def sl2s(s):
    return f'{o2s(s.start)}:{o2s(s.stop)}:{o2s(s.step)}'


def ix2s(ix):
    if not isinstance(ix, tuple):
        ix = (ix,)
    if len(ix) == 0:
        return '()'
    out = []
    for x in ix:
        if x is None:
            out.append('n')
        elif x is Ellipsis:
            out.append('e')
        elif isinstance(x, slice):
            out.append('s' + sl2s(x))
        else:
            out.append('i%d' % int(x))
    return ','.join(out)


def s2ix(toks):
    ix = []
    if toks != '()':
        for t in toks.split(','):
            if t == 'n':
                ix.append(None)
            elif t == 'e':
                ix.append(Ellipsis)
            elif t[0] == 'i':
                ix.append(int(t[1:]))
            else:
                a, b, c = [None if v == '_' else int(v) for v in t[1:].split(':')]
                ix.append(slice(a, b, c))
    return tuple(ix)


def ornt2s(o):
    rows = []
    for a, f in np.asarray(o, dtype=float):
        rows.append('n' if np.isnan(a) or np.isnan(f) else f'{int(a)}:{int(f)}')
    return ','.join(rows) if rows else '()'


def is_int_mat(m):
    m = np.asarray(m, dtype=float)
    return bool(np.all(np.isfinite(m)) and np.all(m == np.rint(m)))


def mat2s(m):
    m = np.asarray(m)
    return '|'.join(','.join(str(int(x)) for x in r) for r in m)


def affs(m):
    """canonical string of an affine observed on the implementation (exact integers or 'nonint')"""
    return mat2s(m) if is_int_mat(m) else 'nonint:' + repr(np.asarray(m).tolist())


def opts2s(l):
    return ','.join(o2s(x) for x in l) if len(l) else '()'


def err_enum(e):
    from nibabel.orientations import OrientationError
    if isinstance(e, IndexError):
        return 'err index'
    if isinstance(e, OrientationError):
        return 'err orient'
    if isinstance(e, (ValueError, TypeError)):
        return 'err value'
    return 'err other:' + type(e).__name__


# ------------------------------------------------------------------ generators
def all_ornts():
    return [np.array([[p[i], f[i]] for i in range(3)]) for p in itertools.permutations(range(3))
            for f in itertools.product([1, -1], repeat=3)]


def rand_affine(rng):
    """integer-valued, oblique and sheared, invertible"""
    while True:
        A = np.eye(4)
        A[:3, :4] = [[rng.randint(-5, 5) for _ in range(4)] for _ in range(3)]
        A[:3, 3] = [rng.randint(-40, 40) for _ in range(3)]
        if abs(round(np.linalg.det(A[:3, :3]))) >= 1:
            return A


FIXED_AFFS = [np.array(a, float) for a in (
    [[2, -1, 1, 7], [1, 3, 0, -4], [0, 1, -2, 5], [0, 0, 0, 1]],
    [[0, -3, 1, -11], [2, 1, 0, 6], [1, 0, 4, 0], [0, 0, 0, 1]],
    [[-1, 0, 2, 3], [0, 5, 1, -9], [3, -2, 1, 1], [0, 0, 0, 1]])]


def slices_for(n):
    vals = [None] + list(range(-n - 2, n + 3))
    steps = [None, 1, 2, 3, -1, -2, -3]
    return [slice(a, b, c) for a in vals for b in vals for c in steps]


def rand_slice(rng, n, want_nonempty=0.8):
    vals = [None, None] + list(range(-n - 2, n + 3))
    for _ in range(20):
        s = slice(rng.choice(vals), rng.choice(vals), rng.choice([None, None, 1, 2, 3, -1, -1, -2, -3]))
        if len(range(n)[s]) > 0 or rng.random() > want_nonempty:
            return s
    return slice(None)


def image_classes():
    import nibabel as nib
    return {'n1': nib.Nifti1Image, 'n2': nib.Nifti2Image, 'p1': nib.Nifti1Pair, 'spm': nib.Spm99AnalyzeImage,
            'ana': nib.AnalyzeImage}


def make_img(cls, shape, A, dim=None):
    data = np.arange(int(np.prod(shape)), dtype=np.int32).reshape(shape)
    img = image_classes()[cls](data, A)
    if dim is not None and cls in ('n1', 'n2', 'p1'):
        img.header.set_dim_info(*dim)
    return img, data


# ------------------------------------------------------------------ the property predicate
def world_check(new, old_affine, old_shape):
    """Every output voxel: value = value of a distinct input voxel (read off the data), same world
    position, non-spatial indices unchanged.  Returns (None | reason, S, J)."""
    out = np.asarray(new.dataobj)
    if out.size == 0:       # no voxel to misplace (the slicer documents a refusal here: correspondence)
        return None, None, None
    flat = out.ravel()
    size = int(np.prod(old_shape))
    if flat.min() < 0 or flat.max() >= size or len(np.unique(flat)) != flat.size:
        return 'output values are not distinct input voxels', None, None
    J = np.indices(out.shape).reshape(out.ndim, -1)
    S = np.array(np.unravel_index(flat, old_shape))
    ones = np.ones((1, J.shape[1]))
    wn = np.asarray(new.affine) @ np.vstack([J[:3], ones])
    wo = np.asarray(old_affine) @ np.vstack([S[:3], ones])
    if not np.array_equal(wn, wo):
        k = int(np.argmax(np.any(wn != wo, axis=0)))
        return (f'voxel {tuple(int(x) for x in J[:, k])} (source {tuple(int(x) for x in S[:, k])}): world '
                f'{wn[:3, k].tolist()} under the new affine, {wo[:3, k].tolist()} under the old one'), S, J
    return None, S, J


def dim_candidates(S, J, old_shape, out_shape, a):
    """output axes k along which input axis a runs (several when lengths are 1)"""
    c = []
    for k in range(3):
        if out_shape[k] == old_shape[a] and (np.array_equal(S[a], J[k]) or
                                             np.array_equal(S[a], old_shape[a] - 1 - J[k])):
            c.append(k)
    return c


def reorient_predicate(img, data, new, o, nifti):
    if new is img:
        return None if np.array_equal(np.asarray(o), [[0, 1], [1, 1], [2, 1]]) else \
            'the same image returned for a non-identity orientation'
    bad, S, J = world_check(new, img.affine, img.shape)
    if bad:
        return bad
    out = np.asarray(new.dataobj)
    if out.size != data.size:
        return 'voxels lost or duplicated'
    if out.ndim != data.ndim or not np.array_equal(S[3:], J[3:]) or out.shape[3:] != data.shape[3:]:
        return 'non-spatial axes changed'
    if nifti:
        old = img.header.get_dim_info()
        nw = new.header.get_dim_info()
        for lab, a, k in zip(('freq', 'phase', 'slice'), old, nw):
            if (a is None) != (k is None):
                return f'dim_info {lab}: {a} -> {k}'
            if a is not None and k not in dim_candidates(S, J, img.shape, out.shape, a):
                return f'dim_info {lab}: label on input axis {a} moved to output axis {k}, which does not run along it'
    return None


# ------------------------------------------------------------------ run
def run(chk: Check):
    ensure_impl_path()
    warnings.simplefilter('ignore')
    import nibabel as nib
    from nibabel import orientations as no
    from nibabel.funcs import as_closest_canonical
    chk.rule = ('(R) all 48 signed axis permutations x {3 fixed + random} shapes of rank 3-5 (axis lengths 1-4) x random '
                'integer-valued oblique/sheared affines x image classes {Nifti1Image, Nifti2Image, Nifti1Pair, '
                'Spm99AnalyzeImage, AnalyzeImage} x random dim_info: output array, affine, dim_info, same-object flag vs the '
                'model; (S1) exhaustive one-axis slicer: every spatial axis x axis length 1..5 x every slice with start/stop in '
                '[-n-2,n+2]|None, step in {+-1,+-2,+-3,None} (+ step 0); (S2) all pairs of representative slices on two '
                'spatial axes; (S3) random index tuples over 3-5 axes (three spatial slices, ints/slices/None/Ellipsis on '
                'the others, some ints/None in spatial position, short tuples); (O) ornt2axcodes/axcodes2ornt for all 48, '
                'ornt_transform for all 48x48 pairs, composition on random triples, inv_ornt_aff for 48 x shapes; (C) '
                'io_orientation loop on R computed as the code does, as_closest_canonical once and twice on affines with '
                'a dominant-axis margin (integer, mildly oblique, strongly sheared with off-axis components up to 1.1 and '
                'anisotropic voxels), each also under a SCALE SWEEP of the voxel sizes (uniform and per-axis anisotropic, '
                's in {1e-6,1e-4,1e-3,1,1e3,1e6}): io_orientation must not change, canonical twice = once; general (q,p) '
                'affines with dropped axes. Non-trivial: a non-identity orientation '
                'or an index that is not the whole array, not refused; distinct by (op, shape, orientation/index, affine, class)')
    chk.assumptions = ['images are in-memory (dataobj is an ndarray) with data = arange(size): the value of a voxel names its '
                       'source voxel, so value equality is checked at every voxel of every result',
                       'affines are integer-valued float64 matrices, so world positions are compared exactly',
                       'numpy.linalg.svd inside io_orientation is an oracle: the harness recomputes R with the same '
                       'expressions and feeds it (scaled exactly to integers) to the model of the loop']
    chk.trusted.append('NumPy flip/transpose/basic indexing as index maps (np_flip, np_transpose, src_index in C05/Model.v; '
                       'checked against NumPy at every voxel of every case), CPython slice.indices (Base/PySlice.v, validated by C06)')
    chk.trusted.append('oracle: the part of io_orientation before its loop (zooms, numpy.linalg.svd, rank threshold) — '
                       'parameter `rot` of the model; C05_canonical_idempotent assumes its equivariance under signed column '
                       'permutations (an identity of exact arithmetic)')
    chk.build()
    chk.run_probes()
    if not chk.model_ok:
        return
    rng = chk.rng
    ORNTS = all_ornts()
    lines = []
    expect = {}
    info = {}
    preds = {}

    def add(cid, line, exp, case=None, pred=None):
        lines.append(f'{cid} {line}')
        expect[cid] = exp
        info[cid] = case if case is not None else line
        preds[cid] = pred

    nviol = [0]

    def prop_fail(case, pred, impl_output=None):
        nviol[0] += 1
        if nviol[0] <= 6:
            chk.violation('property_violation', case=case, impl_output=impl_output, predicate=pred)

    # ============================================================== (R) reorientation
    fixed_shapes = [(2, 3, 4), (1, 3, 2, 2), (3, 1, 2, 2, 2)]
    nrand = chk.n(24, 200)
    classes = ['n1', 'n1', 'n2', 'p1', 'spm', 'ana']
    ri = 0
    for oi, o in enumerate(ORNTS):
        shapes = list(fixed_shapes)
        for _ in range(nrand):
            nd = rng.choice([3, 3, 4, 5])
            shapes.append(tuple(rng.randint(1, 4) for _ in range(nd)))
        for si, shape in enumerate(shapes):
            if si < len(fixed_shapes):
                A = FIXED_AFFS[(oi + si) % 3]
                cls = classes[(oi + si) % len(classes)]
                dim = [(0, 1, 2), (2, 0, 1), (None, 1, None)][(oi + si) % 3]
            else:
                A = rand_affine(rng)
                cls = rng.choice(classes)
                dim = tuple(rng.sample([0, 1, 2], 3)) if rng.random() < 0.6 else \
                    tuple(rng.choice([None, 0, 1, 2]) for _ in range(3))
            nifti = cls in ('n1', 'n2', 'p1')
            img, data = make_img(cls, shape, A, dim)
            oarg = o.astype(float) if (oi + si) % 2 else o
            case = {'op': 'as_reoriented', 'cls': cls, 'shape': list(shape), 'ornt': ornt2s(o), 'affine': mat2s(A),
                    'dim_info': list(dim) if nifti else None}
            try:
                new = img.as_reoriented(oarg)
                same = new is img
                ndim_info = new.header.get_dim_info() if nifti else ()
                exp = (f'ok same={int(same)} shape={lst(new.shape)} aff={affs(new.affine)} '
                       f'dim={opts2s(ndim_info)} srcs={lst(np.asarray(new.dataobj).ravel())}')
                pred = reorient_predicate(img, data, new, o, nifti)
            except Exception as e:  # a refusal is never expected inside the quantifier
                new = None
                exp = err_enum(e)
                pred = f'as_reoriented raised {e!r}'
            ident = np.array_equal(o, [[0, 1], [1, 1], [2, 1]])
            chk.count(key=('R', cls, shape, ornt2s(o), mat2s(A), dim) if not ident else None,
                      tag=f'R:rank{len(shape)}:{"nifti" if nifti else "analyze"}',
                      sample=case if ri in (7, 150) else None)
            cid = f'R{ri}'
            ri += 1
            add(cid, f'reorient {int(nifti)} {lst(shape)} {ornt2s(o)} {mat2s(A)} {opts2s(dim) if nifti else "()"}',
                exp, case, pred)
            if pred:
                prop_fail(case, pred, exp[:300])

    # ============================================================== (S) slicer
    img_cache = {}

    def slicer_case(tag, shape, ix, A, cls='n1', sample=False):
        ck = (cls, shape, A.tobytes())      # the slicer never modifies its image: reuse it
        if ck not in img_cache:
            if len(img_cache) > 400:
                img_cache.clear()
            img_cache[ck] = make_img(cls, shape, A)
        img, data = img_cache[ck]
        ixs = ix2s(ix)
        case = {'op': 'slicer', 'cls': cls, 'shape': list(shape), 'ix': ixs, 'affine': mat2s(A)}
        pred = None
        try:
            want = data[ix]
        except Exception:
            want = None
        try:
            new = img.slicer[ix]
            out = np.asarray(new.dataobj)
            exp = f'ok shape={lst(new.shape)} aff={affs(new.affine)} srcs={lst(out.ravel())}'
            if want is None or out.shape != want.shape or not np.array_equal(out, want):
                pred = 'sliced image data differ from data[index]'
            else:
                pred, S, J = world_check(new, img.affine, img.shape)
        except Exception as e:
            new = None
            exp = err_enum(e)
            chk.refusal(tag.split(':')[0] + ':' + exp[4:] + (':empty' if want is not None and want.size == 0 else ''))
        try:
            e_aff = 'ok ' + affs(img.slicer.slice_affine(ix))
        except Exception as e:
            e_aff = err_enum(e)
        if new is not None and e_aff != 'ok ' + affs(new.affine):
            pred = pred or 'slice_affine(index) differs from the affine of slicer[index]'
        nontriv = new is not None and np.asarray(new.dataobj).size < data.size or \
            (new is not None and not np.array_equal(np.asarray(new.dataobj), data))
        chk.count(key=('S', shape, ixs, mat2s(A)) if nontriv else None, tag=tag + (':ok' if new is not None else ':refused'),
                  sample=case if sample else None)
        n = len(expect)
        add(f'S{n}.g', f'slicer {lst(shape)} {ixs} {mat2s(A)}', exp, case, pred)
        add(f'S{n}.a', f'slaff {lst(shape)} {ixs} {mat2s(A)}', e_aff, case, pred)
        if new is not None:
            add(f'S{n}.h', f'hyp {lst(shape)} {ixs}', 'ok 1', case, pred)
        if pred:
            prop_fail(case, pred, exp[:300])

    # (S1) one axis at a time, exhaustive
    base = (2, 3, 2)
    for ax in range(3):
        for n in range(1, 6):
            shape = list(base)
            shape[ax] = n
            if (ax + n) % 3 == 0:
                shape.append(2)
            shape = tuple(shape)
            A = FIXED_AFFS[(ax + n) % 3]
            for si, s in enumerate(slices_for(n) + [slice(None, None, 0), slice(1, 3, 0)]):
                ix = (slice(None),) * ax + (s,)
                slicer_case('S1:one-axis', shape, ix, A, cls='n1' if si % 5 else 'spm', sample=(ax == 1 and n == 4 and si == 777))
    # (S2) pairs of representative slices on two spatial axes
    reps = {}
    for n in (2, 3, 4):
        seen = {}
        for s in slices_for(n):
            key = (tuple(range(n)[s]))
            if key and key not in seen:
                seen[key] = s
        reps[n] = list(seen.values())
    for (a, b) in ((0, 1), (0, 2), (1, 2)):
        for (na, nb) in ((3, 4), (4, 2)) if chk.tier == 'quick' else ((3, 4), (4, 2), (4, 4), (2, 3)):
            shape = [2, 2, 2]
            shape[a], shape[b] = na, nb
            for x in reps[na]:
                for y in reps[nb]:
                    ix = [slice(None)] * 3
                    ix[a], ix[b] = x, y
                    slicer_case('S2:two-axes', tuple(shape), tuple(ix), FIXED_AFFS[(a + b) % 3])
    # (S3) random tuples
    for k in range(chk.n(6000, 80000)):
        nd = rng.choice([3, 3, 4, 4, 5])
        shape = tuple(rng.randint(1, 5) for _ in range(nd))
        ix = [rand_slice(rng, shape[i]) for i in range(3)]
        for i in range(3, nd):
            r = rng.random()
            n = shape[i]
            if r < 0.3:
                ix.append(rng.randrange(-n, n) if rng.random() < 0.9 else rng.choice([n, -n - 1]))
            elif r < 0.7:
                ix.append(rand_slice(rng, n))
        r = rng.random()
        if r < 0.06:      # scalar / None in a spatial position: refused
            ix[rng.randrange(3)] = rng.choice([0, None, -1])
        elif r < 0.12:
            ix = ix[:rng.randrange(0, 3)]
        if rng.random() < 0.25 and len(ix) >= 3:
            ix.insert(rng.randrange(3, len(ix) + 1), None)
        if rng.random() < 0.3:
            pos = rng.randrange(0, len(ix) + 1)
            if pos >= 3 or rng.random() < 0.3:
                ix.insert(pos, Ellipsis)
        if rng.random() < 0.02:
            ix.append(0)
        if rng.random() < 0.01 and ix:
            j = rng.randrange(len(ix))
            if isinstance(ix[j], slice):
                ix[j] = slice(ix[j].start, ix[j].stop, 0)
        slicer_case('S3:random', shape, tuple(ix), rand_affine(rng), cls=rng.choice(['n1', 'n1', 'n2', 'ana']), sample=(k == 11))

    # ============================================================== (O) orientation consistency
    ident = np.array([[0, 1], [1, 1], [2, 1]])
    for oi, o in enumerate(ORNTS):
        codes = no.ornt2axcodes(o.astype(float))
        back = no.axcodes2ornt(codes)
        ccodes = ','.join(str(ord(c)) for c in codes)
        add(f'O{oi}.c', f'o2c {ornt2s(o)}', 'ok ' + ccodes)
        add(f'O{oi}.o', f'c2o {ccodes}', 'ok ' + ornt2s(back))
        chk.count(key=('O', 'codes', ornt2s(o)), tag='O:axcodes')
        if not np.array_equal(back, o):
            prop_fail({'op': 'axcodes', 'ornt': ornt2s(o)}, f'axcodes2ornt(ornt2axcodes(o)) = {back.tolist()} != o')
        if len(set(codes)) != 3 or any(c not in 'LRPAIS' for c in codes):
            prop_fail({'op': 'axcodes', 'ornt': ornt2s(o)}, f'axis codes {codes} are not three distinct world directions')
        for si, shape in enumerate([(2, 3, 4), (5, 1, 2), (4, 4, 3, 2)]):
            add(f'O{oi}.i{si}', f'invaff {ornt2s(o)} {lst(shape)}', 'ok ' + affs(no.inv_ornt_aff(o, shape)))
            chk.count(tag='O:inv_ornt_aff')
    # partially dropped axes through the codes
    for oi, rows in enumerate(['1:-1,n,0:1', 'n,n,2:1', '0:1,n']):
        o = np.array([[np.nan, np.nan] if r == 'n' else [float(x) for x in r.split(':')] for r in rows.split(',')])
        codes = no.ornt2axcodes(o)
        cs = ','.join('_' if c is None else str(ord(c)) for c in codes)
        add(f'On{oi}.c', f'o2c {rows}', 'ok ' + cs)
        add(f'On{oi}.o', f'c2o {cs}', 'ok ' + ornt2s(no.axcodes2ornt(codes)))
        chk.count(tag='O:axcodes-dropped')
    darr = np.arange(24).reshape(2, 3, 4)
    for ai, a in enumerate(ORNTS):
        for bi, b in enumerate(ORNTS):
            t = no.ornt_transform(a, b)
            add(f'T{ai}.{bi}', f'otrans {ornt2s(a)} {ornt2s(b)}', 'ok ' + ornt2s(t))
            chk.count(key=('O', 'trans', ai, bi) if ai != bi else None, tag='O:ornt_transform')
            if ai == bi and not np.array_equal(t, ident):
                prop_fail({'op': 'ornt_transform', 'start': ornt2s(a), 'end': ornt2s(b)}, 'ornt_transform(o, o) is not the identity')
            # meaning: an image whose voxel axes have orientation a, reoriented by t, has orientation b
            Aa = np.eye(4)
            Aa[:3, :3] = 0
            for r in range(3):
                Aa[int(a[r, 0]), r] = a[r, 1] * (r + 2)
            got = no.io_orientation(Aa @ no.inv_ornt_aff(t, (2, 3, 4)))
            if not np.array_equal(got, b):
                prop_fail({'op': 'ornt_transform', 'start': ornt2s(a), 'end': ornt2s(b)},
                          f'reorienting an image of orientation start by ornt_transform(start, end) gives orientation {got.tolist()}')
    for _ in range(chk.n(1500, 20000)):
        a, b, c = (ORNTS[rng.randrange(48)] for _ in range(3))
        tab, tbc, tac = no.ornt_transform(a, b), no.ornt_transform(b, c), no.ornt_transform(a, c)
        add(f'K{len(expect)}', f'ocomp {ornt2s(tab)} {ornt2s(tbc)}', 'ok ' + ornt2s(tac))
        chk.count(key=('O', 'comp', ornt2s(a), ornt2s(b), ornt2s(c)), tag='O:composition')
        if not np.array_equal(no.apply_orientation(no.apply_orientation(darr, tab), tbc), no.apply_orientation(darr, tac)):
            prop_fail({'op': 'composition', 'a': ornt2s(a), 'b': ornt2s(b), 'c': ornt2s(c)},
                      'apply(apply(arr, T(a,b)), T(b,c)) != apply(arr, T(a,c))')

    # ============================================================== (C) io_orientation / canonical
    ATOL = Fraction(1e-8)

    def rot_of(aff):
        """the lines of io_orientation before its loop (the oracle), verbatim"""
        import numpy.linalg as npl
        affine = np.asarray(aff)
        q, p = affine.shape[0] - 1, affine.shape[1] - 1
        RZS = affine[:q, :p]
        zooms = np.sqrt(np.sum(RZS * RZS, axis=0))
        zooms[zooms == 0] = 1
        RS = RZS / zooms
        P, S, Qs = npl.svd(RS, full_matrices=False)
        tol = S.max() * max(RS.shape) * np.finfo(S.dtype).eps
        keep = S > tol
        return np.dot(P[:, keep], Qs[keep]), p

    def scaled(R):
        fr = [[Fraction(float(x)) for x in r] for r in R]
        den = max([f.denominator for r in fr for f in r] + [ATOL.denominator])
        return '|'.join(','.join(str(int(f * den)) for f in r) for r in fr), int(ATOL * den)

    def dominant(R):
        """hypothesis of C05_canonical_idempotent: every column has a strictly dominant row above atol, all distinct"""
        R = np.abs(np.asarray(R))
        if R.shape[0] != R.shape[1]:
            return False
        d = []
        for c in range(R.shape[1]):
            k = int(np.argmax(R[:, c]))
            if R[k, c] <= 1e-8 or any(R[i, c] >= R[k, c] for i in range(R.shape[0]) if i != k):
                return False
            d.append(k)
        return len(set(d)) == len(d)

    nhyp = 0
    cstate = {'ci': 0, 'nhyp': 0, 'nscale': 0}
    SCALES = [1e-6, 1e-4, 1e-3, 1.0, 1e3, 1e6]
    ANISO = [(1, 1, 6), (6, 1, 1), (1, 5, 2), (3, 1, 0.5)]

    def canon_case(A, shape, o, exact, tag, base=None, sample=False):
        """io_orientation (loop vs model on the recomputed, zoom-normalised R), as_closest_canonical once
        (voxels keep value and world position) and twice (no change); `base` = (orientation, dominant?) of
        the same affine before a positive rescaling of its voxel sizes, which must not change the answer"""
        ci = cstate['ci']
        cstate['ci'] += 1
        case = {'op': 'as_closest_canonical', 'shape': list(shape), 'affine': A.tolist()}
        R, p = rot_of(A)
        got = no.io_orientation(A)
        rs, at = scaled(R)
        add(f'C{ci}.l', f'ioloop {at} {rs} {p}', 'ok ' + ornt2s(got), case)
        img, data = make_img('n1', shape, A, tuple(rng.sample([0, 1, 2], 3)))
        try:
            c1 = as_closest_canonical(img)
            c2 = as_closest_canonical(c1)
        except Exception as e:
            pred = f'as_closest_canonical raised {e!r} (io_orientation = {got.tolist()})'
            preds[f'C{ci}.l'] = pred
            chk.count(tag=tag)
            prop_fail(case, pred)
            return got, False
        pred = None
        if exact:
            d0 = img.header.get_dim_info()
            add(f'C{ci}.r', f'reorient 1 {lst(shape)} {ornt2s(got)} {mat2s(A)} {opts2s(d0)}',
                f'ok same={int(c1 is img)} shape={lst(c1.shape)} aff={affs(c1.affine)} '
                f'dim={opts2s(c1.header.get_dim_info())} srcs={lst(np.asarray(c1.dataobj).ravel())}', case)
            pred = reorient_predicate(img, data, c1, got, True)
        else:
            # float affine: same voxels, world positions to rounding (relative to the voxel size)
            out = np.asarray(c1.dataobj)
            J = np.indices(out.shape).reshape(out.ndim, -1)
            S = np.array(np.unravel_index(out.ravel(), shape))
            ones = np.ones((1, J.shape[1]))
            wn, wo = c1.affine @ np.vstack([J[:3], ones]), A @ np.vstack([S[:3], ones])
            if out.size != data.size or len(np.unique(out)) != out.size or \
                    not np.allclose(wn, wo, rtol=1e-9, atol=1e-9 * float(np.abs(A[:3, :4]).max())):
                pred = 'canonical image: a voxel was lost or moved in world space'
        dom = dominant(R)
        if dom:
            cstate['nhyp'] += 1
            if no.aff2axcodes(c1.affine) != ('R', 'A', 'S'):
                pred = pred or f'closest canonical image has axis codes {no.aff2axcodes(c1.affine)}'
            if not (c2 is c1 or (np.array_equal(np.asarray(c2.dataobj), np.asarray(c1.dataobj))
                                 and np.array_equal(c2.affine, c1.affine)
                                 and c2.header.get_dim_info() == c1.header.get_dim_info())):
                pred = pred or 'canonicalising twice changed the image although every voxel axis has its own dominant world axis'
            if o is not None and not np.array_equal(got, o):
                pred = pred or f'io_orientation {got.tolist()} is not the dominant-axis orientation {o.tolist()}'
        if base is not None and base[1] and not np.array_equal(got, base[0]):
            pred = pred or (f'io_orientation changes from {base[0].tolist()} to {got.tolist()} under a positive rescaling of the '
                            'voxel sizes (it normalises by the zooms)')
        chk.count(key=('C', mat2s(A) if exact else repr(A.tolist())), tag=tag, sample=case if sample else None)
        preds[f'C{ci}.l'] = pred
        if pred:
            prop_fail(case, pred)
        return got, dom

    for rep in range(chk.n(8, 60)):
        for oi, o in enumerate(ORNTS):
            shape = tuple(rng.randint(1, 4) for _ in range(rng.choice([3, 3, 4])))
            R0 = np.zeros((3, 3))
            for r in range(3):
                R0[int(o[r, 0]), r] = o[r, 1]
            A = np.eye(4)
            kind = (0, 1, 2, 2)[rep % 4]
            if kind == 0:   # integer-valued: exact world comparison
                zo = np.diag([rng.randint(3, 6) for _ in range(3)])
                shear = np.array([[rng.randint(-1, 1) for _ in range(3)] for _ in range(3)])
                A[:3, :3] = R0 @ zo + shear
                A[:3, 3] = [rng.randint(-30, 30) for _ in range(3)]
            elif kind == 1:  # mildly oblique
                noise = np.array([[rng.uniform(-0.15, 0.15) for _ in range(3)] for _ in range(3)])
                A[:3, :3] = (R0 + noise) @ np.diag([rng.uniform(0.5, 3) for _ in range(3)])
                A[:3, 3] = [rng.uniform(-50, 50) for _ in range(3)]
            else:            # strongly oblique / sheared (off-axis components up to ~1), anisotropic voxels
                amp = rng.choice([0.5, 0.8, 1.0, 1.1])
                while True:
                    noise = np.array([[rng.uniform(-amp, amp) for _ in range(3)] for _ in range(3)]) * (R0 == 0)
                    if abs(np.linalg.det(R0 + noise)) > 0.05:
                        break
                A[:3, :3] = (R0 + noise) @ np.diag([rng.choice([0.3, 1, 1, 2, 6]) for _ in range(3)])
                A[:3, 3] = [rng.uniform(-50, 50) for _ in range(3)]
            tag = 'C:canonical:' + ('int', 'oblique', 'sheared')[kind]
            base = canon_case(A, shape, o if kind < 2 else None, kind == 0, tag, sample=(cstate['ci'] == 5))
            # scale sweep: uniform and per-axis positive rescaling of the voxel sizes
            for s in SCALES:
                for an in ((1, 1, 1), ANISO[(oi + rep) % len(ANISO)]):
                    if s == 1.0 and an == (1, 1, 1):
                        continue
                    B = A.copy()
                    B[:3, :3] = A[:3, :3] @ np.diag([s * x for x in an])
                    B[:3, 3] = A[:3, 3] * s
                    canon_case(B, shape, None, False, f'C:scale:{s:g}:' + ('uniform' if an == (1, 1, 1) else 'anisotropic'), base=base)
                    cstate['nscale'] += 1
    nhyp = cstate['nhyp']
    chk.extra['scale_sweep_cases'] = cstate['nscale']
    # general (q, p): dropped axes, zero columns, ties decided on the computed R
    for k in range(chk.n(300, 3000)):
        q, p = rng.choice([(2, 2), (3, 2), (2, 3), (3, 4), (4, 3), (3, 3), (3, 3)])
        M = np.array([[rng.choice([0, 0, 1, -1, 2, -3, 0.5, rng.uniform(-2, 2)]) for _ in range(p)] for _ in range(q)], float)
        if rng.random() < 0.3:
            M[:, rng.randrange(p)] = 0
        A = np.zeros((q + 1, p + 1))
        A[:q, :p] = M
        A[q, p] = 1
        try:
            got = no.io_orientation(A)
            R, pp = rot_of(A)
        except Exception as e:     # all-zero matrix: S.max() of an empty/zero SVD etc.
            chk.refusal('io_orientation:' + type(e).__name__)
            continue
        rs, at = scaled(R)
        add(f'G{k}', f'ioloop {at} {rs} {pp}', 'ok ' + ornt2s(got), {'op': 'io_orientation', 'affine': A.tolist()})
        chk.count(key=('G', repr(A.tolist())), tag=f'C:io_orientation:{q}x{p}')
        # property clause: distinct output axes, every kept axis within range
        kept = [int(r[0]) for r in got if not np.isnan(r[0])]
        if len(set(kept)) != len(kept) or any(not (0 <= x < q) for x in kept):
            prop_fail({'op': 'io_orientation', 'affine': A.tolist()}, f'io_orientation rows {got.tolist()} reuse or exceed output axes')
    chk.extra['idempotence_hypothesis_cases'] = nhyp

    # ============================================================== model run + comparison
    mod = run_model_parallel(PROP, lines, jobs=8)
    ncorr = 0
    nhyp_bad = 0
    for cid, exp in expect.items():
        got = mod.get(cid, '<missing>')
        if got != exp:
            ncorr += 1
            chk.disagreements += 1
            if cid.endswith('.h'):
                nhyp_bad += 1
            if ncorr <= 4 and not preds.get(cid):
                what = ('hypothesis ix_valid of theorem C05_slicer_voxel_world fails on an index the implementation accepts'
                        if cid.endswith('.h') else 'model and implementation disagree; the property predicate holds on this case')
                chk.violation('correspondence', case=info[cid] if isinstance(info[cid], dict) else str(info[cid])[:400],
                              model_output=got[:300], impl_output=exp[:300], predicate=what, found_input=False,
                              theorem=CORR_THM, inputs={'line': [l for l in lines if l.startswith(cid + ' ')][0][:600]})
    chk.extra['model_lines'] = len(lines)
    chk.extra['correspondence_mismatches'] = ncorr
    chk.extra['theorem_hypothesis_mismatches'] = nhyp_bad
    chk.extra['unproved_statements'] = []
    chk.exhaustive = False

    # ============================================================== vm_compute cross-check of the extraction
    pairs = []
    samp = [l for l in lines if ' invaff ' in l][::29][:6] + [l for l in lines if ' slaff ' in l][::1733][:12] + \
           [l for l in lines if ' otrans ' in l][::211][:10] + [l for l in lines if ' reorient ' in l][::173][:8]

    def cq_ornt(s):
        return '[' + ';'.join('(%s, %s)' % tuple(r.split(':')) for r in s.split(',')) + ']'

    def cq_mat(s):
        return '[' + ';'.join('[' + ';'.join(r.split(',')) + ']' for r in s.split('|')) + ']'

    def cq_list(s):
        return '[' + ';'.join(x for x in s.strip('[]').split(',') if x) + ']'

    def cq_opt(v):
        return 'None' if v == '_' else f'(Some ({v}))'

    def cq_ix(s):
        out = []
        for t in ([] if s == '()' else s.split(',')):
            if t == 'n':
                out.append('INew')
            elif t == 'e':
                out.append('IEll')
            elif t[0] == 'i':
                out.append(f'IInt ({t[1:]})')
            else:
                a, b, c = t[1:].split(':')
                out.append(f'ISl (mkSl {cq_opt(a)} {cq_opt(b)} {cq_opt(c)})')
        return '[' + ';'.join(out) + ']'

    for l in samp:
        w = l.split()
        cid, op = w[0], w[1]
        r = mod.get(cid, '')
        if op == 'invaff':
            pairs.append((f'meqb (inv_ornt_aff {cq_ornt(w[2])} {cq_list(w[3])}) {cq_mat(r[3:])}', l))
        elif op == 'slaff':
            call = f'slice_affine {cq_mat(w[4])} {cq_list(w[2])} {cq_ix(w[3])}'
            if r.startswith('ok '):
                pairs.append((f'match {call} with Ok5 m => meqb m {cq_mat(r[3:])} | _ => false end', l))
            else:
                pairs.append((f'match {call} with Err5 _ => true | _ => false end', l))
        elif op == 'otrans' and r.startswith('ok '):
            pairs.append((f'match ornt_transform {cq_ornt(w[2])} {cq_ornt(w[3])} with Ok5 o => ornt_eqb o {cq_ornt(r[3:])} | _ => false end', l))
        elif op == 'reorient' and r.startswith('ok '):
            f = dict(x.split('=') for x in r[3:].split())
            dim = '[' + ';'.join(cq_opt(v) for v in ([] if w[6] == '()' else w[6].split(','))) + ']'
            pairs.append((f'match run_reorient {"true" if w[2] == "1" else "false"} {cq_list(w[3])} {cq_ornt(w[4])} {cq_mat(w[5])} {dim} '
                          f'with Ok5 (_, sh, a, _, srcs) => zeqb sh {cq_list(f["shape"])} && meqb a {cq_mat(f["aff"])} && '
                          f'zeqb srcs {cq_list(f["srcs"])} | _ => false end', l))
    imports = ('From Coq Require Import ZArith List Bool. Import ListNotations. Open Scope Z_scope.\n'
               'From NV Require Import Base.PySlice C06.Model C05.Model.\n'
               'Fixpoint zeqb (a b : list Z) : bool := match a, b with [], [] => true | x :: a\', y :: b\' => (x =? y) && zeqb a\' b\' | _, _ => false end.\n'
               'Fixpoint meqb (a b : list (list Z)) : bool := match a, b with [], [] => true | x :: a\', y :: b\' => zeqb x y && meqb a\' b\' | _, _ => false end.\n')
    ncase, bad = vm_crosscheck(PROP, imports, pairs)
    chk.vm = {'cases': ncase, 'disagreements': len(bad)}
    if bad:
        chk.disagreements += 1
        chk.violation('correspondence', case={'vm_crosscheck': [pairs[b][1][:200] if isinstance(b, int) and b < len(pairs) else str(b)[:300] for b in bad][:5]},
                      predicate='extracted model disagrees with vm_compute evaluation of the model', found_input=False,
                      theorem='extraction cross-check')


def replay(chk, obj):
    ensure_impl_path()
    warnings.simplefilter('ignore')
    c = obj.get('case')
    if isinstance(c, dict) and c.get('op') == 'slicer':
        shape = tuple(c['shape'])
        A = np.array([[float(x) for x in r.split(',')] for r in c['affine'].split('|')])
        img, data = make_img(c['cls'], shape, A)
        ix = s2ix(c['ix'])
        try:
            new = img.slicer[ix]
        except Exception as e:
            print('slicer raised', repr(e), '(a refusal)')
            print('property holds on this case')
            return 0
        bad, _, _ = world_check(new, img.affine, img.shape)
        if not bad and not np.array_equal(np.asarray(new.dataobj), data[ix]):
            bad = 'data differ from data[index]'
        print(bad or 'every voxel keeps value and world position')
        print('property fails on this case' if bad else 'property holds on this case')
        return 1 if bad else 0
    if isinstance(c, dict) and c.get('op') == 'as_reoriented':
        shape = tuple(c['shape'])
        A = np.array([[float(x) for x in r.split(',')] for r in c['affine'].split('|')])
        nifti = c['cls'] in ('n1', 'n2', 'p1')
        img, data = make_img(c['cls'], shape, A, tuple(c['dim_info']) if nifti else None)
        o = np.array([[int(x) for x in r.split(':')] for r in c['ornt'].split(',')])
        try:
            new = img.as_reoriented(o)
            bad = reorient_predicate(img, data, new, o, nifti)
        except Exception as e:
            bad = f'as_reoriented raised {e!r}'
        print(bad or 'every voxel keeps value and world position; dim_info follows')
        print('property fails on this case' if bad else 'property holds on this case')
        return 1 if bad else 0
    if isinstance(c, dict) and c.get('op') == 'as_closest_canonical':
        import nibabel as nib
        from nibabel.funcs import as_closest_canonical
        from nibabel.orientations import aff2axcodes
        A = np.array(c['affine'])
        img, data = make_img('n1', tuple(c['shape']), A)
        try:
            c1 = as_closest_canonical(img)
            c2 = as_closest_canonical(c1)
        except Exception as e:
            print('as_closest_canonical raised', repr(e)[:200])
            print('property fails on this case')
            return 1
        bad = None
        if aff2axcodes(c1.affine) != ('R', 'A', 'S'):
            bad = f'axis codes {aff2axcodes(c1.affine)}'
        elif not (c2 is c1 or (np.array_equal(np.asarray(c2.dataobj), np.asarray(c1.dataobj)) and np.array_equal(c2.affine, c1.affine))):
            bad = 'canonicalising twice changed the image'
        elif is_int_mat(A):
            bad = reorient_predicate(img, data, c1, None, False) if c1 is not img else None
        print(bad or 'canonical image keeps every voxel; second canonicalisation is a no-op')
        print('property fails on this case' if bad else 'property holds on this case')
        return 1 if bad else 0
    if isinstance(c, dict) and c.get('op') in ('ornt_transform', 'composition', 'axcodes', 'io_orientation'):
        from nibabel import orientations as no

        def po(t):
            return np.array([[int(x) for x in r.split(':')] for r in t.split(',')])
        bad = None
        if c['op'] == 'ornt_transform':
            a, b = po(c['start']), po(c['end'])
            t = no.ornt_transform(a, b)
            Aa = np.eye(4)
            Aa[:3, :3] = 0
            for r in range(3):
                Aa[int(a[r, 0]), r] = a[r, 1] * (r + 2)
            got = no.io_orientation(Aa @ no.inv_ornt_aff(t, (2, 3, 4)))
            if np.array_equal(a, b) and not np.array_equal(t, [[0, 1], [1, 1], [2, 1]]):
                bad = f'ornt_transform(o, o) = {t.tolist()}'
            elif not np.array_equal(got, b):
                bad = f'reorienting by ornt_transform(start, end) gives orientation {got.tolist()}, not end'
        elif c['op'] == 'composition':
            a, b, cc = po(c['a']), po(c['b']), po(c['c'])
            d = np.arange(24).reshape(2, 3, 4)
            if not np.array_equal(no.apply_orientation(no.apply_orientation(d, no.ornt_transform(a, b)), no.ornt_transform(b, cc)),
                                  no.apply_orientation(d, no.ornt_transform(a, cc))):
                bad = 'apply(apply(arr, T(a,b)), T(b,c)) != apply(arr, T(a,c))'
        elif c['op'] == 'axcodes':
            o = po(c['ornt'])
            codes = no.ornt2axcodes(o.astype(float))
            if not np.array_equal(no.axcodes2ornt(codes), o) or len(set(codes)) != 3:
                bad = f'axis codes {codes} do not give the orientation back'
        else:
            got = no.io_orientation(np.array(c['affine']))
            kept = [int(r[0]) for r in got if not np.isnan(r[0])]
            if len(set(kept)) != len(kept):
                bad = f'io_orientation rows {got.tolist()} reuse an output axis'
        print(bad or 'consistent')
        print('property fails on this case' if bad else 'property holds on this case')
        return 1 if bad else 0
    if obj.get('inputs') and obj['inputs'].get('probe_fn'):
        import defect_probes
        r = defect_probes.PROBES[obj['inputs']['probe_fn']]()
        print('defect present' if r else 'defect absent')
        return 1 if r else 0
    print('nothing to replay on the implementation:', (obj.get('predicate') or '')[:300])
    return 1
