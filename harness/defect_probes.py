"""One tiny, deterministic probe per defect recorded in known_findings.json.

Each probe returns True when the DEFECT IS PRESENT on the tree under
PYTHONPATH.  The per-property checks call the probes of their property on
every run: a probe of a `fixed` entry that fires again is a VIOLATION (the
defect has returned); a probe of a `known` entry that fires prints
KNOWN-FINDING.  Run directly to list the state of every probe.
"""
import errno
import io
import os
import sys
import tempfile
import warnings

import numpy as np

warnings.simplefilter('ignore')


def _nib():
    import nibabel
    return nibabel


# ---------------------------------------------------------------- C06 / C03 / C05
def S_C06a():
    from nibabel.fileslice import fill_slicer
    s = fill_slicer(slice(-7, None), 5)
    return len(range(5)[slice(s.start, s.stop, s.step)]) != 5


def S_C06b():
    from nibabel.fileslice import fileslice
    a = np.arange(5, dtype='u1')
    r = fileslice(io.BytesIO(a.tobytes()), (slice(0, 1, -2),), (5,), a.dtype)
    return r.shape != a[0:1:-2].shape


def S_C06c():
    from nibabel.fileslice import read_segments
    try:
        r = read_segments(io.BytesIO(b'x' * 100), [[18, 0], [42, 0]], 0)
    except OSError:
        return True
    return len(r) != 0


def S_C06d():
    from nibabel.fileslice import fileslice
    a = np.arange(12, dtype='u1').reshape(3, 4)
    try:
        fileslice(io.BytesIO(a.tobytes()), (-4,), a.shape, a.dtype)
    except (ValueError, IndexError):
        return False
    return True


def make_multi_ecat(path, nfr=3):
    import glob
    from nibabel.ecat import EcatImage, EcatHeader
    p = os.path.join(os.path.dirname(_nib().__file__), 'tests', 'data', 'tinypet.v')
    raw = open(p, 'rb').read()
    img = EcatImage.load(p)
    ml = img.get_mlist()
    sub = raw[1024:1536]
    data = raw[1536:1536 + 600]
    h2 = EcatHeader(raw[:512])
    h2['num_frames'] = nfr
    main = h2.binaryblock
    dirblk = np.zeros((128,), dtype='>i4').reshape(32, 4)
    dirblk[0] = [31 - nfr, 2, 0, nfr]
    cur = 3
    frames = b''
    oid = int(ml[0][0])
    for i in range(nfr):
        fid = (oid & ~0x1FF) | (i + 1)
        d = (np.frombuffer(data, '>i2') + 100 * i).astype('>i2').tobytes()
        dirblk[i + 1] = [fid, cur, cur + 2, 1]
        frames += sub + d + b'\0' * (1024 - len(d))
        cur += 3
    with open(path, 'wb') as f:
        f.write(main + dirblk.tobytes() + frames)


def S_C03a():
    from nibabel.ecat import EcatImage
    with tempfile.TemporaryDirectory() as d:
        p = os.path.join(d, 'multi.v')
        make_multi_ecat(p)
        m = EcatImage.load(p)
        full = np.asarray(m.dataobj)
        for sl in (np.s_[..., 1:], np.s_[..., ::-1]):
            try:
                if not np.array_equal(m.dataobj[sl], full[sl]):
                    return True
            except IndexError:
                return True
    return False


def S_C05a():
    nib = _nib()
    img = nib.Nifti1Image(np.arange(24, dtype='i2').reshape(2, 3, 4), np.diag([2., 3, 4, 1]))
    s = img.slicer[::-1]
    return not np.allclose(s.affine @ [0, 0, 0, 1], img.affine @ [1, 0, 0, 1])


# ---------------------------------------------------------------- C07 / C09
class _Failing(io.BytesIO):
    def __init__(self, k):
        super().__init__()
        self.k = k
        self.n = 0

    def _tick(self):
        self.n += 1
        if self.n == self.k:
            raise OSError(errno.ENOSPC, 'no space')

    def write(self, b):
        self._tick()
        return super().write(b)

    def seek(self, *a):
        self._tick()
        return super().seek(*a)


def S_C07a():
    nib = _nib()
    from nibabel.fileholders import FileHolder
    a = np.linspace(-100, 100, 24).reshape(2, 3, 4)
    img = nib.Nifti1Image(a, np.eye(4))
    img.set_data_dtype(np.int16)
    before = img.header.binaryblock
    try:
        img.to_file_map({'image': FileHolder(fileobj=_Failing(3)), 'header': FileHolder(fileobj=_Failing(3))})
    except OSError:
        pass
    return img.header.binaryblock != before


def _run_child_probe(code):
    """run probe code in a child process inside a scratch directory that is removed afterwards, also
    when the child dies; True = defect present (crash or wrong result)"""
    import shutil
    import subprocess
    d = tempfile.mkdtemp(prefix='verif_probe_')
    try:
        env = dict(os.environ, VERIF_PROBE_DIR=d)
        r = subprocess.run([sys.executable, '-c', code], capture_output=True, text=True, env=env, timeout=120)
        return r.returncode != 0 or 'OK' not in r.stdout
    finally:
        shutil.rmtree(d, ignore_errors=True)


def S_C09a():
    """save(load(p), p) on a plain file: run in a child, crash or wrong data = present."""
    import subprocess
    code = r'''
import numpy as np, nibabel as nib, sys, os, tempfile
d=os.environ['VERIF_PROBE_DIR']; p=os.path.join(d,'a.nii')
a=np.arange(40000,dtype='f8').reshape(100,20,20)
nib.save(nib.Nifti1Image(a,np.eye(4)),p)
img=nib.load(p); nib.save(img,p)
b=np.asarray(nib.load(p).dataobj)
print('OK' if np.array_equal(a,b) else 'WRONG')
'''
    return _run_child_probe(code)


def S_C09d():
    """An image built around np.asarray(img.dataobj) (a base-class view of the memory map) saved onto the mapped
    file: run in a child; a crash (SIGBUS) or a wrong file = present."""
    import subprocess
    code = r'''
import numpy as np, nibabel as nib, sys, os, tempfile, warnings
warnings.simplefilter('ignore')
d = os.environ['VERIF_PROBE_DIR']
ok = True
for big in (True, False):
    for how in ('asarray', 'view'):
        p = os.path.join(d, 'v_%s_%d.nii' % (how, big))
        a = (np.arange(4096 if big else 24) % 97 + 1.).reshape((16, 16, 16) if big else (2, 3, 4))
        nib.save(nib.Nifti1Image(a, np.eye(4)), p)
        img = nib.load(p)
        arr = np.asarray(img.dataobj) if how == 'asarray' else np.asanyarray(img.dataobj).view(np.ndarray)
        nib.save(nib.Nifti1Image(arr, img.affine), p)
        ok = ok and np.array_equal(np.asarray(nib.load(p).dataobj), a)
print('OK' if ok else 'WRONG')
'''
    return _run_child_probe(code)


def S_C09e():
    """An image built around a memory map of a file and saved onto that file with a narrower dtype: the image must
    still hold its data afterwards.  Run in a child; a crash (SIGBUS) or wrong values = present."""
    import subprocess
    code = r'''
import numpy as np, nibabel as nib, sys, os, tempfile, warnings
warnings.simplefilter('ignore')
d = os.environ['VERIF_PROBE_DIR']
ok = True
for big in (False, True):
    for how in ('fdata', 'asanyarray', 'asarray'):
        p = os.path.join(d, 'e_%s_%d.nii' % (how, big))
        a = (np.arange(4096 if big else 24) % 97 + 1.).reshape((16, 16, 16) if big else (2, 3, 4))
        nib.save(nib.Nifti1Image(a, np.eye(4)), p)
        img = nib.load(p)
        arr = {'fdata': img.get_fdata, 'asanyarray': lambda: np.asanyarray(img.dataobj),
               'asarray': lambda: np.asarray(img.dataobj)}[how]()
        new = nib.Nifti1Image(arr, img.affine, img.header)
        new.set_data_dtype(np.float32)
        nib.save(new, p)
        ok = ok and np.array_equal(np.asarray(nib.load(p).dataobj), a) and np.array_equal(np.asanyarray(new.dataobj), a) \
            and np.array_equal(new.get_fdata(), a)
print('OK' if ok else 'WRONG')
'''
    return _run_child_probe(code)


def S_C09c():
    """Own-file save with a dtype change, or re-save of a scaled file: image unusable/wrong afterwards."""
    import tempfile, shutil
    import nibabel as nib
    d = tempfile.mkdtemp()
    try:
        bad = False
        a = np.arange(24, dtype='f8').reshape(2, 3, 4)
        for klass, ext in ((nib.Nifti1Image, '.nii'), (nib.AnalyzeImage, '.img'), (nib.MGHImage, '.mgh')):
            for d0, d1 in (('f4', 'i2'), ('i2', 'f4'), ('f4', 'u1')):
                p = os.path.join(d, 'a_%s_%s%s' % (d0, d1, ext))
                src = a.astype(d0)
                try:
                    img = klass(src, np.eye(4))
                    img.set_data_dtype(d0)
                    nib.save(img, p)
                    h = nib.load(p)
                    h.set_data_dtype(d1)
                except Exception:
                    continue  # combination the format does not support
                nib.save(h, p)
                try:
                    got = h.get_fdata()
                except Exception:
                    bad = True
                    continue
                ref = nib.load(p).get_fdata()
                if not np.allclose(got, a, atol=0.51) or not np.allclose(ref, a, atol=0.51):
                    bad = True
        return bad
    finally:
        shutil.rmtree(d, ignore_errors=True)


# ---------------------------------------------------------------- C12
def S_C12a():
    from nibabel.filename_parser import types_filenames
    r = types_filenames('f.Nii.gz', (('image', '.nii'),), trailing_suffixes=('.gz', '.bz2'))
    return r['image'] != 'f.Nii.gz'


# ---------------------------------------------------------------- C15
def S_C15a():
    from nibabel.streamlines.array_sequence import ArraySequence
    seq = ArraySequence([np.full((2, 3), 1.), np.full((2, 3), 2.), np.full((2, 3), 3.)])
    v = seq[:1]
    v.append(np.full((2, 3), 9.))
    return not np.array_equal(seq[1], np.full((2, 3), 2.))


def S_C15b():
    from nibabel.streamlines.array_sequence import ArraySequence
    seq = ArraySequence([np.full((2, 3), 1.), np.full((2, 3), 2.), np.full((2, 3), 3.)])
    v = seq[:]
    v += 10
    vals = [float(np.asarray(x)[0, 0]) for x in seq]
    return vals not in ([1., 2., 3.], [11., 12., 13.])


def S_C15c():
    from nibabel.streamlines.array_sequence import ArraySequence
    try:
        ArraySequence([np.zeros((0, 3)), np.zeros((0, 3))]).copy()
    except TypeError:
        return True
    return False


# ---------------------------------------------------------------- C16 / C08
def _trk_bytes(n=3):
    from nibabel.streamlines import Tractogram, TrkFile
    sl = [np.arange(6, dtype='f4').reshape(2, 3) + i for i in range(n)]
    b = io.BytesIO()
    TrkFile(Tractogram(sl, affine_to_rasmm=np.eye(4))).save(b)
    return b.getvalue()


def S_C16a():
    from nibabel.streamlines import TrkFile, TckFile, Tractogram
    out = False
    sl = [np.arange(6, dtype='f4').reshape(2, 3)]
    for cls in (TrkFile, TckFile):
        b = io.BytesIO()
        start = 0
        cls(Tractogram(sl, affine_to_rasmm=np.eye(4))).save(b)
        b.seek(start)
        cls.load(b)
        out |= b.tell() != start
    return out


def S_C08a():
    from nibabel.streamlines import TrkFile
    raw = _trk_bytes(3)
    cut = raw[:1000 + (4 + 24)]  # header + exactly one record
    try:
        t = TrkFile.load(io.BytesIO(cut))
        return len(t.streamlines) != 3
    except Exception:
        return False


# ---------------------------------------------------------------- C17 / C18 / C20 / C02
def S_C17a():
    from nibabel.gifti import GiftiImage, GiftiDataArray
    img = GiftiImage()
    for it in ('NIFTI_INTENT_SHAPE', 'NIFTI_INTENT_SHAPE', 'NIFTI_INTENT_TIME_SERIES'):
        img.add_gifti_data_array(GiftiDataArray(np.zeros(3, 'f4'), intent=it))
    img.remove_gifti_data_array_by_intent('NIFTI_INTENT_SHAPE')
    return len(img.darrays) != 1


def S_C18a():
    from nibabel.cifti2.cifti2_axes import SeriesAxis
    return len(SeriesAxis(0, 1, 5)[::2]) != 3 or len(SeriesAxis(0, 1, 5)[-7:]) != 5


def S_C20a():
    from nibabel.parrec import PARRECHeader
    import nibabel.tests
    p = os.path.join(os.path.dirname(_nib().__file__), 'tests', 'data', 'T2_-interleaved.PAR')
    if not os.path.exists(p):
        p = os.path.join(os.path.dirname(_nib().__file__), 'tests', 'data', 'phantom_EPI_asc_CLEAR_2_1.PAR')
    with open(p) as f:
        lines = f.read().split('\n')
    # drop the last image-definition line
    idx = [i for i, l in enumerate(lines) if l and not l.startswith(('#', '.')) and len(l.split()) > 20]
    lines2 = lines[:idx[-1]] + lines[idx[-1] + 1:]
    hdr = PARRECHeader.from_fileobj(io.StringIO('\n'.join(lines2)), permit_truncated=True, strict_sort=True)
    order = hdr.get_sorted_slice_indices()
    from nibabel.parrec import vol_numbers, vol_is_full
    sn = hdr.image_defs['slice number']
    # every returned record must belong to a complete volume
    vols = np.asarray(vol_numbers(sn))
    full = np.asarray(vol_is_full(sn, hdr.general_info['max_slices']))
    # recompute completeness on the strict-sorted keys is what the code does; use record-level truth:
    keys = hdr._strict_sort_order() if hasattr(hdr, '_strict_sort_order') else order
    return not _complete_only(hdr, order)


def _complete_only(hdr, order):
    """records selected by `order` form only complete volumes (each has max_slices distinct slices)"""
    d = hdr.image_defs
    names = [n for n in ('echo number', 'dynamic scan number', 'cardiac phase number', 'gradient orientation number',
                         'diffusion b value number', 'label type', 'image_type_mr', 'scanning sequence')
             if n in d.dtype.names]
    from collections import defaultdict
    groups = defaultdict(set)
    for r in order:
        key = tuple(np.asarray(d[n][r]).tolist() if np.ndim(d[n][r]) else d[n][r].item() for n in names)
        groups[key].add(int(d['slice number'][r]))
    ms = hdr.general_info['max_slices']
    return all(len(s) == ms for s in groups.values())


def S_C02a():
    nib = _nib()
    a = np.full((2, 2, 2), 16777219.0, dtype='f8')
    img = nib.Nifti1Image(a, np.eye(4))
    img.set_data_dtype(np.uint8)
    b = io.BytesIO()
    try:
        raw = img.to_bytes()
    except Exception:
        return False
    back = np.asarray(nib.Nifti1Image.from_bytes(raw).dataobj)
    step = abs(float(nib.Nifti1Image.from_bytes(raw).dataobj.slope))
    return bool(np.abs(back - a).max() > step + 8)  # 16777219 is 3 away from the nearest float32


def S_C19b():
    from nibabel.freesurfer.io import write_annot, read_annot
    with tempfile.TemporaryDirectory() as d:
        p = os.path.join(d, 'a.annot')
        labels = np.array([0, 1, 2, -1, 1])
        ctab = np.array([[10, 20, 30, 0], [10, 40, 50, 0], [200, 1, 2, 0]], dtype=np.uint8)
        write_annot(p, labels, ctab, ['a', 'b', 'c'], fill_ctab=True)
        got, _, _ = read_annot(p)
    return got.tolist() != labels.tolist()


def _c02_rt(klass, arr, out):
    from nibabel.fileholders import FileHolder
    hdr = klass.header_class()
    hdr.set_data_dtype(out)
    img = klass(arr, np.eye(4), header=hdr)
    fm = {k: FileHolder(fileobj=io.BytesIO()) for k in klass.make_file_map()}
    with warnings.catch_warnings():
        warnings.simplefilter('ignore')
        img.to_file_map(fm)
    fm2 = {k: FileHolder(fileobj=io.BytesIO(v.fileobj.getvalue())) for k, v in fm.items()}
    img2 = klass.from_file_map(fm2)
    return np.asarray(img2.dataobj), img2


def S_C02b():
    from nibabel.freesurfer.mghformat import MGHImage
    try:
        back, _ = _c02_rt(MGHImage, np.array([.4, 1e6, -7, 3.3], 'f4').reshape(4, 1, 1), np.int16)
    except Exception:
        return False        # a refusal would be the repair
    return bool(abs(float(back.ravel()[1]) - 1e6) > 1.0)


def S_C02c():
    import nibabel as nib
    a = np.array([1.8371022867298352e-41, -4.4047014629121975e-41, 7.698173243614815e-41], 'f4').reshape(3, 1, 1)
    try:
        back, img2 = _c02_rt(nib.Nifti1Image, a, np.int16)
    except Exception:
        return False
    step = abs(float(img2.dataobj.slope))
    return bool(np.abs(back.ravel().astype('f8') - a.ravel().astype('f8')).max() > 2 * step)


def S_C02d():
    from nibabel.analyze import AnalyzeImage
    try:
        back, _ = _c02_rt(AnalyzeImage, np.array([0., np.inf, -np.inf], 'f4').reshape(3, 1, 1), np.int16)
    except Exception:
        return False
    return bool(np.abs(back).max() > 1)



# ---------------------------------------------------------------- C03 (zero-size read path, MINC1 scalar index)
def S_C03b():
    """np.asarray(proxy) of a zero-size image must keep the image shape without memory mapping too"""
    nib = _nib()
    with tempfile.TemporaryDirectory() as d:
        for ext in ('z.nii', 'z.nii.gz'):
            p = os.path.join(d, ext)
            nib.Nifti1Image(np.zeros((0, 3, 4), 'i2'), np.eye(4)).to_filename(p)
            for mm in (True, False):
                if np.asarray(nib.load(p, mmap=mm).dataobj).shape != (0, 3, 4):
                    return True
    return False


def S_C03c():
    """MINC1 int16 data: an integers-only index must give the same value as the loaded array"""
    nib = _nib()
    from nibabel.externals.netcdf import netcdf_file
    with tempfile.TemporaryDirectory() as d:
        p = os.path.join(d, 'm.mnc')
        shape, names = (2, 3, 4), ('zspace', 'yspace', 'xspace')
        f = netcdf_file(p, 'w')
        for nm, ln in zip(names, shape):
            f.createDimension(nm, ln)
        for nm in names:
            v = f.createVariable(nm, 'i', ())
            v.spacing = b'regular__'
            v.step = 1.0
            v.start = 0.0
        im = f.createVariable('image', 'h', names)
        im.signtype = b'signed__'
        im.valid_range = np.array([0, 4095], dtype=np.float64)
        im[:] = (np.arange(24) * 7 + 300).astype('>i2').reshape(shape)
        for nm, val in (('image-min', 0.0), ('image-max', 4095.0)):
            v = f.createVariable(nm, 'd', ())
            v[...] = val
        f.close()
        img = nib.load(p)
        full = np.asarray(img.dataobj)
        return bool(img.dataobj[1, 2, 3] != full[1, 2, 3] or img.dataobj[0, 0, 0] != full[0, 0, 0])


def S_C13a():
    """a proxy built from an Spm99AnalyzeHeader must not follow later edits of that header's slope"""
    nib = _nib()
    from nibabel.arrayproxy import ArrayProxy
    with tempfile.TemporaryDirectory() as d:
        p = os.path.join(d, 'x.img')
        h = nib.Spm99AnalyzeHeader()
        h.set_data_dtype(np.int16)
        h.set_data_shape((2, 3, 4))
        h.set_slope_inter(2.0)
        with open(p, 'wb') as f:
            f.write(np.arange(24, dtype=np.int16).tobytes())
        prox = ArrayProxy(p, h)
        before = np.array(np.asarray(prox))
        h.set_slope_inter(7.0)
        return not np.array_equal(np.asarray(prox), before)


def S_C16b():
    from nibabel.streamlines import TrkFile, TckFile, Tractogram
    sl = [np.arange(6, dtype='f4').reshape(2, 3) + i for i in range(3)]
    bad = False
    for cls in (TrkFile, TckFile):
        b = io.BytesIO()
        cls(Tractogram(sl, affine_to_rasmm=np.eye(4))).save(b)
        b.seek(0)
        t = cls.load(b, lazy_load=True)
        bad |= b.tell() != 0
        list(t.streamlines)
        bad |= b.tell() != 0
    return bad


def S_C11a():
    nib = _nib()
    from nibabel.nifti1 import Nifti1Extension
    img = nib.Nifti1Image(np.arange(24, dtype='i2').reshape(2, 3, 4), np.eye(4))
    img.header.extensions.append(Nifti1Extension(6, b'hello'))
    img.header.set_data_offset(352 + 16 + 32)
    try:
        im2 = nib.Nifti1Image.from_bytes(img.to_bytes())
    except Exception:
        return True
    return [(e.get_code(), e.get_content()) for e in im2.header.extensions] != [(6, b'hello')] or \
        not np.array_equal(np.asarray(im2.dataobj), np.asarray(img.dataobj))


def S_C18b():
    from nibabel.cifti2 import cifti2_axes as ax
    bm = ax.BrainModelAxis.from_mask(np.ones(5, dtype=bool), name='CortexLeft')
    try:
        return len(bm[5:]) != 0 or len(bm[np.zeros(5, dtype=bool)]) != 0
    except ValueError:
        return True


def S_C18d():
    from nibabel.cifti2 import Cifti2Header, cifti2_axes as ax
    la = ax.LabelAxis(['a', 'b'], [{1: ('x', (1., 0., 0., 1.))}, {}])
    hdr = Cifti2Header.from_axes((la, ax.SeriesAxis(0, 1, 3)))
    try:
        back = Cifti2Header.from_xml(hdr.to_xml()).get_axis(0) if hasattr(Cifti2Header, 'from_xml') else None
        if back is None:
            from nibabel.cifti2.parse_cifti2 import Cifti2Parser
            p = Cifti2Parser()
            p.parse(string=hdr.to_xml())
            back = p.header.get_axis(0)
    except AttributeError:
        return True
    return not (back == la)


def S_C15e():
    from nibabel.streamlines import Tractogram
    sl = [np.arange(6, dtype='f4').reshape(2, 3), np.arange(9, dtype='f4').reshape(3, 3)]
    a = Tractogram(sl, data_per_point={'c': [np.ones((2, 1)), np.ones((3, 1))]}, data_per_streamline={'m': np.ones((2, 1))})
    s = Tractogram() + a
    s.data_per_point['c'][0] = 77
    s.data_per_streamline['m'][0] = 77
    return bool(np.asarray(a.data_per_point['c'][0]).max() == 77 or np.asarray(a.data_per_streamline['m'][0]).max() == 77)


def _c15_seq(vals):
    from nibabel.streamlines.array_sequence import ArraySequence
    return ArraySequence([np.array([[v, v] for v in e], dtype='f8').reshape(len(e), 2) for e in vals])


def S_C15f():
    # a refused append (trailing-shape mismatch) must not detach the view it was applied to
    p = _c15_seq([[1, 2], [3], [4, 5, 6]])
    v = p[1:]
    try:
        v.append(np.zeros((1, 5)))
    except ValueError:
        pass
    v[0] = 99
    return bool(not np.shares_memory(np.asarray(v[0]), np.asarray(p[1])) or np.asarray(p[1])[0, 0] != 99)


def S_C15g():
    # shrink_data() on a view must not truncate the buffer it shares with its parent
    p = _c15_seq([[1, 2], [3], [4, 5, 6]])
    v = p[:1]
    v.shrink_data()
    return [len(np.asarray(x)) for x in p] != [2, 1, 3]


def S_C15h():
    # concatenate(axis=1) of sliced views must join the views' own elements
    from nibabel.streamlines.array_sequence import concatenate
    p = _c15_seq([[1, 2], [3], [4, 5, 6]])
    q = _c15_seq([[10, 20], [30], [40, 50, 60]])
    try:
        c = concatenate([p[1:], q[1:]], axis=1)
    except ValueError:
        return True
    got = [np.asarray(x).tolist() for x in c]
    return got != [[[3, 3, 30, 30]], [[4, 4, 40, 40], [5, 5, 50, 50], [6, 6, 60, 60]]]


def S_C15i():
    # every append of a cached build must check the trailing shape
    from nibabel.streamlines.array_sequence import ArraySequence
    s = ArraySequence()
    s.append(np.ones((2, 2)), cache_build=True)
    try:
        s.append(np.full((1, 1), 5.), cache_build=True)
    except ValueError:
        return False
    return True


def S_C15j():
    # a refused extend must keep the elements before the refusal and leave a usable sequence
    s = _c15_seq([[1, 2]])
    try:
        s.extend([np.full((1, 2), 3.), np.zeros((1, 5))])
    except ValueError:
        pass
    s.append(np.full((1, 2), 4.))
    return ([float(np.asarray(x)[0, 0]) for x in s] != [1., 3., 4.]
            or getattr(s, '_build_cache', None) is not None)


def S_C15k():
    # apply_affine on a view with repeated indices must transform only the streamlines the view holds
    from nibabel.streamlines import Tractogram
    t = Tractogram([np.full((1, 3), float(v)) for v in (1, 2, 3)], affine_to_rasmm=np.eye(4))
    v = t[[0, 0, 0]]
    aff = np.eye(4)
    aff[:3, 3] = 100
    v.apply_affine(aff)
    got = [float(np.asarray(x)[0, 0]) for x in t.streamlines]
    return got[1:] != [2., 3.]


def S_C16d():
    from nibabel.streamlines import TrkFile, Tractogram
    z = 1.000005
    aff = np.diag([z, z, z, 1.])
    aff[:3, 3] = 0.5 * z
    sl = [np.array([[100., 200., -150.], [1., 2., 3.]], dtype='f4')]
    hdr = {'voxel_to_rasmm': aff, 'voxel_sizes': (1., 1., 1.), 'dimensions': (10, 10, 10), 'voxel_order': 'RAS'}
    b = io.BytesIO()
    TrkFile(Tractogram(sl, affine_to_rasmm=np.eye(4)), header=hdr).save(b)
    b.seek(0)
    eager = [np.asarray(s) for s in TrkFile.load(b).streamlines]
    b.seek(0)
    lazy = [np.asarray(s) for s in TrkFile.load(b, lazy_load=True).streamlines]
    # lazy and eager must agree to single precision (before the fix they differed by 5e-6 relative)
    return not all(np.allclose(e, l, rtol=5e-7, atol=0) for e, l in zip(eager, lazy))


def S_C08b():
    """TckFile.save must refuse a point that is all inf (read back as the end-of-file marker: a file cut
    right after it loaded silently with fewer streamlines) or all NaN (read back as a delimiter)"""
    from nibabel.streamlines import TckFile, Tractogram
    for bad in ([np.inf, -np.inf, np.inf], [np.nan] * 3):
        sl = [np.array([[1., 2., 3.]], dtype='f4'), np.array([bad, [4., 5., 6.]], dtype='f4'), np.array([[7., 8., 9.]], dtype='f4')]
        try:
            TckFile(Tractogram(sl, affine_to_rasmm=np.eye(4))).save(io.BytesIO())
            return True
        except Exception:
            pass
    return False


def S_C16c():
    """items of a lazily loaded TRK must carry the RAS+mm points (they carried the raw voxmm
    points); saving the lazily loaded tractogram as TCK must write the RAS+mm points"""
    from nibabel.streamlines import TrkFile, TckFile, Tractogram
    aff = np.array([[2., 0, 0, 5], [0, 2, 0, -3], [0, 0, 2, 7], [0, 0, 0, 1]])
    sl = [np.array([[1., 2., 3.], [4., 5., 6.]], dtype='f4'), np.array([[7., 8., 9.]], dtype='f4')]
    hdr = {'voxel_to_rasmm': aff, 'voxel_sizes': (2., 2., 2.), 'dimensions': (10, 20, 30), 'voxel_order': 'RAS'}
    b = io.BytesIO()
    TrkFile(Tractogram(sl, affine_to_rasmm=np.eye(4)), header=hdr).save(b)
    raw = b.getvalue()
    eager = [np.asarray(s) for s in TrkFile.load(io.BytesIO(raw)).streamlines]
    lazy_t = TrkFile.load(io.BytesIO(raw), lazy_load=True).tractogram
    items = [np.asarray(it.streamline) for it in lazy_t]
    bad = len(items) != len(eager) or not all(np.allclose(i, e, rtol=1e-5, atol=1e-5) for i, e in zip(items, eager))
    o = io.BytesIO()
    TckFile(TrkFile.load(io.BytesIO(raw), lazy_load=True).tractogram).save(o)
    back = [np.asarray(s) for s in TckFile.load(io.BytesIO(o.getvalue())).streamlines]
    bad |= len(back) != len(sl) or not all(np.allclose(x, e, rtol=1e-5, atol=1e-5) for x, e in zip(back, sl))
    return bool(bad)


def S_C17d():
    from nibabel.gifti import GiftiImage, GiftiLabel, GiftiLabelTable
    from nibabel.gifti.parse_gifti_fast import GiftiImageParser
    img = GiftiImage()
    lab = GiftiLabel(key=3, red=1., green=0., blue=0., alpha=1.)
    lab.label = ''
    img.labeltable.labels.append(lab)
    p = GiftiImageParser()
    p.parse(string=img.to_xml())
    try:
        return p.img.labeltable.get_labels_as_dict() != {3: ''}
    except AttributeError:
        return True


def S_C07b():
    nib = _nib()
    img = nib.Nifti1Image(np.arange(24, dtype='i4').reshape(2, 3, 4), np.eye(4))
    img.set_data_dtype('smallest')
    before = img.header.binaryblock
    img.to_bytes()
    return img.header.binaryblock != before


def S_C12b():
    from nibabel.freesurfer.mghformat import MGHImage
    fm = MGHImage.filespec_to_file_map('d/.MGZ')
    return fm['image'].filename != 'd/.MGZ'


def S_C04d():
    """NIfTI-2 qform of an exact 180 degree rotation about a non-coordinate axis: get_qform raised
    ValueError('w2 should be positive') or came back with an error of ~sqrt(eps64)."""
    nib = _nib()
    eps = float(np.finfo(np.float64).eps)
    bad = 0
    for k in range(1, 201):
        v = np.array([np.sin(1.7 * k) + 0.3, np.cos(2.9 * k) - 0.2, np.sin(0.61 * k + 1.0) + 0.1])
        v /= np.linalg.norm(v)
        A = np.eye(4)
        A[:3, :3] = (2.0 * np.outer(v, v) - np.eye(3)) @ np.diag([1.0, 2.0, 3.0])
        h = nib.Nifti2Header()
        h.set_qform(A, 1)
        try:
            Q = h.get_qform()
        except ValueError:
            bad += 1
            continue
        if (np.abs(Q - A)[:3, :3].max(axis=0) / np.array([1.0, 2.0, 3.0])).max() > 64 * eps:
            bad += 1
    return bad > 0


# ---- to be added to harness/defect_probes.py (before the PROBES = {...} line) once the repairs are committed
def _c20_truncated_header(fixture, ndrop, strict):
    """PARRECHeader of a fixture with its last `ndrop` image-definition lines removed, permit_truncated=True"""
    from nibabel.parrec import PARRECHeader
    p = os.path.join(os.path.dirname(_nib().__file__), 'tests', 'data', fixture)
    with open(p) as f:
        lines = f.read().split('\n')
    idx = [i for i, l in enumerate(lines) if l and not l.startswith(('#', '.')) and len(l.split()) > 20]
    drop = set(idx[len(idx) - ndrop:])
    text = '\n'.join(l for i, l in enumerate(lines) if i not in drop)
    import warnings
    with warnings.catch_warnings():
        warnings.simplefilter('ignore')
        return PARRECHeader.from_fileobj(io.StringIO(text), permit_truncated=True, strict_sort=strict)


def S_C20b():
    """slice-major multi-echo recording, last 5 records missing: an incomplete volume is not last in key order"""
    hdr = _c20_truncated_header('T1_3echo_mag_real_imag_phase.PAR', 5, True)
    return not _complete_only(hdr, hdr.get_sorted_slice_indices()) or hdr.get_data_shape()[3:] != (7,)


def S_C20c():
    """fewer records than one volume: nothing complete to return"""
    from nibabel.parrec import PARRECError
    for strict in (True, False):
        try:
            hdr = _c20_truncated_header('T2_.PAR', 15, strict)      # 20 records, 10 slices: 5 records left
        except PARRECError:
            continue
        if len(hdr.get_sorted_slice_indices()) > 0:
            return True
    return False


PROBES = {n: f for n, f in list(globals().items()) if n.startswith('S_C') and callable(f)}

if __name__ == '__main__':
    sel = sys.argv[1:] or sorted(PROBES)
    for n in sel:
        try:
            print(n, 'PRESENT' if PROBES[n]() else 'absent')
        except Exception as e:  # noqa
            print(n, 'PROBE-ERROR', repr(e)[:200])
