"""C11 — NIfTI extensions preserved and never collide with the voxel data.

Model: coq/C11/Model.v (size_on_disk, write_exts, read_exts, hdr_write, hdr_read,
single_tail, single_read).  Theorems: coq/C11/Props.v.

Case lines sent to bin/modelrun_c11 (see coq/C11/driver.ml):
  size <clen> | write <be> <n> (<code> <hex>)* | read <be> <size> <hex>
  single <hsize> <be> <vox> <datahex> <n> (<code> <hex>)* | sread <hsize> <be> <vox> <tailhex>
Compared with the implementation at API boundaries: NiftiExtension.get_sizeondisk,
the bytes of the written file after the header block, the extension list / data / offset of
the re-loaded image, and the refusal of too small a user offset.
"""
import io
import os
import itertools
import warnings

import numpy as np

from common import Check, ensure_impl_path, run_model, vm_crosscheck

PROP = 'C11'


def hx(b):
    return 'x' + bytes(b).hex()


def make_ext(code, content):
    from nibabel.nifti1 import Nifti1Extension, extension_codes
    import nibabel.cifti2  # registers code 32  # noqa
    try:
        return extension_codes.handler[code](code, content)
    except KeyError:
        return Nifti1Extension(code, content)


def dicom_obj(spec):
    import pydicom as pdcm
    ds = pdcm.Dataset()
    ds.PatientID = spec[0]
    if spec[1]:
        ds.PatientName = spec[1]
    return ds


def dicom_spec(rng):
    return ('P%d' % rng.randrange(10 ** rng.randrange(1, 6)), 'N' * rng.randrange(1, 20) if rng.random() < 0.5 else '')


def dicom_bytes_of(spec, be=False):
    """serialised dataset; be=True: as written by an extension attached to a big-endian header"""
    from nibabel.nifti1 import Nifti1DicomExtension, Nifti1Header
    ds = dicom_obj(spec)
    if be:
        return bytes(Nifti1DicomExtension(2, ds, parent_hdr=Nifti1Header(endianness='>')).content)
    return bytes(Nifti1DicomExtension(2, ds).content)


def cifti_obj(spec):
    from nibabel.cifti2 import Cifti2Header, cifti2_axes as ax
    names = ['s%d' % i for i in range(spec[0])]
    return Cifti2Header.from_axes((ax.ScalarAxis(names), ax.SeriesAxis(0, 1, spec[1])))


def cifti_spec(rng):
    return (rng.randrange(1, 6), rng.randrange(1, 5))


def cifti_bytes_of(spec):
    return cifti_obj(spec).to_xml()


def make_ext_obj(code, spec, mode, spec0=None, parent_hdr=None):
    """extension backed by a runtime OBJECT (mode 'object'), or built from the bytes of spec0 and
    then edited in place through get_content() into spec (mode 'edited'); `.content` is never read
    here, so that a stale serialisation cache is not refreshed by the harness itself."""
    from nibabel.nifti1 import Nifti1DicomExtension
    from nibabel.cifti2.parse_cifti2 import Cifti2Extension
    if code == 2:
        if mode == 'object_be':
            # dataset attached to a big-endian header: serialised big-endian (parent_hdr decides)
            return Nifti1DicomExtension(2, dicom_obj(spec), parent_hdr=parent_hdr)
        if mode == 'object':
            return Nifti1DicomExtension(2, dicom_obj(spec))
        e = Nifti1DicomExtension(2, dicom_bytes_of(spec0))
        ds = e.get_content()
        ds.PatientID = spec[0]
        if spec[1]:
            ds.PatientName = spec[1]
        elif 'PatientName' in ds:
            del ds.PatientName
        return e
    if mode == 'object':
        return Cifti2Extension.from_object(cifti_obj(spec))
    e = Cifti2Extension(32, cifti_bytes_of(spec0))
    hdr = e.get_content()
    new = cifti_obj(spec)
    hdr.matrix = new.matrix
    return e


def edit_ext_in_place(e, code, spec):
    """edit the runtime object behind extension `e` into `spec` (never reads .content)"""
    obj = e.get_content()
    if code == 2:
        obj.PatientID = spec[0]
        if spec[1]:
            obj.PatientName = spec[1]
        elif 'PatientName' in obj:
            del obj.PatientName
    else:
        obj.matrix = cifti_obj(spec).matrix


def gen_content(rng, code, n):
    if code == 2:
        return dicom_bytes_of(dicom_spec(rng))
    if code == 32:
        return cifti_bytes_of(cifti_spec(rng))
    kind = rng.random()
    if kind < 0.25:
        body = bytes(rng.randrange(1, 256) for _ in range(n))
    elif kind < 0.5:  # ends in NULs
        k = rng.randrange(0, n + 1)
        body = bytes(rng.randrange(1, 256) for _ in range(n - k)) + b'\0' * k
    elif kind < 0.75:  # NULs inside
        body = bytes(rng.choice([0, 65, 255]) for _ in range(n))
    else:
        body = bytes(rng.randrange(32, 127) for _ in range(n))
    return body


CODES = [0, 4, 6, 44, 18, 40, 100, 1234, 2 ** 31 - 1, 2, 32]


def gen_cases(chk):
    rng = chk.rng
    cases = []
    # exhaustive part: single extension of every content length 0..70 (every residue mod 16)
    for n in range(0, 71):
        cases.append(dict(exts=[(6, bytes([1 + (i % 200) for i in range(n)]))], be=n % 2 == 1, cls=1 + (n // 2) % 2,
                          single=True, vox=0))
    nrand = chk.n(900, 12000)
    for _ in range(nrand):
        k = rng.choice([0, 1, 1, 2, 2, 3, 4, 6])
        be = rng.random() < 0.5
        exts = []
        objs = {}
        for j in range(k):
            code = rng.choice(CODES)
            if code == 2 and be and rng.random() < 0.4:
                spec = dicom_spec(rng)
                objs[j] = (spec, 'object_be', spec)
                exts.append((code, dicom_bytes_of(spec, be=True)))
            elif code in (2, 32) and rng.random() < 0.6:
                mk = dicom_spec if code == 2 else cifti_spec
                by = dicom_bytes_of if code == 2 else cifti_bytes_of
                spec, spec0 = mk(rng), mk(rng)
                mode = rng.choice(['object', 'edited', 'resaved'])
                objs[j] = (spec, mode, spec0)
                exts.append((code, by(spec)))
            elif code == 2 and rng.random() < 0.3:
                # big-endian-serialised DICOM bytes (as found in files written from big-endian headers)
                exts.append((code, dicom_bytes_of(dicom_spec(rng), be=True)))
            else:
                exts.append((code, gen_content(rng, code, rng.randrange(0, 71))))
        cls = rng.choice([1, 2])
        single = rng.random() < 0.7
        hs = 348 if cls == 1 else 540
        minv = hs + 4 + sum((len(c) + 23) // 16 * 16 for _, c in exts)
        r = rng.random()
        if not single or r < 0.5:
            vox = 0
        elif r < 0.7:
            vox = minv + rng.choice([0, 0, 1, 8, 15])      # enough room, < 16 slack
        elif r < 0.85:
            vox = max(1, minv - rng.choice([1, 4, 8, 16, 17]))   # too small
        else:
            vox = minv + rng.choice([16, 24, 32, 160])     # >= 16 bytes slack (S-C11a when exts)
        cases.append(dict(exts=exts, be=be, cls=cls, single=single, vox=vox, objs=objs))
    # user offsets far beyond the minimum, written through a stream that cannot seek while writing
    # (bz2): the gap is filled by seek_tell(write0=True); seed-independent core
    for j, gap in enumerate([1, 15, 16, 8191, 8192, 8193, 16384, 20000, 70000]):
        for cls in (1, 2):
            hs = 348 if cls == 1 else 540
            exts = [(6, bytes([65 + j] * (j * 7 % 40)))] if j % 2 else []
            minv = hs + 4 + sum((len(c) + 23) // 16 * 16 for _, c in exts)
            cases.append(dict(exts=exts, be=bool(j % 2), cls=cls, single=True, vox=minv + gap, objs={},
                              comp='bz2' if (j + cls) % 3 else 'plain'))
    return cases


def impl_run(case):
    """Run the implementation on one case; returns a dict of observables."""
    import nibabel as nib
    from nibabel.fileholders import FileHolder
    from nibabel.spatialimages import HeaderDataError
    cls = {(1, True): nib.Nifti1Image, (1, False): nib.Nifti1Pair,
           (2, True): nib.Nifti2Image, (2, False): nib.Nifti2Pair}[(case['cls'], case['single'])]
    hsize = 348 if case['cls'] == 1 else 540
    endian = '>' if case['be'] else '<'
    data = (np.arange(12, dtype=np.uint8) + 1).reshape(2, 3, 2)
    hdr = cls.header_class(endianness=endian)
    hdr.set_data_dtype(np.uint8)
    img = cls(data, np.eye(4), header=hdr)
    assert img.header.endianness == endian
    objs = case.get('objs') or {}
    later = []
    for j, (code, content) in enumerate(case['exts']):
        if j in objs or str(j) in objs:
            spec, mode, spec0 = objs.get(j) or objs.get(str(j))
            if mode == 'resaved':
                # history: object-backed extension saved once as spec0, edited in place into spec,
                # saved again (the save under test); nothing reads .content in between
                e = make_ext_obj(code, tuple(spec0), 'object', tuple(spec0), parent_hdr=img.header)
                later.append((e, code, tuple(spec)))
                img.header.extensions.append(e)
            else:
                img.header.extensions.append(make_ext_obj(code, tuple(spec), mode, tuple(spec0), parent_hdr=img.header))
        else:
            img.header.extensions.append(make_ext(code, content))
    out = {}
    if later:
        fm0 = {'image': FileHolder(fileobj=io.BytesIO()), 'header': FileHolder(fileobj=io.BytesIO())}
        if case['single']:
            fm0['header'] = fm0['image']
        with warnings.catch_warnings():
            warnings.simplefilter('ignore')
            img.to_file_map(fm0)
        for e, code, spec in later:
            edit_ext_in_place(e, code, spec)
    if case['vox']:
        img.header.set_data_offset(case['vox'])
    fm = {'image': FileHolder(fileobj=io.BytesIO()), 'header': FileHolder(fileobj=io.BytesIO())}
    raw_sink = None
    if case.get('comp') == 'bz2':
        import tempfile
        raw_sink = tempfile.TemporaryDirectory(prefix='verif_c11_')
        fm['image'] = FileHolder(filename=os.path.join(raw_sink.name, 'x.nii.bz2'))
    if case['single']:
        fm['header'] = fm['image']
    try:
        with warnings.catch_warnings():
            warnings.simplefilter('ignore')
            img.to_file_map(fm)
    except HeaderDataError as e:
        if raw_sink is not None:
            raw_sink.cleanup()
        out['write'] = 'err offset_too_small'
        out['sizes'] = [int(e.get_sizeondisk()) for e in img.header.extensions]
        return out
    if raw_sink is not None:
        import bz2
        with open(fm['image'].filename, 'rb') as _f:
            hb = ib = bz2.decompress(_f.read())
        raw_sink.cleanup()
    else:
        hb = fm['header'].fileobj.getvalue()
        ib = fm['image'].fileobj.getvalue()
    out['write'] = 'ok'
    out['sizes'] = [int(e.get_sizeondisk()) for e in img.header.extensions]
    out['hdr_tail'] = hb[hsize:]
    out['data_bytes'] = data.tobytes(order='F')
    out['img_bytes'] = ib
    # reload
    fm2 = {'image': FileHolder(fileobj=io.BytesIO(ib)), 'header': FileHolder(fileobj=io.BytesIO(hb))}
    if case['single']:
        fm2['header'] = fm2['image']
    try:
        with warnings.catch_warnings():
            warnings.simplefilter('ignore')
            img2 = cls.from_file_map(fm2)
            out['read'] = 'ok'
            out['read_exts'] = [(int(e.get_code()), bytes(e.content)) for e in img2.header.extensions]
            out['offset'] = int(img2.dataobj.offset)
            out['read_data'] = np.asarray(img2.dataobj).tobytes(order='F')
    except Exception as e:  # any failure to re-load is an outcome (a property violation), never a harness crash
        out['read'] = 'err ' + type(e).__name__ + ': ' + str(e)[:60]   # the text is informational, never compared
    return out


def fmt_exts(exts):
    return str(len(exts)) + ''.join(f' {c} {hx(b)}' for c, b in exts)


def run(chk: Check):
    ensure_impl_path()
    chk.rule = ('exhaustive: one extension of every content length 0..70 (all residues mod 16), alternating '
                'byte order and NIfTI-1/2; random: 0-6 extensions, codes known/unknown/max-int32/DICOM(pydicom)/'
                'CIFTI(xml), contents with trailing and embedded NULs, {<,>} x {NIfTI-1,2} x {single,pair} x user '
                'offsets (exact, <16 slack, too small, >=16 slack); a case is non-trivial when it has at least '
                'one extension or a user offset; distinct by (codes, lengths, be, cls, single, vox-minimum)')
    chk.assumptions = ['file objects are in-memory BytesIO; header block bytes (348/540) are opaque here (C10)',
                       'platform is little-endian (byteswap flag == header big-endian)']
    chk.build()
    chk.run_probes()
    cases = gen_cases(chk)
    lines = []
    impl = []
    for i, c in enumerate(cases):
        hsize = 348 if c['cls'] == 1 else 540
        be = 1 if c['be'] else 0
        o = impl_run(c)
        impl.append(o)
        nontriv = bool(c['exts']) or c['vox'] != 0
        minv = hsize + 4 + sum((len(b) + 23) // 16 * 16 for _, b in c['exts'])
        key = (tuple((cd, len(b)) for cd, b in c['exts']), be, c['cls'], c['single'], c['vox'] - minv if c['vox'] else None)
        chk.count(key=key if nontriv else None,
                  tag=f"n_ext={len(c['exts'])}",
                  sample={'exts': [(cd, b.hex()) for cd, b in c['exts']], 'be': c['be'], 'cls': c['cls'],
                          'single': c['single'], 'vox': c['vox']} if i in (3, 80, 200) else None)
        chk.tagc('single' if c['single'] else 'pair')
        if c.get('comp'):
            chk.tagc('route:' + c['comp'])
        for _sp, _mode, _s0 in (c.get('objs') or {}).values():
            chk.tagc('ext_backed_by:' + _mode)
        chk.tagc('vox:' + ('auto' if c['vox'] == 0 else 'too_small' if c['vox'] < minv else
                           'slack<16' if c['vox'] < minv + 16 else 'slack>=16'))
        for j, (cd, b) in enumerate(c['exts']):
            lines.append(f'{i}.s{j} size {len(b)}')
        if c['single']:
            lines.append(f"{i}.w single {hsize} {be} {c['vox']} {hx(o.get('data_bytes', b''))} {fmt_exts(c['exts'])}")
            if o['write'] == 'ok':
                # feed the IMPLEMENTATION's file tail to the model reader with the vox_offset the
                # implementation stored (read back from the header bytes by the loader)
                pass
        else:
            lines.append(f"{i}.w write {be} {fmt_exts(c['exts'])}")
    if not chk.model_ok:
        chk.finish_needed = True
        return
    mod = run_model(PROP, lines)
    # second round: model reader on the implementation's bytes
    lines2 = []
    for i, (c, o) in enumerate(zip(cases, impl)):
        if o['write'] != 'ok':
            continue
        hsize = 348 if c['cls'] == 1 else 540
        be = 1 if c['be'] else 0
        if c['single']:
            mw = mod.get(f'{i}.w', '')
            if mw.startswith('ok '):
                vox = mw.split()[1]
                lines2.append(f"{i}.r sread {hsize} {be} {vox} {hx(o['img_bytes'][hsize:])}")
        else:
            t = o['hdr_tail']
            if len(t) >= 4 and t[0] != 0:
                lines2.append(f"{i}.r read {be} -1 {hx(t[4:])}")
    mod.update(run_model(PROP, lines2))

    for i, (c, o) in enumerate(zip(cases, impl)):
        hsize = 348 if c['cls'] == 1 else 540
        minv = hsize + 4 + sum((len(b) + 23) // 16 * 16 for _, b in c['exts'])
        case_desc = {'exts': [(cd, b.hex()) for cd, b in c['exts']], 'be': c['be'], 'cls': c['cls'],
                     'single': c['single'], 'vox': c['vox'], 'objs': {str(k): v for k, v in (c.get('objs') or {}).items()}}
        dis = []
        # sizes
        for j, sz in enumerate(o['sizes']):
            if mod.get(f'{i}.s{j}') != f'ok {sz}':
                dis.append(('size', mod.get(f'{i}.s{j}'), sz))
        mw = mod.get(f'{i}.w', '<missing>')
        if o['write'] != 'ok':
            chk.refusal('offset_too_small')
            if not mw.startswith('err'):
                dis.append(('write-refusal', mw[:40], o['write']))
        elif c['single']:
            exp = f"ok {c['vox'] or minv} {hx(o['img_bytes'][hsize:])}"
            if mw != exp:
                # the stored offset is compared through the bytes' layout; report the first difference
                dis.append(('single-layout', mw[:120], exp[:120]))
        else:
            ext_part = o['hdr_tail']
            mexp = 'ok ' + hx(ext_part[4:] if c['exts'] else b'')
            if mw != mexp or (c['exts'] and ext_part[:4] != b'\x01\0\0\0') or (not c['exts'] and ext_part not in (b'',)):
                dis.append(('pair-layout', mw[:120], hx(ext_part)[:120]))
        # reader
        if o['write'] == 'ok':
            mr = mod.get(f'{i}.r')
            if mr is not None:
                if o['read'] == 'ok':
                    if c['single']:
                        exp = 'ok ' + fmt_exts(o['read_exts']) + ' data=' + hx(o['read_data'])
                    else:
                        exp = 'ok ' + fmt_exts(o['read_exts']) + ' rest=x'
                    if mr != exp:
                        dis.append(('read', mr[:160], exp[:160]))
                else:
                    # both refuse (HeaderDataError); the message text is not compared, only the outcome class
                    if not mr.startswith('err'):
                        dis.append(('read-error', mr[:80], o['read']))
        # ---- the property predicate, evaluated directly on the implementation
        pred = None
        if o['write'] == 'ok':
            if o['read'] != 'ok':
                pred = f"reload failed: {o['read']}"
            else:
                want = [(cd, b.rstrip(b'\0')) for cd, b in c['exts']]
                if o['read_exts'] != want:
                    pred = 'extensions not preserved'
                elif o['read_data'] != o['data_bytes']:
                    pred = 'voxel data changed by extensions'
                elif c['single'] and c['vox'] == 0 and (o['offset'] % 16 or o['offset'] != minv):
                    pred = f"offset {o['offset']} not minimal multiple of 16"
                elif c['single'] and o['offset'] < minv:
                    pred = 'data offset overlaps extensions'
        else:
            if not (c['single'] and c['vox'] and c['vox'] < minv):
                pred = 'write refused although the offset leaves room'
        if c['single'] and c['vox'] and c['vox'] < minv and o['write'] == 'ok':
            pred = 'too small an offset was accepted'
        if pred:
            if True:
                chk.violation('property_violation', case=case_desc, impl_output={k: (v.hex() if isinstance(v, bytes) else v) for k, v in o.items()},
                              model_output=mw[:200], predicate=pred)
        if dis:
            chk.disagreements += 1
            if not pred:
                chk.violation('correspondence', case=case_desc, model_output=dis[0][1], impl_output=str(dis[0][2])[:200],
                              predicate='model and implementation disagree at ' + dis[0][0] +
                              '; the property predicate holds on this case', found_input=False,
                              theorem='correspondence C11/Model.v <-> nibabel/nifti1.py')
    # cross-check extraction against evaluation inside Coq on a small fixed sample
    pairs = []
    for n in (0, 1, 7, 8, 9, 24, 25, 70):
        pairs.append((f'Z.eqb (size_on_disk {n}) {(n + 23) // 16 * 16}', f'size {n}'))
    for i in (1, 5, 17, 33, 72, 75, 90):
        if i < len(cases) and cases[i]['single'] and impl[i]['write'] == 'ok':
            c = cases[i]
            hsize = 348 if c['cls'] == 1 else 540
            el = '[' + ';'.join('mkExt %d [%s]' % (cd, ';'.join(str(x) for x in b)) for cd, b in c['exts']) + ']'
            tail = '[' + ';'.join(str(x) for x in impl[i]['img_bytes'][hsize:]) + ']'
            data = '[' + ';'.join(str(x) for x in impl[i]['data_bytes']) + ']'
            be = 'true' if c['be'] else 'false'
            pairs.append((f'match single_tail {hsize} {be} {c["vox"]} {el} {data} with Some (_, t) => '
                          f'list_beq Z Z.eqb t {tail} | None => false end', f'single {i}'))
    imports = ('From Coq Require Import ZArith List Bool. Import ListNotations. Open Scope Z_scope.\n'
               'From NV Require Import Base.Bytes C11.Model.\n'
               'Scheme Equality for list.\n')
    ncase, bad = vm_crosscheck(PROP, imports, pairs)
    chk.vm = {'cases': ncase, 'disagreements': len(bad)}
    if bad:
        chk.disagreements += 1
        chk.violation('correspondence', case={'vm_crosscheck': [pairs[b][1] if isinstance(b, int) and b < len(pairs) else b for b in bad]},
                      predicate='extracted model / implementation bytes disagree with vm_compute evaluation of the model',
                      found_input=False, theorem='extraction cross-check')


def replay(chk, obj):
    ensure_impl_path()
    c = obj['case']
    if not isinstance(c, dict) or 'exts' not in c:
        if obj.get('inputs', {}).get('probe_fn'):
            import defect_probes
            r = defect_probes.PROBES[obj['inputs']['probe_fn']]()
            print('defect present' if r else 'defect absent')
            return 1 if r else 0
        print('nothing to replay:', obj.get('predicate'))
        return 1
    case = dict(exts=[(cd, bytes.fromhex(h)) for cd, h in c['exts']], be=c['be'], cls=c['cls'], single=c['single'], vox=c['vox'],
                objs={int(k): v for k, v in (c.get('objs') or {}).items()})
    o = impl_run(case)
    print({k: (v.hex() if isinstance(v, bytes) else v) for k, v in o.items()})
    want = [(cd, b.rstrip(b'\0')) for cd, b in case['exts']]
    bad = o['write'] == 'ok' and (o.get('read') != 'ok' or o.get('read_exts') != want or o.get('read_data') != o.get('data_bytes'))
    print('property fails on this case' if bad else 'property holds on this case')
    return 1 if bad else 0
