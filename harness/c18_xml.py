"""C18 XML layer: canonical S-expressions of Cifti2Header objects and of the expat event stream
(grammar: coq/C18/driver.ml, section "XML layer").  Used by harness/c18.py."""
import xml.parsers.expat

import numpy as np

SCALE = 4


class XmlCodec:
    def __init__(self, intern, structs):
        self.INT = intern
        self.STRUCTS = structs
        from nibabel.cifti2 import cifti2
        self.c2 = cifti2

    # ---- atoms
    @staticmethod
    def s(t):
        return 's' + '.'.join(str(ord(c)) for c in t)

    def f(self, x):
        """floats are opaque ids (by value)"""
        return str(self.INT('float', float(x)))

    def bs(self, name):
        """BrainStructure id: positive iff `name in CIFTI_BRAIN_STRUCTURES` (driver: bs_valid)"""
        if name is None:
            return 'N'
        if name in self.STRUCTS:
            return str(self.STRUCTS.index(name) + 1)
        if name in self.c2.CIFTI_BRAIN_STRUCTURES:
            return str(1000 + self.INT('bs', name))
        return str(-self.INT('bs', name))

    def enum(self, table, v):
        if v is None:
            return 'N'
        return str(table.index(v) + 1) if v in table else str(100 + self.INT('enum', v))

    @staticmethod
    def o(v, f=lambda x: str(int(x))):
        return 'N' if v is None else f(v)

    def aff(self, x):
        v = float(x) * SCALE
        if v != int(v):
            raise ValueError('affine entry not a multiple of 1/4')
        return str(int(v))

    # ---- header objects
    def meta(self, m):
        if m is None:
            return 'N'
        return '(M' + ''.join(f' {self.s(str(k))} {self.s(str(v))}' for k, v in m.items()) + ')'

    def table(self, t):
        if t is None:
            return 'N'
        return '(T' + ''.join(
            f' ({int(l.key)} ({self.f(l.red)} {self.f(l.green)} {self.f(l.blue)} {self.f(l.alpha)}) {self.s(l.label)})'
            for l in (t[k] for k in t)) + ')'      # public mapping interface, insertion order

    def vox(self, v):
        if v is None:
            return 'N'
        return '(X' + ''.join(f' {int(x)}' for row in v for x in row) + ')'

    def child(self, c):
        c2 = self.c2
        if isinstance(c, c2.Cifti2NamedMap):
            return f'(NM {self.o(c.map_name, self.s)} {self.meta(c.metadata)} {self.table(c.label_table)})'
        if isinstance(c, c2.Cifti2Surface):
            return f'(SF {self.bs(c.brain_structure)} {int(c.surface_number_of_vertices)})'
        if isinstance(c, c2.Cifti2Parcel):
            vs = ' '.join(f'({self.bs(v.brain_structure)} ({" ".join(str(int(i)) for i in v)}))' for v in c.vertices)
            return f'(PC {self.INT("name", str(c.name))} {self.vox(c.voxel_indices_ijk)} ({vs}))'
        if isinstance(c, c2.Cifti2Volume):
            t = c.transformation_matrix_voxel_indices_ijk_to_xyz
            if t is None:
                tr = 'N'
            else:
                m = 'N' if t.matrix is None else '(' + ' '.join(self.aff(x) for x in np.asarray(t.matrix).ravel()) + ')'
                tr = f'({int(t.meter_exponent)} {m})'
            return f'(VL ({" ".join(str(int(d)) for d in c.volume_dimensions)}) {tr})'
        if isinstance(c, c2.Cifti2BrainModel):
            vt = 'N' if c.vertex_indices is None else '(V' + ''.join(f' {int(i)}' for i in c.vertex_indices) + ')'
            return (f'(BM {self.o(c.index_offset)} {self.o(c.index_count)} {self.enum(list(c2.CIFTI_MODEL_TYPES), c.model_type)} '
                    f'{self.bs(c.brain_structure)} {self.o(c.surface_number_of_vertices)} {self.vox(c.voxel_indices_ijk)} {vt})')
        raise TypeError(type(c))

    def series(self, n, e, st, sp, u):
        return f'({self.o(n)} {self.o(e)} {self.o(st, self.f)} {self.o(sp, self.f)} {self.o(u, lambda x: str(self.INT("unit", x)))})'

    def mim(self, m):
        dims = ' '.join(str(int(d)) for d in m.applies_to_matrix_dimension)
        ser = self.series(m.number_of_series_points, m.series_exponent, m.series_start, m.series_step, m.series_unit)
        return (f'(I ({dims}) {self.enum(list(self.c2.CIFTI_MAP_TYPES), m.indices_map_to_data_type)} {ser} '
                f'({" ".join(self.child(c) for c in m)}))')

    def header(self, h):
        ver = int(round(float(h.version) * 10))
        return f'(H {ver} {self.meta(h.matrix.metadata)} ({" ".join(self.mim(m) for m in h.matrix)}))'

    # ---- the expat event stream, attribute values decoded the way Cifti2Parser decodes them
    def attrs(self, name, a):
        """a missing REQUIRED attribute (the handler's attrs[...] raises KeyError) is the atom N"""
        try:
            return self._attrs(name, a)
        except KeyError:
            return 'N'

    def _attrs(self, name, a):
        c2 = self.c2
        if name == 'CIFTI':
            return f'(ACifti {int(round(float(a["Version"]) * 10))})'
        if name == 'MatrixIndicesMap':
            dims = ' '.join(str(int(v)) for v in a['AppliesToMatrixDimension'].split(','))
            ser = self.series(*(t(a[k]) if k in a else None for k, t in (
                ('NumberOfSeriesPoints', int), ('SeriesExponent', int), ('SeriesStart', float), ('SeriesStep', float),
                ('SeriesUnit', str))))
            return f'(AMim ({dims}) {self.enum(list(c2.CIFTI_MAP_TYPES), a["IndicesMapToDataType"])} {ser})'
        if name == 'Label':
            return (f'(ALabel {int(a["Key"])} ({self.f(float(a["Red"]))} {self.f(float(a["Green"]))} '
                    f'{self.f(float(a["Blue"]))} {self.f(float(a["Alpha"]))}))')
        if name == 'Surface':
            return f'(ASurface {self.bs(a["BrainStructure"])} {int(a["SurfaceNumberOfVertices"])})'
        if name == 'Parcel':
            return f'(AParcel {self.INT("name", a["Name"])})'
        if name == 'Vertices':
            return f'(AVertices {self.bs(a["BrainStructure"])})'
        if name == 'Volume':
            return f'(AVolume ({" ".join(str(int(v)) for v in a["VolumeDimensions"].split(","))}))'
        if name == 'TransformationMatrixVoxelIndicesIJKtoXYZ':
            return f'(ATransform {int(a["MeterExponent"])})'
        if name == 'BrainModel':
            g = a.get
            return (f'(ABm {self.o(g("IndexOffset"))} {self.o(g("IndexCount"))} '
                    f'{self.enum(list(c2.CIFTI_MODEL_TYPES), g("ModelType"))} {self.bs(g("BrainStructure"))} '
                    f'{self.o(g("SurfaceNumberOfVertices"))})')
        return 'N'

    KNOWN = {'CIFTI', 'Matrix', 'MetaData', 'MD', 'Name', 'Value', 'MatrixIndicesMap', 'NamedMap', 'LabelTable', 'Label',
             'MapName', 'Surface', 'Parcel', 'Vertices', 'VoxelIndicesIJK', 'Volume',
             'TransformationMatrixVoxelIndicesIJKtoXYZ', 'BrainModel', 'VertexIndices'}

    def events(self, xml_bytes, buffer_size=None, split=None):
        """(events sexp, number of events); split(text) -> list of chunks re-chunks character data"""
        out = []
        p = xml.parsers.expat.ParserCreate()
        p.buffer_text = True
        if buffer_size:
            p.buffer_size = buffer_size
        tag = lambda n: n if n in self.KNOWN else '?'      # noqa: E731
        p.StartElementHandler = lambda n, a: out.append(f'(S {tag(n)} {self.attrs(n, a)})')
        p.EndElementHandler = lambda n: out.append(f'(E {tag(n)})')

        def chars(d):
            for c in (split(d) if split else [d]):
                out.append(f'(C {self.s(c)})')
        p.CharacterDataHandler = chars
        p.Parse(xml_bytes, True)
        return '(' + ' '.join(out) + ')', len(out)
