"""C15 helpers: token grammar, the naive list-of-arrays tracker (Python list semantics with cell
identity = lineage), history generators, and the direct property predicates.

Independent of the Coq model: nothing here knows about buffers, capacity or re-allocation.
"""
import itertools

DEFAULT_BYTES = 4194304
MAX_ELEMS = 14          # generator keeps sequences short (extend(self) doubles)
MAX_LIVE = 7


# ------------------------------------------------------------------ token helpers
def enc_elem(e):
    return 'e' if not e else '.'.join(str(v) for v in e)


def enc_elems(els):
    return '-' if not els else '/'.join(enc_elem(e) for e in els)


def dec_elem(s):
    return [] if s in ('e', '') else [(v if v == '?' else int(v)) for v in s.split('.')]


def dec_elems(s):
    return [] if s == '-' else [dec_elem(e) for e in s.split('/')]


def dec_index(s):
    p = s.split(',')
    if p[0] == 's':
        return slice(*[None if x == 'n' else int(x) for x in p[1:]])
    if p[0] == 'l':
        return [int(x) for x in p[1:]]
    return ('mask', [x == '1' for x in p[1:]])


def enc_slice(a, b, c):
    return 's,' + ','.join('n' if x is None else str(x) for x in (a, b, c))


def positions(n, ix):
    """Python list semantics: positions selected by ix in a list of length n, or an error enum"""
    if isinstance(ix, slice):
        if ix.step == 0:
            return 'err:Value'
        return list(range(n))[ix]
    if isinstance(ix, list):
        out = []
        for k in ix:
            if not -n <= k < n:
                return 'err:Index'
            out.append(k % n if n else 0)
        return out
    m = ix[1]
    if len(m) != n:
        return 'err:Index'
    return [i for i, b in enumerate(m) if b]


def apply_fn(fn, v):
    p = fn.split(',')
    if p[0] == 'neg':
        return -v
    return apply_fn2(p[0], v, int(p[1]))


def apply_fn2(g, a, b):
    return {'add': lambda: a + b, 'sub': lambda: a - b, 'mul': lambda: a * b, 'lt': lambda: int(a < b),
            'eq': lambda: int(a == b), 'or': lambda: a | b, 'and': lambda: a & b, 'xor': lambda: a ^ b,
            'shl': lambda: a << b, 'shr': lambda: a >> b}[g]()


def elem_op(g, a, b):
    """a <g> b for two arrays given as row lists, NumPy broadcasting of a one-row operand; None = ValueError"""
    if len(b) == len(a):
        return [apply_fn2(g, x, y) for x, y in zip(a, b)]
    if len(b) == 1:
        return [apply_fn2(g, x, b[0]) for x in a]
    return None


def parse_obs(s):
    """'0@0=1.2/3&1@0=3' -> {0: (0, [[1,2],[3]]), 1: (0, [[3]])}"""
    out = {}
    if not s:
        return out
    for part in s.split('&'):
        head, _, els = part.partition('=')
        i, _, k = head.partition('@')
        out[int(i)] = (int(k), dec_elems(els))
    return out


def norm_step(step):
    """a step 'res#i@k=els&...' with sharing restricted to objects that have elements (buffers renumbered by first
    occurrence among those); used when the child reports that it cannot see the buffer of element-less objects"""
    res, sep, obs = step.partition('#')
    if not sep:
        return step
    canon, parts = {}, []
    for part in obs.split('&') if obs else []:
        head, _, els = part.partition('=')
        i, _, k = head.partition('@')
        parts.append(f'{i}@{"~" if els == "-" else canon.setdefault(k, len(canon))}={els}')
    return res + '#' + '&'.join(parts)


KORD = {'b': 0, 'i': 1, 'f': 2}
BITWISE = ('or', 'and', 'xor', 'shl', 'shr')


def inplace_refused(fn, kt, ko=None):
    """NumPy's rule for `target <op>= operand` on arrays (what a Python list of NumPy arrays does element by element):
    the result dtype of the operation must be castable to the target's dtype with casting='same_kind', otherwise
    UFuncTypeError; bitwise operators are not defined for floats at all (TypeError).  kt / ko: dtype kind (b, i, f) of
    the target and of a sequence operand; ko=None: a Python int operand (an integer result for a boolean target)."""
    if kt not in KORD or (ko is not None and ko not in KORD):
        return False
    if fn in BITWISE and 'f' in (kt, ko):
        return True
    if ko is None:
        return kt == 'b'
    return KORD[ko] > KORD[kt]


def parse_lay(s):
    """'0=0,0f:0.2,2.1' -> {0: (buf, is_view, [(0,2),(2,1)], dtype kind of the elements or '?')}"""
    out = {}
    if not s:
        return out
    for part in s.split('&'):
        head, _, body = part.partition(':')
        i, _, bk = head.partition('=')
        b, v = bk.split(',')
        ol = [tuple(int(x) for x in p.split('.')) for p in body.split(',')] if body else []
        out[int(i)] = (int(b), v[:1] == '1', ol, v[1:] or '?')
    return out


GROW = ('app', 'ext', 'exts', 'fin', 'extbad')


# ------------------------------------------------------------------ naive tracker
class Tracker:
    """A Python list of arrays per sequence object; an array is a cell id, views share cells
    for ever (what `lst[1:]` does).  Used to generate in-range arguments, to predict refusals,
    and to recognise S-C15d (lineage says shared, the implementation no longer shares)."""

    def __init__(self, kind='f'):
        self.kind = kind      # element dtype kind of the configuration (f | i)
        self.cells = {}
        self.seqs = []        # dict(c=[cell ids], pend=None|[cells], alive, isbool, born, grew)
        self.t = 0
        self.nmul = 0
        self.nseq = 0

    def copy(self):
        o = Tracker(self.kind)
        o.cells = dict(self.cells)
        o.seqs = [dict(s, c=list(s['c']), pend=None if s['pend'] is None else list(s['pend'])) for s in self.seqs]
        o.t = self.t
        o.nmul = self.nmul
        o.nseq = self.nseq
        return o

    def cell(self, vals):
        k = len(self.cells)
        self.cells[k] = list(vals)
        return k

    def add(self, cells, isbool=False, intres=False, narrow=False):
        # intres: integer dtype whatever the configuration (arithmetic on a boolean result)
        self.seqs.append(dict(c=list(cells), pend=None, alive=True, isbool=isbool, born=self.t, grew=-1,
                              intres=intres, narrow=narrow))
        return len(self.seqs) - 1

    def kind_of(self, i):
        s = self.seqs[i]
        return 'b' if s['isbool'] else 'i' if (s['intres'] or self.kind == 'i') else 'f'

    def refused(self, tok):
        """is tok an in-place operator that NumPy's casting rule refuses (whatever else may refuse it first)?"""
        f = tok.split(':')
        try:
            if f[0] == 'op' and f[3] == '1':
                return inplace_refused(f[2].split(',')[0], self.kind_of(int(f[1])))
            if f[0] == 'opq' and f[4] == '1':
                return inplace_refused(f[2], self.kind_of(int(f[1])), self.kind_of(int(f[3])))
        except IndexError:
            pass
        return False

    def live(self):
        return [i for i, s in enumerate(self.seqs) if s['alive']]

    def contents(self, i):
        return [self.cells[c] for c in self.seqs[i]['c']]

    def apply(self, tok):
        """returns the predicted result enum ('ok', 'el', 'err:...')"""
        self.t += 1
        f = tok.split(':')
        o = f[0]
        S = self.seqs
        if o == 'cat1':
            js = [int(x) for x in f[1].split(',')]
            rows = [[v for c in S[j]['c'] for v in self.cells[c]] for j in js]
            if len({len(r) for r in rows}) != 1:
                return 'err:Value'
            out, k = [], 0
            for c in S[js[0]]['c']:
                e = []
                for _ in self.cells[c]:
                    e.append(cat_code([r[k] for r in rows]))
                    k += 1
                out.append(e)
            self.add([self.cell(e) for e in out], narrow=True)
            return 'ok'
        if o in ('appbad', 'shrink'):
            if o == 'appbad':
                S[int(f[1])]['grew'] = self.t      # an attempt to grow (finding S-C15f: it detaches a view)
            return 'ok'
        if o == 'gett':
            i = int(f[1])
            ps = positions(len(S[i]['c']), dec_index(f[2]))
            if isinstance(ps, str):
                return ps
            self.add([S[i]['c'][p] for p in ps], S[i]['isbool'], S[i]['intres'], narrow=True)
            return 'ok'
        if o == 'new':
            i = self.add([])
            els = [e for e in dec_elems(f[4]) if e]
            S[i]['c'] = [self.cell(e) for e in els]
            return 'ok'
        i = int(f[1]) if o != 'cat' else None
        if o == 'app':
            e = dec_elem(f[4])
            if not e:
                return 'ok'
            S[i]['grew'] = self.t
            if S[i]['pend'] is not None or f[3] == '1':
                S[i]['pend'] = (S[i]['pend'] or []) + [self.cell(e)]
            else:
                S[i]['c'].append(self.cell(e))
            return 'ok'
        if o == 'fin':
            if S[i]['pend'] is not None:
                S[i]['c'] += S[i]['pend']
                S[i]['pend'] = None
                S[i]['grew'] = self.t
            return 'ok'
        if o == 'ext':
            els = dec_elems(f[4])
            if f[3] == '1' and not els:
                return 'ok'
            S[i]['grew'] = self.t
            S[i]['c'] += (S[i]['pend'] or []) + [self.cell(e) for e in els if e]
            S[i]['pend'] = None
            return 'ok'
        if o == 'extbad':
            els = dec_elems(f[4])
            S[i]['grew'] = self.t
            S[i]['c'] += (S[i]['pend'] or []) + [self.cell(e) for e in els if e]
            S[i]['pend'] = None
            return 'err:Value'
        if o == 'exts':
            j = int(f[3])
            if not S[j]['c']:
                return 'ok'
            S[i]['grew'] = self.t
            S[i]['c'] += [self.cell(self.cells[c]) for c in S[j]['c']]
            S[i]['pend'] = None
            return 'ok'
        if o == 'geti':
            k = int(f[2])
            return 'el' if -len(S[i]['c']) <= k < len(S[i]['c']) else 'err:Index'
        if o in ('get', 'view'):
            ps = positions(len(S[i]['c']), dec_index(f[2])) if o == 'get' else list(range(len(S[i]['c'])))
            if isinstance(ps, str):
                return ps
            self.add([S[i]['c'][p] for p in ps], S[i]['isbool'], S[i]['intres'], narrow=S[i]['narrow'])
            return 'ok'
        if o in ('copy', 'dcopy'):
            self.add([self.cell(self.cells[c]) for c in S[i]['c']], S[i]['isbool'], S[i]['intres'],
                     narrow=(o == 'dcopy' and S[i]['narrow']))
            if o == 'dcopy' and S[i]['pend'] is not None:
                S[-1]['pend'] = [self.cell(self.cells[c]) for c in S[i]['pend']]
            return 'ok'
        if o in ('seti', 'setr'):
            k = int(f[2])
            n = len(S[i]['c'])
            if not -n <= k < n:
                return 'err:Index'
            c = S[i]['c'][k]
            L = len(self.cells[c])
            if o == 'seti':
                self.cells[c] = [int(f[3])] * L
            else:
                v = dec_elem(f[3])
                if len(v) == L:
                    self.cells[c] = v
                elif len(v) == 1:
                    self.cells[c] = v * L
                else:
                    return 'err:Value'
            return 'ok'
        if o == 'set':
            ps = positions(len(S[i]['c']), dec_index(f[2]))
            if isinstance(ps, str):
                return ps
            tgt = [S[i]['c'][p] for p in ps]
            if f[3][0] == 'v':
                for c in tgt:
                    self.cells[c] = [int(f[3][1:])] * len(self.cells[c])
                return 'ok'
            j = int(f[3][1:])
            src = S[j]['c']
            if len(src) != len(tgt) or sum(len(self.cells[c]) for c in src) != sum(len(self.cells[c]) for c in tgt):
                return 'err:Value'
            for c, d in zip(tgt, src):
                v = list(self.cells[d])
                if len(v) == len(self.cells[c]):
                    self.cells[c] = v
                elif len(v) == 1:
                    self.cells[c] = v * len(self.cells[c])
                else:
                    return 'err:Value'
            return 'ok'
        if o == 'op':
            if not S[i]['c']:
                return 'err:StopIteration'
            fn = f[2]
            if f[3] == '1' and self.refused(tok):
                return 'err:Type'
            if fn.startswith('mul'):
                self.nmul += 1
            if f[3] == '1':
                for c in S[i]['c']:
                    self.cells[c] = [apply_fn(fn, v) for v in self.cells[c]]
            else:
                self.add([self.cell([apply_fn(fn, v) for v in self.cells[c]]) for c in S[i]['c']],
                         fn.split(',')[0] in ('lt', 'eq'), S[i]['isbool'] or S[i]['intres'])
            return 'ok'
        if o == 'opq':
            j = int(f[3])
            A, B = S[i]['c'], S[j]['c']
            if len(A) != len(B) or sum(len(self.cells[c]) for c in A) != sum(len(self.cells[c]) for c in B):
                return 'err:Value'
            if not A:
                return 'err:StopIteration'
            if f[4] == '1' and self.refused(tok):
                return 'err:Type'
            if f[4] == '1':
                for c, d in zip(A, B):
                    e = elem_op(f[2], self.cells[c], self.cells[d])
                    if e is None:
                        return 'err:Value'
                    self.cells[c] = e
            else:
                out = []
                for c, d in zip(A, B):
                    e = elem_op(f[2], self.cells[c], self.cells[d])
                    if e is None:
                        return 'err:Value'
                    out.append(e)
                self.add([self.cell(e) for e in out], f[2] in ('lt', 'eq'), S[i]['intres'] and S[j]['intres'])
            return 'ok'
        if o == 'cat':
            js = [int(p.split(',')[0]) for p in f[1].split(';')] if f[1] else []
            if not js:
                return 'err:Index'
            self.add([self.cell(self.cells[c]) for j in js for c in S[j]['c']], S[js[0]]['isbool'], S[js[0]]['intres'])
            return 'ok'
        if o == 'drop':
            S[i]['alive'] = False
            return 'ok'
        raise ValueError(tok)


def normalise_tokens(kind, toks):
    """the tokens as the model must read them: an in-place operator that NumPy's casting rule refuses (decided here
    from the dtype kinds the naive tracker keeps: configuration kind, boolean results of comparisons, integer
    results of arithmetic on them) gets the flag 2 in its last field (-> OOpRefused in coq/C15/driver.ml); like the
    dtchg flag this is an input of the model, which has no dtype component"""
    tr = Tracker(kind)
    out = []
    for tok in toks:
        f = tok.split(':')
        try:
            if tr.refused(tok):
                f[-1] = '2'
            elif f[0] in ('op', 'opq') and f[-1] == '2':
                f[-1] = '0'
            tok = ':'.join(f)
            tr.apply(tok)
        except Exception:
            pass
        out.append(tok)
    return out


# ------------------------------------------------------------------ generators
class Gen:
    def __init__(self, shape, kind, sizes, tiny):
        self.shape = shape
        self.kind = kind
        self.nrow = 1
        for d in shape:
            self.nrow *= d
        self.sizes = sizes            # item sizes used for element dtypes
        self.tiny = tiny              # buffer_size in bytes for `new` / `view`
        self.counter = 0

    def bpr(self, k=0):
        return self.nrow * self.sizes[k % len(self.sizes)]

    def elem(self, n, boolean=False):
        if boolean:
            return [(self.counter + r) % 2 for r in range(n)]
        out = []
        for _ in range(n):
            self.counter += 1
            out.append(self.counter)
        return out

    def header(self):
        return 'x'.join(str(d) for d in self.shape) + ' ' + self.kind


def repeat_index(lens):
    """a list index WITH REPEATS over all but the last element whose selected rows add up to the
    rows of the whole sequence: the view 'spans' the buffer by row count (not is_sliced_view) yet its
    next offset lies inside the parent's rows"""
    total = sum(lens)
    n = len(lens)
    if n < 2:
        return None

    def rec(left, start, acc):
        if left == 0:
            return acc if len(set(acc)) < len(acc) else None
        if len(acc) >= 7:
            return None
        for k in range(start, n - 1):
            if lens[k] <= left:
                r = rec(left - lens[k], k, acc + [k])
                if r:
                    return r
        return None
    return rec(total, 0, [])


def core_alphabet(g, tr, level):
    """Seed-independent alphabet for the exhaustive core, parameterised by the tracker state.
    level 0 = reduced (growth / views / assignment / in-place), level 1 = full."""
    ops = []
    live = tr.live()
    targets = live[-2:] if level < 0 else live[-3:] if level == 0 else live[-4:]
    if live and live[0] not in targets:
        targets = [live[0]] + targets
    for i in targets:
        s = tr.seqs[i]
        n = len(s['c'])
        b = s['isbool']
        if s['pend'] is not None:
            ops.append(f'app:{i}:{g.bpr()}:1:{enc_elem(g.elem(1, b))}')
            ops.append(f'fin:{i}')
            ops.append(f'get:{i}:{enc_slice(None, None, None)}')
            continue
        if n + 2 <= MAX_ELEMS:
            ops.append(f'app:{i}:{g.bpr()}:0:{enc_elem(g.elem(2, b))}')
            ops.append(f'ext:{i}:{g.bpr(1)}:1:{enc_elems([g.elem(1, b), g.elem(2, b)])}')
        ops.append(f'get:{i}:{enc_slice(1, None, None)}')
        ops.append(f'get:{i}:{enc_slice(None, 1, None)}')
        rep = repeat_index([len(tr.cells[c]) for c in s['c']])
        if rep:
            ops.append(f'get:{i}:l' + ''.join(f',{k}' for k in rep))
        if n:
            ops.append(f'seti:{i}:0:{0 if b else 77}')
            if not b:
                ops.append(f'op:{i}:add,100:1:0')
                if g.kind == 'i':
                    ops.append(f'op:{i}:or,8:1:0')
        if level >= 1:
            ops.append(f'get:{i}:{enc_slice(None, -1, None)}')
            if n and not b and s['pend'] is None:
                mine = [len(tr.cells[c]) for c in s['c']]
                for j in targets:
                    t = tr.seqs[j]
                    if not t['isbool'] and t['pend'] is None and [len(tr.cells[c]) for c in t['c']] == mine:
                        ops.append(f'opq:{i}:add:{j}:1:0')
                        ops.append(f'opq:{i}:{"xor" if g.kind == "i" else "mul"}:{j}:0:0')
            ops.append(f'copy:{i}')
            ops.append(f'dcopy:{i}')
            ops.append(f'view:{i}:{g.tiny}')
            ops.append(f'get:{i}:{enc_slice(None, None, -1)}')
            ops.append(f'get:{i}:l,-1,0' if n else f'get:{i}:l')
            ops.append(f'app:{i}:{g.bpr()}:1:{enc_elem(g.elem(1, b))}')
            if 2 * n <= MAX_ELEMS:
                ops.append(f'exts:{i}:?:{i}')
            if n:
                ops.append(f'set:{i}:{enc_slice(None, None, 2)}:v{1 if b else 55}')
                ops.append(f'op:{i}:add,7:0:0')
                ops.append(f'op:{i}:lt,50:0:1')
                ops.append(f'geti:{i}:-1')
            if len(live) > 1:
                ops.append(f'drop:{i}')
    if level >= 1 and len(live) >= 2:
        a, c = live[0], live[-1]
        if not tr.seqs[a]['isbool'] and not tr.seqs[c]['isbool'] and tr.seqs[a]['pend'] is None \
                and tr.seqs[c]['pend'] is None:
            if len(tr.seqs[a]['c']) + len(tr.seqs[c]['c']) <= MAX_ELEMS:
                ops.append(f'exts:{a}:?:{c}')
                ops.append(f'exts:{c}:?:{a}')
            ops.append(f'cat:{c},?;{a},?')
    return ops


def seqop_core(g, tiny):
    """operators with an ArraySequence operand: independent objects, the same object, and different
    OVERLAPPING views of one buffer (shifted slices, parent vs reversed view, list views), in place
    and out of place, followed by an assignment through the target; bitwise in-place operators
    followed by an assignment through the same name (integer configurations)"""
    out = []
    for init in ([[1], [2], [3], [4]], [[1, 2], [3, 4], [5, 6]]):
        pre = [f'new:{tiny}:{g.bpr()}:1:{enc_elems(init)}',
               f'get:0:{enc_slice(1, None, None)}',      # 1 = p[1:]
               f'get:0:{enc_slice(None, -1, None)}',     # 2 = p[:-1]
               f'get:0:{enc_slice(None, None, -1)}',     # 3 = p[::-1]
               f'get:0:{enc_slice(None, None, None)}',   # 4 = p[:]
               'copy:0',                                 # 5 independent
               'get:0:l,1,0' + ''.join(f',{k}' for k in range(2, len(init))),   # 6 = permuted list view
               f'new:{tiny}:{g.bpr(1)}:1:{enc_elems([[7]] * len(init))}']        # 7: one-row elements (broadcast)
        n = len(init)
        lens = {0: n, 1: n - 1, 2: n - 1, 3: n, 4: n, 5: n, 6: n, 7: n}
        fns = ['add', 'mul', 'sub'] + (['or', 'xor'] if g.kind == 'i' else [])
        for a in range(8):
            for b in range(8):
                if lens[a] != lens[b]:
                    continue
                for fn in fns:
                    out.append(pre + [f'opq:{a}:{fn}:{b}:1:0', f'seti:{a}:0:77'])
                out.append(pre + [f'opq:{a}:add:{b}:0:0'])
                out.append(pre + [f'opq:{a}:lt:{b}:0:1'])
        out.append(pre + ['opq:1:add:0:1:0'])            # refusal: different numbers of elements
        # NumPy's casting rule for in-place operators (what a list of arrays does): 8 = p < 50 (bool), 9 = 8 + 7
        # (int64), 10 = 9[1:], 11 = 9[[0, 0, 2..]] ; int <op>= float and bool <op>= int are refused before anything is
        # written, int <op>= bool / float <op>= int / int <op>= int are not
        cast = pre + ['op:0:lt,50:0:1', 'op:8:add,7:0:1', f'get:9:{enc_slice(1, None, None)}',
                      'get:9:l,0,0' + ''.join(f',{k}' for k in range(2, n))]
        for tail in (['opq:9:add:0:1:0', 'seti:9:0:5'], ['opq:9:sub:5:1:0', 'seti:9:-1:5'],
                     ['opq:10:add:1:1:0', 'seti:10:0:5'], ['opq:11:add:6:1:0', 'seti:11:0:5'],
                     ['opq:8:add:9:1:0', f'get:8:{enc_slice(None, None, None)}'],
                     ['op:8:add,7:1:0', f'get:8:{enc_slice(None, None, None)}'],
                     ['opq:9:sub:8:1:0', 'seti:9:0:5'], ['opq:5:add:9:1:0', 'seti:5:0:5'],
                     ['opq:9:add:9:1:0', 'opq:9:add:0:1:0', 'opq:0:add:9:1:0']):
            out.append(cast + tail)
        if g.kind == 'i':
            for v in (1, 3, 4):
                for fn in ('or,8', 'and,6', 'xor,5', 'shl,1', 'shr,1'):
                    out.append(pre + [f'op:{v}:{fn}:1:0', f'seti:{v}:0:1', f'set:{v}:{enc_slice(None, None, None)}:v2'])
                    out.append(pre + [f'op:{v}:{fn}:0:0'])
    return out


def exhaustive(g, init_tok, depth, level, cap=None):
    """all histories init_tok . w, |w| = depth, over core_alphabet (depth-first, deterministic)"""
    out = []

    def rec(tr, toks, d):
        if cap is not None and len(out) >= cap:
            return
        if d == 0:
            out.append(list(toks))
            return
        save = g.counter
        for tok in core_alphabet(g, tr, level):
            t2 = tr.copy()
            t2.apply(tok)
            rec(t2, toks + [tok], d - 1)
        g.counter = save

    tr = Tracker(g.kind)
    tr.apply(init_tok)
    rec(tr, [init_tok], depth)
    return out


def random_history(g, rng, depth, bytes_choices, ext=False):
    tr = Tracker(g.kind)
    toks = []

    def push(tok):
        toks.append(tok)
        tr.apply(tok)

    def new():
        k = rng.choice([0, 1, 2, 3, 3, 4])
        els = [g.elem(rng.choice([0, 1, 1, 2, 3])) for _ in range(k)]
        push(f'new:{rng.choice(bytes_choices)}:{g.bpr(rng.randrange(2))}:{rng.choice([1, 1, 0])}:{enc_elems(els)}')

    cur_lens = [[]]

    def rand_index(n):
        r = rng.random()
        if r < 0.5:
            c = [None] + list(range(-n - 2, n + 3))
            return enc_slice(rng.choice(c), rng.choice(c), rng.choice([None, None, 1, 2, -1, -2, 3, -3]))
        if r < 0.8:
            k = rng.randrange(0, 4)
            rep = repeat_index(cur_lens[0]) if rng.random() < 0.3 else None
            if rep:
                return 'l' + ''.join(f',{x}' for x in rep)
            if n == 0:
                return 'l' if rng.random() < 0.8 else 'l,0'
            return 'l' + ''.join(',' + str(rng.randrange(-n, n)) for _ in range(k))
        return 'm' + ''.join(',' + str(rng.randrange(2)) for _ in range(n))

    new()
    for _ in range(depth):
        live = tr.live()
        wide = [j for j in live if not tr.seqs[j].get('narrow')]
        if not live:
            new()
            continue
        i = rng.choice(live[-4:] + live[:1]) if rng.random() < 0.8 else rng.choice(live)
        s = tr.seqs[i]
        n = len(s['c'])
        cur_lens[0] = [len(tr.cells[c]) for c in s['c']]
        b = s['isbool']
        room = n + 3 <= MAX_ELEMS
        if s['pend'] is not None:
            kind = rng.choice(['appc', 'appc', 'fin', 'fin', 'app', 'get', 'copy', 'view', 'seti', 'extg']
                              + (['appbad'] if ext else []))
            if kind in ('appc', 'app', 'extg') and not room:
                kind = 'fin'
        else:
            kinds = ['app', 'app', 'ext', 'ext', 'exts', 'get', 'get', 'get', 'view', 'copy', 'seti', 'setr',
                     'set', 'setq', 'iop', 'iop', 'op', 'cmp', 'geti', 'appc', 'extg', 'cat', 'drop', 'new', 'bad',
                     'opq', 'opq', 'bit']
            if ext:
                kinds = kinds + ['appbad', 'appbad', 'shrink', 'gett', 'gett', 'cat1', 'cat1', 'extbad', 'extbad']
            kind = rng.choice(kinds)
            if s.get('narrow'):
                # column-sliced objects (seq[idx, cols]) are only read: their rows are narrower
                kind = rng.choice(['get', 'geti', 'drop', 'get'])
            if kind in ('app', 'ext', 'appc', 'extg') and not room:
                kind = 'get'
        if len(live) >= MAX_LIVE and kind in ('get', 'view', 'copy', 'op', 'cmp', 'cat', 'new'):
            kind = 'drop'
        if kind == 'new':
            new()
        elif kind in ('app', 'appc'):
            e = g.elem(rng.choice([0, 1, 1, 2, 3]), b)
            push(f'app:{i}:{g.bpr(rng.randrange(2))}:{1 if kind == "appc" else 0}:{enc_elem(e)}')
        elif kind == 'fin':
            push(f'fin:{i}')
        elif kind in ('ext', 'extg'):
            els = [g.elem(rng.choice([0, 1, 2, 3]), b) for _ in range(rng.choice([0, 1, 2, 2, 3]))]
            push(f'ext:{i}:{g.bpr(rng.randrange(2))}:{0 if kind == "extg" else 1}:{enc_elems(els)}')
        elif kind == 'exts':
            cands = [j for j in wide if tr.seqs[j]['isbool'] == b and tr.seqs[j]['pend'] is None
                     and n + len(tr.seqs[j]['c']) <= MAX_ELEMS]
            if cands:
                push(f'exts:{i}:?:{rng.choice(cands + ([i] if i in cands else []))}')
        elif kind == 'get':
            push(f'get:{i}:{rand_index(n)}')
        elif kind == 'view':
            push(f'view:{i}:{rng.choice(bytes_choices)}')
        elif kind == 'copy':
            push(f'copy:{i}' if rng.random() < 0.6 else f'dcopy:{i}')
        elif kind == 'geti':
            push(f'geti:{i}:{rng.randrange(-n - 1, n + 2)}')
        elif kind == 'seti':
            if n:
                push(f'seti:{i}:{rng.randrange(-n, n)}:{rng.randrange(2) if b else rng.randrange(200, 300)}')
        elif kind == 'setr':
            if n and not b:
                k = rng.randrange(-n, n)
                L = len(tr.cells[s['c'][k]])
                push(f'setr:{i}:{k}:{enc_elem(g.elem(L if rng.random() < 0.8 else 1))}')
        elif kind == 'set':
            push(f'set:{i}:{rand_index(n)}:v{rng.randrange(2) if b else rng.randrange(300, 400)}')
        elif kind == 'setq':
            ix = rand_index(n)
            ps = positions(n, dec_index(ix))
            if not isinstance(ps, str) and not b:
                want = [len(tr.cells[s['c'][p]]) for p in ps]
                cands = [j for j in wide if not tr.seqs[j]['isbool']
                         and [len(tr.cells[c]) for c in tr.seqs[j]['c']] == want]
                if cands and rng.random() < 0.9:
                    push(f'set:{i}:{ix}:q{rng.choice(cands)}')
                else:
                    j = rng.choice([j for j in wide if not tr.seqs[j]['isbool']] or [i])
                    wj = [len(tr.cells[c]) for c in tr.seqs[j]['c']]
                    # a refusal before anything is written only (no partial assignment)
                    if len(wj) != len(want) or sum(wj) != sum(want):
                        push(f'set:{i}:{ix}:q{j}')
        elif kind == 'iop':
            if not b:
                if rng.random() < 0.25 and tr.nmul < 4:
                    push(f'op:{i}:mul,{rng.choice([-1, 2, 3])}:1:0')
                else:
                    push(f'op:{i}:add,{rng.choice([10, 100, -5])}:1:0')
        elif kind == 'extbad':
            if n and room:
                good = [g.elem(rng.choice([0, 1, 2]), b) for _ in range(rng.choice([0, 1, 1, 2]))]
                push(f'extbad:{i}:{g.bpr(rng.randrange(2))}:{rng.choice([1, 1, 0])}:{enc_elems(good)}:{rng.choice([1, 1, 2, 4])}')
        elif kind == 'appbad':
            if n or s['pend'] is not None:
                push(f'appbad:{i}' + (':b' if g.shape[0] >= 2 and rng.random() < 0.5 else ''))
        elif kind == 'shrink':
            push(f'shrink:{i}')
        elif kind == 'gett' and n:
            lo, hi = rng.choice([(0, 1)] + ([(1, g.shape[0])] if g.shape[0] >= 2 else []))
            push(f'gett:{i}:{rand_index(n)}:{lo}:{hi}')
        elif kind == 'cat1':
            mine = [len(tr.cells[c]) for c in s['c']]
            cands = [j for j in live if not tr.seqs[j].get('narrow') and tr.seqs[j]['pend'] is None
                     and [len(tr.cells[c]) for c in tr.seqs[j]['c']] == mine]
            if n and cands:
                push(f'cat1:{i},{rng.choice(cands)}')
        elif kind == 'bit':
            if not b and g.kind == 'i':
                fn = rng.choice(['or,8', 'and,1023', 'xor,5', 'shl,1', 'shr,1'])
                if fn.startswith('shl') and tr.nmul >= 4:
                    fn = 'shr,1'
                if fn.startswith('shl'):
                    tr.nmul += 1
                push(f'op:{i}:{fn}:{rng.choice([1, 1, 0])}:0')
        elif kind == 'opq':
            if not b and n:
                mine = [len(tr.cells[c]) for c in s['c']]
                ok = lambda j: (not tr.seqs[j]['isbool'] and tr.seqs[j]['pend'] is None and tr.seqs[j]['c'])
                same = [j for j in wide if ok(j) and [len(tr.cells[c]) for c in tr.seqs[j]['c']] == mine]
                ones = [j for j in wide if ok(j) and [len(tr.cells[c]) for c in tr.seqs[j]['c']] == [1] * n
                        and sum(mine) == n]
                r = rng.random()
                if r < 0.1:
                    j = rng.choice(live)
                    tj = tr.seqs[j]
                    if not tj['isbool'] and (len(tj['c']) != n or sum(len(tr.cells[c]) for c in tj['c']) != sum(mine)):
                        push(f'opq:{i}:add:{j}:{rng.choice([0, 1])}:0')      # refused by _check_shape
                elif same + ones:
                    j = rng.choice(same + ones)
                    # int <op>= float is refused by NumPy (same_kind casting): stay inside the statement
                    inplace = rng.random() < 0.6 and (g.kind == 'i' or not s['intres'] or tr.seqs[j]['intres'])
                    # magnitudes: a sequence operand can double every value (no products here; float32
                    # payloads must stay exact), so value-growing operators have a small budget
                    grow = ['add', 'sub'] + (['or', 'xor'] if g.kind == 'i' else [])
                    fns = (grow if tr.nseq < (6 if g.kind == 'i' else 2) else []) + (['and'] if g.kind == 'i' else [])
                    fn = rng.choice(fns + ['lt', 'eq']) if (not inplace or not fns) else rng.choice(fns)
                    if fn in ('lt', 'eq'):
                        inplace = False
                    if fn in grow:
                        tr.nseq += 1
                    dc = 1 if fn in ('lt', 'eq') else 0
                    push(f'opq:{i}:{fn}:{j}:{1 if inplace else 0}:{dc}')
        elif kind == 'op':
            fn = rng.choice(['add,1', 'add,1000', 'neg', 'mul,2']) if not b else 'add,3'
            if fn.startswith('mul') and tr.nmul >= 4:
                fn = 'add,2'
            push(f'op:{i}:{fn}:0:{1 if b else 0}')
        elif kind == 'cmp':
            push(f'op:{i}:{rng.choice(["lt", "eq"])},{rng.randrange(0, max(2, g.counter))}:0:{0 if b else 1}')
        elif kind == 'cat':
            cands = [j for j in wide if tr.seqs[j]['isbool'] == b and tr.seqs[j]['pend'] is None]
            js = [i] + [rng.choice(cands) for _ in range(rng.randrange(0, 3))] if cands else [i]
            if sum(len(tr.seqs[j]['c']) for j in js) <= MAX_ELEMS and s['pend'] is None:
                push('cat:' + ';'.join(f'{j},?' for j in js))
        elif kind == 'drop':
            if len(live) > 1:
                push(f'drop:{i}')
        elif kind == 'bad':
            r = rng.random()
            if r < 0.3:
                push(f'get:{i}:s,n,n,0')
            elif r < 0.6:
                push(f'get:{i}:l,{n}')
            elif r < 0.8:
                push(f'get:{i}:m' + ',1' * (n + 1))
            else:
                push(f'seti:{i}:{n}:5')
    return toks


# ------------------------------------------------------------------ direct predicates
EXT_OPS = ('appbad', 'shrink', 'gett', 'cat1')
CAT_BASE = 100003


def cat_code(vals):
    """one integer for the row of a concatenate(axis=1) result: v0 + B*(v1 + B*(...)) (Model.v zip_rows)"""
    acc = 0
    for v in reversed(vals):
        acc = v + CAT_BASE * acc
    return acc


def _check_ext(tok, f, res, prev, cur, prev_lay, cur_lay, nslots, k, fails, known):
    """operations that are not (yet) in the Coq model: direct predicate only.  Returns True when
    checking of this history must stop (a known finding has destroyed other objects)."""
    o = f[0]
    same = all(cur.get(x) == prev.get(x) for x in prev)
    if o == 'appbad':
        i = int(f[1])
        if res != 'err:Value':
            fails.append(('result', k, f'{tok}: expected err:Value, got {res}'))
        elif not same or set(cur) != set(prev):
            fails.append(('refusal_changes_contents', k, f'{tok}: a refused append changed some sequence'))
        else:
            before = {x for x, v in prev_lay.items() if v[0] == prev_lay[i][0]}
            after = {x for x, v in cur_lay.items() if v[0] == cur_lay[i][0]}
            if before != after:
                fails.append(('refusal_changes_sharing', k,
                              f'{tok}: a refused append changed which objects share the buffer of seq {i}: '
                              f'{sorted(before)} -> {sorted(after)}'))
        return False
    if o == 'shrink':
        i = int(f[1])
        if res != 'ok':
            fails.append(('result', k, f'{tok}: expected ok, got {res}'))
        elif not same or set(cur) != set(prev):
            fails.append(('shrink_changes_contents', k, f'{tok}: {prev} -> {cur}'))
        return False
    if o == 'gett':
        i = int(f[1])
        ps = positions(len(prev.get(i, [])), dec_index(f[2]))
        exp_res = ps if isinstance(ps, str) else 'ok'
        if not prev.get(i) and res == 'err:Index':
            return False        # a sequence without elements may still hold the 1-D initial buffer: loud refusal
        if res != exp_res:
            fails.append(('result', k, f'{tok}: expected {exp_res}, got {res}'))
        elif not same:
            fails.append(('bystander_changed', k, f'{tok}: an existing sequence changed'))
        elif res == 'ok' and cur.get(nslots) != [prev[i][p] for p in ps]:
            fails.append(('own_contents', k, f'{tok}: expected {[prev[i][p] for p in ps]} got {cur.get(nslots)}'))
        return False
    # cat1: concatenate(axis=1): element k of the result = element k of every operand side by side
    js = [int(x) for x in f[1].split(',')]
    ops_ = [prev[j] for j in js]
    if [[len(e) for e in o_] for o_ in ops_].count([len(e) for e in ops_[0]]) != len(ops_):
        return False      # different element structures: the list model has no answer (never generated)
    exp = [[cat_code([o_[k][r] for o_ in ops_]) for r in range(len(ops_[0][k]))] for k in range(len(ops_[0]))]
    if res != 'ok':
        fails.append(('result', k, f'{tok}: expected ok, got {res}'))
    elif not same:
        fails.append(('bystander_changed', k, f'{tok}: an operand changed'))
    elif cur.get(nslots) != exp:
        fails.append(('own_contents', k, f'{tok}: concatenate(axis=1) expected {exp} got {cur.get(nslots)}'))
    return False


def ext_core(g, tiny):
    """seed-independent histories for the operations outside the Coq model: append of an element with
    a wrong trailing shape (followed by an assignment through the target), shrink_data(), tuple
    indices seq[idx, cols] and concatenate(axis=1) on parents, slice / list views, copies"""
    out = []
    els = [[1, 2], [3], [4, 5, 6]]
    pre = [f'new:{tiny}:{g.bpr()}:1:{enc_elems(els)}',
           f'get:0:{enc_slice(1, None, None)}',      # 1 = p[1:]
           f'get:0:{enc_slice(None, 1, None)}',      # 2 = p[:1]
           'get:0:l,0,0,0',                          # 3 = repeats, rows add up to the buffer
           'copy:0',                                 # 4
           f'view:0:{tiny}',                         # 5 = ArraySequence(p)
           f'new:{tiny}:{g.bpr(1)}:1:{enc_elems([[10, 20], [30], [40, 50, 60]])}',   # 6 = q
           f'get:6:{enc_slice(1, None, None)}']      # 7 = q[1:]
    for v in range(6):
        out.append(pre + [f'appbad:{v}', f'seti:{v}:0:77', f'app:{v}:{g.bpr()}:0:8.9'])
        out.append(pre + [f'shrink:{v}', f'app:0:{g.bpr()}:0:8.9'])
        out.append(pre + [f'app:{v}:{g.bpr()}:0:8.9', f'shrink:{v}', 'seti:0:0:5'])
    cols = [(0, 1)] + ([(1, g.shape[0])] if g.shape[0] >= 2 else [])
    for v in (0, 1, 3, 4):
        for lo, hi in cols:
            for ix in (enc_slice(None, None, None), enc_slice(None, None, -1), 'l,1,0', 'm,1,0' + ',1' * (v in (0, 3, 4))):
                out.append(pre + [f'gett:{v}:{ix}:{lo}:{hi}', 'geti:8:0', 'get:8:s,1,n,n', f'app:0:{g.bpr()}:0:8.9',
                                  'seti:0:0:5'])
    for a, b in ((0, 6), (1, 7), (4, 6), (0, 0), (2, 2), (5, 6), (1, 1), (0, 4)):
        out.append(pre + [f'cat1:{a},{b}'])
    out.append(pre + [f'app:0:{g.bpr()}:0:8.9', f'app:6:{g.bpr()}:0:80.90', 'cat1:0,6'])
    # a refused extend keeps the elements before the refusal and leaves a usable sequence
    for v in (0, 1, 3, 4, 5):
        for pz in (1, 0):
            for good, extra in (('11.12/13', 1), ('11.12', 3), ('e/11', 2), ('-', 1), ('e', 2)):
                out.append(pre + [f'extbad:{v}:{g.bpr()}:{pz}:{good}:{extra}', f'app:{v}:{g.bpr()}:0:14.15',
                                  f'geti:{v}:-1', f'seti:{v}:0:5', f'ext:{v}:{g.bpr()}:1:16/17'])
    # a cached build: every append checks the trailing shape, a refusal changes nothing
    for v in (0, 1, 4):
        for bad in ['appbad:{v}'] + (['appbad:{v}:b'] if g.shape[0] >= 2 else []):
            out.append(pre + [f'app:{v}:{g.bpr()}:1:8.9', bad.format(v=v), f'app:{v}:{g.bpr()}:1:10', f'fin:{v}',
                              f'seti:{v}:-1:5'])
            out.append(pre + [bad.format(v=v), f'seti:{v}:0:77'])
    return out


def check_history(toks, steps, lays):
    fails, known = [], {}
    try:
        _check_history(toks, steps, lays, fails, known)
    except Exception as e:      # the implementation left the domain the expectations are written for
        fails.append(('diverged', len(fails), 'expectation could not be evaluated: ' + repr(e)))
    return fails, known


def _check_history(toks, steps, lays, fails, known):
    """Evaluate the property step by step on the implementation's own observations.
    steps[k] = '<res>#<obs>', lays[k] = layout string.  Returns (failures, findings) where a
    failure is (category, step, detail) and findings is a set of known-finding ids."""
    prev = {}
    prev_lay = {}
    pend = {}
    nslots = 0
    tr = Tracker()
    for k, tok in enumerate(toks):
        res, _, obs_s = steps[k].partition('#')
        cur = {i: v[1] for i, v in parse_obs(obs_s).items()}
        cur_lay = parse_lay(lays[k])
        f = tok.split(':')
        o = f[0]
        exp = {i: [list(e) for e in v] for i, v in prev.items()}
        exp_res = 'ok'
        cat_self = 'own_contents'
        target = None
        new_idx = None
        skip = False

        if o in EXT_OPS:
            stop = _check_ext(tok, f, res, prev, cur, prev_lay, cur_lay, nslots, k, fails, known)
            tr.apply(tok)
            if o in ('gett', 'cat1') and res == 'ok':
                nslots += 1
            if stop or fails:
                return fails, known
            prev, prev_lay = cur, cur_lay
            continue

        def cellstore():
            cells = {}
            sc = {}
            for x, (b, _, ol, _k) in prev_lay.items():
                sc[x] = [(b, o_, l_) for o_, l_ in ol]
                for c, v in zip(sc[x], prev.get(x, [])):
                    cells.setdefault(c, list(v))
            return cells, sc

        if o == 'new':
            new_idx = nslots
            exp[new_idx] = [e for e in dec_elems(f[4]) if e]
        elif o == 'cat':
            js = [int(p.split(',')[0]) for p in f[1].split(';')] if f[1] else []
            if not js:
                exp_res = 'err:Index'
            else:
                new_idx = nslots
                exp[new_idx] = [list(e) for j in js for e in prev[j]]
        else:
            i = int(f[1])
            target = i
            n = len(prev.get(i, []))
            if o == 'app':
                e = dec_elem(f[4])
                if e:
                    if pend.get(i) is not None or f[3] == '1':
                        pend[i] = (pend.get(i) or []) + [e]
                    else:
                        exp[i] = prev[i] + [e]
            elif o == 'fin':
                if pend.get(i) is not None:
                    exp[i] = prev[i] + pend[i]
                    pend[i] = None
            elif o == 'ext':
                els = dec_elems(f[4])
                if not (f[3] == '1' and not els):
                    if f[3] == '1' and pend.get(i) is not None:
                        skip = True      # extend(list) during a cached build: misuse, never generated
                    exp[i] = prev[i] + (pend.get(i) or []) + [e for e in els if e]
                    pend[i] = None
            elif o == 'extbad':
                # list semantics: the elements before the refused one are kept, an error is reported
                exp_res = 'err:Value'
                exp[i] = prev[i] + (pend.get(i) or []) + [e for e in dec_elems(f[4]) if e]
                pend[i] = None
            elif o == 'exts':
                j = int(f[3])
                if prev[j]:
                    exp[i] = prev[i] + [list(e) for e in prev[j]]
                    pend[i] = None
            elif o == 'geti':
                kk = int(f[2])
                exp_res = ('el=' + enc_elem(prev[i][kk])) if -n <= kk < n else 'err:Index'
            elif o in ('get', 'view'):
                ps = positions(n, dec_index(f[2])) if o == 'get' else list(range(n))
                if isinstance(ps, str):
                    exp_res = ps
                else:
                    new_idx = nslots
                    exp[new_idx] = [list(prev[i][p]) for p in ps]
            elif o in ('copy', 'dcopy'):
                new_idx = nslots
                exp[new_idx] = [list(e) for e in prev[i]]
                if o == 'dcopy' and pend.get(i) is not None:
                    pend[new_idx] = [list(e) for e in pend[i]]      # deepcopy clones the build cache too
            elif o == 'drop':
                exp.pop(i, None)
            elif o in ('seti', 'setr', 'set') or (o == 'op' and f[3] == '1'):
                cells, sc = cellstore()
                mine = sc.get(i, [])
                if o in ('seti', 'setr'):
                    kk = int(f[2])
                    if not -n <= kk < n:
                        exp_res = 'err:Index'
                    else:
                        c = mine[kk]
                        v = [int(f[3])] if o == 'seti' else dec_elem(f[3])
                        if len(v) == c[2]:
                            cells[c] = v
                        elif len(v) == 1:
                            cells[c] = v * c[2]
                        else:
                            exp_res = 'err:Value'
                elif o == 'set':
                    ps = positions(n, dec_index(f[2]))
                    if isinstance(ps, str):
                        exp_res = ps
                    elif f[3][0] == 'v':
                        for p in ps:
                            cells[mine[p]] = [int(f[3][1:])] * mine[p][2]
                    else:
                        j = int(f[3][1:])
                        src = sc.get(j, [])
                        if len(src) != len(ps) or sum(c[2] for c in src) != sum(mine[p][2] for p in ps):
                            exp_res = 'err:Value'
                        else:
                            for p, d in zip(ps, src):
                                v = list(cells[d])
                                if len(v) == mine[p][2]:
                                    cells[mine[p]] = v
                                elif len(v) == 1:
                                    cells[mine[p]] = v * mine[p][2]
                                else:
                                    exp_res = 'err:Value'
                                    skip = True      # partial assignment before the refusal
                                    break
                else:
                    if not mine:
                        exp_res = 'err:StopIteration'
                    elif i in prev_lay and inplace_refused(f[2].split(',')[0], prev_lay[i][3]):
                        exp_res = 'err:Type'      # a_bool += 7: what the arrays of a Python list do as well
                    for c in mine:
                        cells[c] = [apply_fn(f[2], v) for v in cells[c]]
                if exp_res == 'ok':
                    for x in exp:
                        exp[x] = [list(cells[c]) for c in sc.get(x, [])]
                    cat_self = 'own_contents'
            elif o == 'op':
                if not prev[i]:
                    exp_res = 'err:StopIteration'
                else:
                    new_idx = nslots
                    exp[new_idx] = [[apply_fn(f[2], v) for v in e] for e in prev[i]]
            elif o == 'opq':
                # a Python list of arrays:  for a, b in zip(A, B): a <op>= b   (element after element)
                j = int(f[3])
                A, B = prev[i], prev[j]
                if len(A) != len(B) or sum(map(len, A)) != sum(map(len, B)):
                    exp_res = 'err:Value'
                elif not A:
                    exp_res = 'err:StopIteration'
                elif f[4] == '1' and i in prev_lay and j in prev_lay and \
                        inplace_refused(f[2], prev_lay[i][3], prev_lay[j][3]):
                    # a_int += a_float raises (same_kind casting) on the first element, before anything is written
                    exp_res = 'err:Type'
                elif f[4] == '1':
                    cells, sc = cellstore()
                    for c, d in zip(sc[i], sc[j]):
                        e = elem_op(f[2], cells[c], cells[d])
                        if e is None:
                            exp_res = 'err:Value'
                            skip = True          # partial update before the refusal
                            break
                        cells[c] = e
                    if exp_res == 'ok':
                        for x in exp:
                            exp[x] = [list(cells[c]) for c in sc.get(x, [])]
                else:
                    out = [elem_op(f[2], a, b) for a, b in zip(A, B)]
                    if any(e is None for e in out):
                        exp_res = 'err:Value'
                    else:
                        new_idx = nslots
                        exp[new_idx] = out

        # ---- compare
        if not skip:
            if res == 'ok:rebound':
                fails.append(('inplace_rebinds_object', k,
                              f'{tok}: the in-place operator returned another object than the one it was applied to '
                              '(the name is silently rebound to a detached sequence)'))
            elif exp_res != res:
                fails.append(('result', k, f'{tok}: expected {exp_res}, got {res}'))
            if exp_res != 'ok' and exp_res == res and o != 'extbad':
                exp = {i: v for i, v in prev.items()}          # a refusal changes nothing
                new_idx = None
            if exp_res == res or res == 'ok':
                for x in sorted(set(exp) | set(cur)):
                    if exp.get(x) != cur.get(x):
                        if x == target or x == new_idx:
                            cat = cat_self
                        elif o in GROW or o == 'cat' or o == 'new':
                            cat = 'grow_isolated'
                        elif o in ('seti', 'setr', 'set'):
                            cat = 'view_write_through'
                        elif (o == 'op' and f[3] == '1') or (o == 'opq' and f[4] == '1'):
                            cat = 'inplace_all_or_none'
                        else:
                            cat = 'bystander_changed'
                        fails.append((cat, k, f'{tok}: seq {x} expected {exp.get(x)} got {cur.get(x)}'))
                        break
        # ---- an in-place operator must not change which buffer the object uses (no dtype change in place)
        if ((o == 'op' and f[3] == '1') or (o == 'opq' and f[4] == '1')) and res.startswith('ok') \
                and target in prev_lay and target in cur_lay:
            before = {x for x, v in prev_lay.items() if v[0] == prev_lay[target][0] and x in cur_lay}
            after = {x for x, v in cur_lay.items() if v[0] == cur_lay[target][0] and x in prev_lay}
            if before != after:
                fails.append(('inplace_rebinds_buffer', k,
                              f'{tok}: seq {target} shared its buffer with {sorted(before)} before and with '
                              f'{sorted(after)} after an in-place operator'))
        # ---- unconditional view semantics (Python list lineage): S-C15d
        if o in ('seti', 'setr', 'set') or (o == 'op' and f[3] == '1') or (o == 'opq' and f[4] == '1'):
            if res == 'ok' and target in prev_lay:
                mine = set(tr.seqs[target]['c']) if target < len(tr.seqs) else set()
                for x, sx in enumerate(tr.seqs):
                    if x == target or not sx['alive'] or x not in prev_lay:
                        continue
                    if mine & set(sx['c']) and prev_lay[x][0] != prev_lay[target][0]:
                        a, b2 = tr.seqs[target], sx
                        both = set(a['c']) | set(b2['c'])
                        # some sequence holding these elements (possibly a common ancestor, possibly
                        # dropped since) has been grown: growth is the only thing that may detach
                        if any(g['grew'] > 0 and both & set(g['c']) for g in tr.seqs):
                            known['S-C15d'] = known.get('S-C15d', 0) + 1
                        else:
                            fails.append(('view_detached_without_growth', k,
                                          f'{tok}: seq {x} and {target} share elements by lineage, not buffers'))
        tr.apply(tok)
        if res == 'ok' and (o in ('new', 'cat', 'get', 'view', 'copy', 'dcopy') or (o == 'op' and f[3] == '0')
                            or (o == 'opq' and f[4] == '0')):
            nslots += 1
        prev = cur
        prev_lay = cur_lay
    return fails, known


# ====================================================================== Tractogram layer
COMPS = ('S', 'P', 'M')      # streamlines, data_per_point['c'], data_per_streamline['m']


def parse_tobs(s):
    """'0=1.2/3|1001.1002/1003|5001/5003&1=-|~|~' -> {0: (S, P, M), ...}; None for a missing key"""
    out = {}
    if not s:
        return out
    for part in s.split('&'):
        i, _, body = part.partition('=')
        out[int(i)] = tuple(None if x == '~' else dec_elems(x) for x in body.split('|'))
    return out


class TTracker:
    """Naive model of Tractogram histories: a tractogram is three Python lists of arrays
    (streamlines 'S', data_per_point['c'] 'P', the rows of data_per_streamline['m'] 'M'); an array
    is a cell id.  t[idx] shares cells with t (views); t.copy(), t + other and everything `+=`
    appends or takes over from the other operand are NEW arrays."""

    def __init__(self):
        self.ncell = 0
        self.ts = []          # dict(S=[ids], P=[ids] or None, M=[ids] or None, alive)

    def cell(self):
        self.ncell += 1
        return self.ncell

    def fresh(self, ids):
        """new arrays for a copy; an array listed twice (a list index with repeats) stays one array listed
        twice: deepcopy keeps the offsets"""
        if ids is None:
            return None
        m = {}
        return [m.setdefault(c, self.cell()) for c in ids]

    def dealias(self, ids):
        """growth moves a view onto a compact buffer of its own: an element that was listed twice becomes
        two arrays (the first occurrence keeps the name; whether it still is the parent's array is left open)"""
        if ids is None:
            return None
        seen, out = set(), []
        for c in ids:
            out.append(self.cell() if c in seen else c)
            seen.add(c)
        return out

    def live(self):
        return [i for i, t in enumerate(self.ts) if t['alive']]

    def apply(self, tok):
        f = tok.split(':')
        o = f[0]
        T = self.ts
        if o in ('tnew', 'tnew8'):
            if f[1] == '-':
                T.append(dict(S=[], P=None, M=None, alive=True, lens=[]))
            else:
                els = [e for e in dec_elems(f[1]) if e]
                T.append(dict(S=[self.cell() for _ in els], P=[self.cell() for _ in els],
                              M=[self.cell() for _ in els], alive=True))
            return 'ok'
        i = int(f[1])
        t = T[i]
        if o in ('tadd', 'tiadd'):
            src = T[int(f[2])]
            if o == 'tadd':
                t = dict(S=self.fresh(t['S']), P=self.fresh(t['P']), M=self.fresh(t['M']), alive=True)
                T.append(t)
            grows = bool(src['S'])
            for c in COMPS:
                add = None if src[c] is None else [self.cell() for _ in src[c]]     # extend copies every element
                if add is not None:
                    base = t[c] or []
                    t[c] = (self.dealias(base) if grows and c != 'M' else base) + add
            return 'ok'
        if o == 'tcopy':
            T.append(dict(S=self.fresh(t['S']), P=self.fresh(t['P']), M=self.fresh(t['M']), alive=True))
            return 'ok'
        if o == 'tget':
            ps = positions(len(t['S']), dec_index(f[2]))
            if isinstance(ps, str):
                return ps
            isslice = isinstance(dec_index(f[2]), slice)
            new = {c: None if t[c] is None else [t[c][p] for p in ps] for c in ('S', 'P')}
            # data_per_streamline rows: a slice is a NumPy view, a list / mask index copies the rows
            new['M'] = None if t['M'] is None else ([t['M'][p] for p in ps] if isslice else [self.cell() for _ in ps])
            T.append(dict(alive=True, **new))
            return 'ok'
        if o == 'tdrop':
            t['alive'] = False
            return 'ok'
        ids = t[WCOMP[o]]
        if o in ('tset', 'tsetp', 'tsetm'):
            k = int(f[2])
            return 'ok' if -len(ids) <= k < len(ids) else 'err:Index'
        if o in ('tsets', 'tsetsp'):
            ps = positions(len(ids), dec_index(f[2]))
            return ps if isinstance(ps, str) else 'ok'
        if o in ('tiop', 'tiopp'):
            return 'ok' if ids else 'err:StopIteration'
        if o == 'taff':
            return 'ok'          # apply_affine returns early on an empty tractogram
        raise ValueError(tok)

    def written(self, tok):
        """cells written by tok (evaluated BEFORE apply)"""
        f = tok.split(':')
        o = f[0]
        if o not in WCOMP:
            return set()
        ids = self.ts[int(f[1])][WCOMP[o]]
        if o in ('tset', 'tsetp', 'tsetm'):
            k = int(f[2])
            return {ids[k]} if -len(ids) <= k < len(ids) else set()
        if o in ('tsets', 'tsetsp'):
            ps = positions(len(ids), dec_index(f[2]))
            return set() if isinstance(ps, str) else {ids[p] for p in ps}
        return set(ids)


WCOMP = {'tset': 'S', 'tsets': 'S', 'tiop': 'S', 'tsetp': 'P', 'tsetsp': 'P', 'tiopp': 'P', 'tsetm': 'M', 'taff': 'S'}


def check_thistory(toks, steps):
    """Direct predicate for the Tractogram layer, step by step on the implementation's own
    observations (expected values are computed from the PREVIOUS observation, the tracker only
    supplies which list entries are the same array in the list model):
    * a created object (t + other, t.copy(), t[idx]) shows the list-model contents, `t += other`
      gives t exactly its old contents followed by other's, nothing else changes (growth isolation);
    * an assignment / in-place operator through t gives t exactly the list-model contents, and
      changes NO tractogram that does not share arrays with t in the list model (a copy, a sum —
      whatever the operands, Tractogram() + t included);
      for tractograms that do share by lineage (t[idx]) each shared array either took the new
      value or kept the old one (growth may have detached them, S-C15d; fancy indexing copies the
      per-streamline rows), the others are unchanged.
    Streamlines, data_per_point['c'] and data_per_streamline['m'] are all compared."""
    fails, known = [], {}
    tr = TTracker()
    prev = {}
    try:
        for k, tok in enumerate(toks):
            res, _, obs_s = steps[k].partition('#')
            cur = parse_tobs(obs_s)
            f = tok.split(':')
            o = f[0]
            target = int(f[1]) if o not in ('tnew', 'tnew8') else None
            old_ids = {i: {c: (None if t[c] is None else list(t[c])) for c in COMPS} for i, t in enumerate(tr.ts)}
            wr = tr.written(tok)
            exp_res = tr.apply(tok)
            if exp_res != res:
                fails.append(('result', k, f'{tok}: expected {exp_res}, got {res}'))
                break
            is_write = o in WCOMP
            wcomp = COMPS.index(WCOMP[o]) if is_write else None

            def g(old):
                if o in ('tiop', 'tiopp'):
                    return [apply_fn(f[2], v) for v in old]
                if o == 'taff':
                    return [v + int(f[2]) for v in old]
                return [int(f[-1])] * len(old)

            def cat2(a, b):
                return a if b is None else b if a is None else a + b

            new_idx = len(tr.ts) - 1 if (res == 'ok' and o in ('tnew', 'tnew8', 'tadd', 'tcopy', 'tget')) else None
            for i in tr.live():
                if i not in cur:
                    fails.append(('missing', k, f'{tok}: tractogram {i} not observed'))
                    break
                for ci, comp in enumerate(COMPS):
                    got = cur[i][ci]
                    if res != 'ok':
                        exp = [[x] for x in prev[i][ci]] if prev[i][ci] is not None else None
                    elif i == new_idx:
                        if o in ('tnew', 'tnew8'):
                            if f[1] == '-':
                                e1 = [] if ci == 0 else None
                            else:
                                els = [e for e in dec_elems(f[1]) if e]
                                e1 = (els if ci == 0 else [[v + 1000 for v in e] for e in els] if ci == 1
                                      else [[e[0] + 5000] for e in els])
                        elif o == 'tadd':
                            e1 = cat2(prev[target][ci], prev[int(f[2])][ci])
                        elif o == 'tcopy':
                            e1 = prev[target][ci]
                        else:
                            ps = positions(len(prev[target][0]), dec_index(f[2]))
                            e1 = None if prev[target][ci] is None else [prev[target][ci][p] for p in ps]
                        exp = None if e1 is None else [[x] for x in e1]
                    elif o == 'tiadd' and i == target:
                        e1 = cat2(prev[i][ci], prev[int(f[2])][ci])
                        exp = None if e1 is None else [[x] for x in e1]
                    elif is_write and ci == wcomp and prev[i][ci] is not None:
                        ids = old_ids[i][comp]
                        tids = old_ids[target][comp] or []
                        exp = []
                        for q, old in enumerate(prev[i][ci]):
                            if ids[q] in wr:
                                # an in-place operator / apply_affine updates an array once per occurrence in
                                # the target (a list-index view with repeats); an assignment is idempotent
                                new = old
                                for _ in range(tids.count(ids[q]) if o in ('tiop', 'tiopp', 'taff') else 1):
                                    new = g(new)
                                exp.append([new] if i == target else [new, old])
                            else:
                                exp.append([old])
                    else:
                        exp = None if prev[i][ci] is None else [[x] for x in prev[i][ci]]
                    ok = (got is None) == (exp is None)
                    if ok and got is not None:
                        ok = len(got) == len(exp) and all(gv in ev for gv, ev in zip(got, exp))
                    if ok:
                        if is_write and i != target and got is not None and comp != 'M' and any(
                                len(ev) == 2 and gv == ev[1] and ev[0] != ev[1] for gv, ev in zip(got, exp)):
                            known['S-C15d'] = known.get('S-C15d', 0) + 1
                        continue
                    cat = ('own_contents' if i == target or i == new_idx else
                           'grow_isolated' if o in ('tiadd', 'tadd') else
                           'derived_alters_source' if is_write else 'bystander_changed')
                    fails.append((cat, k, f'{tok}: tractogram {i} {comp} expected {exp} got {got}'))
                    break
                if fails:
                    break
            if fails:
                break
            prev = cur
    except Exception as e:
        fails.append(('diverged', len(toks), 'expectation could not be evaluated: ' + repr(e)))
    return fails, known


def tract_core():
    """seed-independent Tractogram histories: derive x (grow) x write, for several sources"""
    out = []
    inits = ['tnew:1.2/3/4.5.6', 'tnew8:7/8/9']
    writes = lambda d: [f'tset:{d}:0:77', f'tsetp:{d}:-1:88', f'tsetm:{d}:0:99', f'tsets:{d}:s,n,n,2:55',
                        f'tsetsp:{d}:s,n,n,n:66', f'tiop:{d}:add,100', f'tiopp:{d}:mul,2', f'taff:{d}:100']
    for init in inits:
        # objects: 0 = source, 1 = Tractogram(), 2 = source[0:0], 3 = source[[]] (empty list index), 4 = another one
        pre = [init, 'tnew:-', 'tget:0:s,0,0,n', 'tget:0:l', 'tnew:20.21/22']
        derives = [['tadd:0:1'], ['tadd:0:2'], ['tadd:0:3'], ['tadd:0:4'], ['tadd:0:0'], ['tcopy:0'],
                   ['tget:0:s,n,n,n'], ['tget:0:s,1,n,n'], ['tget:0:l,2,0'], ['tget:0:m,1,0,1'],
                   ['tget:0:l,0,0,0'], ['tget:0:l,0,0'], ['tget:0:l,1,0,1'],      # repeated indices (S-C15k)
                   ['tget:0:s,n,n,n', 'tadd:5:1'], ['tget:0:s,1,n,n', 'tadd:5:2'], ['tcopy:0', 'tget:5:s,n,2,n'],
                   ['tadd:2:0'], ['tadd:2:1']]
        for d in derives:
            new = 5 + len(d) - 1
            for grow in ([], [f'tiadd:{new}:1'], [f'tiadd:{new}:2'], [f'tiadd:{new}:4'], [f'tiadd:{new}:0'], ['tiadd:0:4']):
                for w in writes(new) + writes(0):
                    out.append(pre + d + grow + [w])
    # a left operand without keys: Tractogram() + t, e += t must be independent of t in all three components
    for w in ('tsetp:{d}:0:77', 'tiopp:{d}:add,5', 'tset:{d}:0:9', 'tsetm:{d}:-1:66', 'tsetsp:{d}:s,n,n,n:44'):
        out.append(['tnew:1.2/3/4.5.6', 'tnew:-', 'tadd:1:0', w.format(d=2)])
        out.append(['tnew:1.2/3/4.5.6', 'tnew:-', 'tiadd:1:0', w.format(d=1)])
        out.append(['tnew:1.2/3/4.5.6', 'tnew:-', 'tadd:1:0', w.format(d=0)])
        out.append(['tnew:1.2/3/4.5.6', 'tnew:-', 'tget:0:s,1,n,n', 'tiadd:1:2', w.format(d=1)])
    return out


def tract_random(rng, depth):
    tr = TTracker()
    toks = []
    cnt = [30]

    def push(t):
        toks.append(t)
        tr.apply(t)

    def elems():
        els = []
        for _ in range(rng.choice([1, 2, 3])):
            n = rng.choice([1, 1, 2, 3])
            els.append(list(range(cnt[0], cnt[0] + n)))
            cnt[0] += n
        return enc_elems(els)

    push(rng.choice(['tnew:', 'tnew8:']) + elems())
    push('tnew:-')
    nmul = 0
    for _ in range(depth):
        live = tr.live()
        keyed = [i for i in live if tr.ts[i]['P'] is not None]
        if not keyed:
            push('tnew:' + elems())
            continue
        i = rng.choice(keyed)
        n = len(tr.ts[i]['S'])
        kind = rng.choice(['add', 'add', 'iadd', 'copy', 'get', 'get', 'set', 'setp', 'setm', 'sets', 'setsp', 'iop',
                           'iopp', 'new', 'drop', 'eadd', 'aff'])
        if len(live) > 8 and kind in ('add', 'copy', 'get', 'new'):
            kind = 'drop'
        if kind in ('add', 'iadd'):
            cands = [j for j in live if len(tr.ts[j]['S']) + n <= 10]
            if cands:
                j = rng.choice(cands + [1] * (1 in live))
                push(f't{kind}:{i}:{j}')
        elif kind == 'copy':
            push(f'tcopy:{i}')
        elif kind == 'get':
            r = rng.random()
            if r < 0.5:
                c = [None] + list(range(-n - 1, n + 2))
                push(f'tget:{i}:' + enc_slice(rng.choice(c), rng.choice(c), rng.choice([None, 1, 2, -1])))
            elif r < 0.8:
                ks = rng.sample(range(n), rng.randrange(0, n + 1)) if n else []
                if n and rng.random() < 0.3:
                    ks = [rng.randrange(n) for _ in range(rng.randrange(1, 4))]      # repeats allowed
                push(f'tget:{i}:l' + ''.join(f',{k}' for k in ks))
            else:
                push(f'tget:{i}:m' + ''.join(',' + str(rng.randrange(2)) for _ in range(n)))
        elif kind == 'eadd':
            # a key-less left operand: a fresh Tractogram() takes over everything from i
            push('tnew:-')
            e = len(tr.ts) - 1
            push(f't{rng.choice(["add", "iadd"])}:{e}:{i}')
        elif kind in ('set', 'setp', 'setm') and n:
            push(f't{kind}:{i}:{rng.randrange(-n, n)}:{rng.randrange(200, 300)}')
        elif kind in ('sets', 'setsp'):
            c = [None] + list(range(-n - 1, n + 2))
            push(f't{kind}:{i}:' + enc_slice(rng.choice(c), rng.choice(c), rng.choice([None, 1, 2, -1])) +
                 f':{rng.randrange(300, 400)}')
        elif kind in ('iop', 'iopp') and n:
            if rng.random() < 0.3 and nmul < 3:
                nmul += 1
                push(f't{kind}:{i}:mul,2')
            else:
                push(f't{kind}:{i}:add,{rng.choice([10, 100])}')
        elif kind == 'aff':
            push(f'taff:{i}:{rng.choice([10, 100])}')
        elif kind == 'new':
            push('tnew:' + elems())
        elif kind == 'drop' and len(keyed) > 1 and i != 0:
            push(f'tdrop:{i}')
    return toks
