"""C19 — FreeSurfer surface, morphometry, annotation and MGH files round-trip.

Model: coq/C19/Model.v; theorems coq/C19/Props.v.

Case lines sent to bin/modelrun_c19 (byte strings x<hex>, integer lists [a,b], see driver.ml):
  gw <stamp> <nv> <nf> <coords f32 bits> <faces> [<head> <valid> <filename> <tok,tok,tok/...>]
  gr <read_metadata> <file bytes>
  mw <shape> <values f32 bits> <fnum>          mr <file bytes>
  aw <dtype -|bits:signed> <labels> <row/row/...> <name,name,...> <fill_ctab>     ar <orig_ids> <file bytes>
  hw <7 ints> <goodRASFlag> <15 f32 bits> <5 footer bits> <data bytes>          hr <file bytes>
  shape <shape>   mshape <shape>   pack <dtype> <row>
Compared with the implementation: the bytes of every written file, and what read_* / from_bytes
return from those bytes.  The property predicate (read back == written) is evaluated on the
implementation alone.
"""
import json
import os
import random
import struct
import warnings

import numpy as np

from common import Check, ensure_impl_path, run_model, vm_crosscheck

PROP = 'C19'

S_C19A = ('S-C19a', 'annotation: a label whose colour packs to annotation value 0 (black, R=G=B=0) is written as 0 = '
          '"unlabeled" and reads back as -1 (format limitation)')
S_C01A = ('S-C01a-C19', 'MGHImage of a 1-D or 2-D array reloads with its shape padded to 3-D (values equal)')


def hx(b):
    return 'x' + bytes(b).hex()


def zl(l):
    return '[' + ','.join(str(int(x)) for x in l) + ']'


def unzl(t):
    t = t.strip()[1:-1]
    return [int(x) for x in t.split(',')] if t else []


def f32bits(a):
    """bit patterns of an array seen as float32 (C order)"""
    return [int(x) for x in np.ascontiguousarray(np.asarray(a, dtype=np.float32)).reshape(-1).view(np.uint32)]


SPECIAL_F32 = [0x00000000, 0x80000000, 0x00000001, 0x807fffff, 0x00800000, 0x7f7fffff, 0xff7fffff, 0x7f800000,
               0xff800000, 0x7fc00000, 0xffc00001, 0x7fc12345, 0x3f800000, 0xbf800000, 0x42f6e979, 0x3eaaaaab]


def rand_f32(rng, n, special=0.3):
    out = []
    for _ in range(n):
        r = rng.random()
        if r < special:
            out.append(rng.choice(SPECIAL_F32))
        elif r < 0.6:
            out.append(struct.unpack('>I', struct.pack('>f', rng.uniform(-300, 300)))[0])
        else:
            b = rng.getrandbits(32)
            if (b & 0x7f800000) == 0x7f800000 and (b & 0x007fffff):
                b |= 0x00400000                      # quiet NaNs only (a signalling NaN does not survive f4->f8->f4)
            out.append(b)
    return out


def bits_to_f32(bits, shape):
    return np.array(bits, dtype=np.uint32).view(np.float32).reshape(shape)


LAYOUTS = ['C', 'F', 'T', 'S', 'N']


def with_layout(a, layout):
    """an array equal to `a` index by index, with another memory layout: C / Fortran order, a transposed view
    (what np.vstack([x, y, z]).T gives), a strided view (every second row of a larger array), negative strides"""
    a = np.asarray(a)
    if a.ndim == 0:
        return a                      # (np.ascontiguousarray would make it 1-D)
    if layout == 'C':
        return np.ascontiguousarray(a)
    if layout == 'F':
        return np.asfortranarray(a)
    if layout == 'T':
        return np.ascontiguousarray(a.T).T
    if layout == 'S':
        big = np.zeros((2 * a.shape[0] + 1,) + a.shape[1:], dtype=a.dtype)
        big[1::2] = a
        return big[1::2]
    b = np.ascontiguousarray(a[::-1])
    return b[::-1]


# --------------------------------------------------------------------------- geometry
def fmt10g(v):
    return '%.10g' % v


def gen_vinfo(rng, kind):
    if kind == 0:
        return None
    if kind == 1:
        return {}
    vi = {}
    vi['head'] = [20] if rng.random() < 0.5 else [2, 0, 20]
    vi['valid'] = rng.choice(['1  # volume info valid', '1', '0 # no', 'yes'])
    vi['filename'] = rng.choice(['../mri/filled-pretess255.mgz', 'a b/c d.mgz', 'x', 'ü/é.mgz'])
    vi['volume'] = [rng.randrange(1, 512) for _ in range(3)]

    def fl():
        r = rng.random()
        if r < 0.4:
            return rng.choice([0.0, 1.0, -1.0, 0.5, 256.0, -128.25, 1e-3])
        if r < 0.7:
            return round(rng.uniform(-300, 300), rng.randrange(0, 7))
        return rng.uniform(-1e3, 1e3) * 10 ** rng.randrange(-12, 12)
    for k in ('voxelsize', 'xras', 'yras', 'zras', 'cras'):
        vi[k] = [fl() for _ in range(3)]
    return vi


def vinfo_arrays(vi):
    """the dict-like the API takes: arrays for the numeric keys"""
    if not vi:
        return vi
    from collections import OrderedDict
    out = OrderedDict()
    out['head'] = np.array(vi['head'], dtype=np.int32)
    out['valid'], out['filename'] = vi['valid'], vi['filename']
    out['volume'] = np.array(vi['volume'])
    for k in ('voxelsize', 'xras', 'yras', 'zras', 'cras'):
        out[k] = np.array(vi[k], dtype=float)
    return out


def vinfo_args(vi):
    nums = [[str(int(x)) for x in vi['volume'][:3]]] + [[fmt10g(x) for x in vi[k][:3]] for k in
                                                         ('voxelsize', 'xras', 'yras', 'zras', 'cras')]
    return ' '.join([zl(vi['head']), hx(vi['valid'].encode()), hx(vi['filename'].encode()),
                     '/'.join(','.join(hx(t.encode()) for t in g) for g in nums)])


STAMPS = ['', 'created by me on Mon', 'created by ü on  Jän 1', 'x' * 300, ' lead and trail ', 'a=b # c']


def gen_geometry(chk):
    rng = chk.rng
    cases = []
    # seed independent core: every (nv, nf) in 0..3 x 0..3, both input dtypes, each vinfo kind
    k = 0
    for nv in range(0, 4):
        for nf in range(0, 4):
            for f64 in (False, True):
                cases.append(dict(nv=nv, nf=nf, coords=[SPECIAL_F32[(k + i) % len(SPECIAL_F32)] for i in range(nv * 3)],
                                  faces=[(i * 7 + k) % max(nv, 1) for i in range(nf * 3)], f64=f64,
                                  stamp=STAMPS[k % len(STAMPS)], vkind=k % 3, vi=gen_vinfo(rng, k % 3), idt='int32' if k % 2 else 'int64',
                                  clay=LAYOUTS[k % 5], flay=LAYOUTS[(k // 5) % 5]))
                k += 1
    for _ in range(chk.n(1500, 12000)):
        nv = rng.choice([0, 1, 2, 3, 5, 8, 17])
        nf = rng.choice([0, 1, 2, 4, 9])
        faces = [rng.randrange(0, max(nv, 1)) for _ in range(nf * 3)]
        if rng.random() < 0.1 and nf:
            faces[rng.randrange(len(faces))] = rng.choice([-1, 2 ** 31 - 1, -2 ** 31])
        vk = rng.choice([0, 1, 2, 2])
        cases.append(dict(nv=nv, nf=nf, coords=rand_f32(rng, nv * 3), faces=faces, f64=rng.random() < 0.3,
                          stamp=rng.choice(STAMPS), vkind=vk, vi=gen_vinfo(rng, vk), idt=rng.choice(['int32', 'int64']),
                          clay=rng.choice(LAYOUTS), flay=rng.choice(LAYOUTS)))
    return cases


def run_geometry(chk, path, cases=None):
    from nibabel.freesurfer import io as fio
    cases = gen_geometry(chk) if cases is None else cases
    lines, obs = [], []
    for i, c in enumerate(cases):
        coords = bits_to_f32(c['coords'], (c['nv'], 3))
        if c['f64']:
            with np.errstate(all='ignore'):
                coords = coords.astype(np.float64)
        faces = with_layout(np.array(c['faces'], dtype=c['idt']).reshape(c['nf'], 3), c.get('flay', 'C'))
        coords = with_layout(coords, c.get('clay', 'C'))
        vi = c['vi']
        with warnings.catch_warnings():
            warnings.simplefilter('ignore')
            fio.write_geometry(path, coords, faces, create_stamp=c['stamp'], volume_info=vinfo_arrays(vi))
            raw = open(path, 'rb').read()
            rc, rf, rvi, rstamp = fio.read_geometry(path, read_metadata=True, read_stamp=True)
            rc2, rf2 = fio.read_geometry(path)
        o = dict(raw=raw, coords=f32bits(rc), faces=[int(x) for x in rf.reshape(-1)], shape=(rc.shape, rf.shape),
                 stamp=rstamp, vi=rvi, plain_same=(f32bits(rc2) == f32bits(rc) and np.array_equal(rf, rf2)))
        obs.append(o)
        args = f"{hx(c['stamp'].encode())} {c['nv']} {c['nf']} {zl(c['coords'])} {zl(np.array(c['faces'], dtype=c['idt']))}"
        if vi:
            args += ' ' + vinfo_args(vi)
        lines.append(f'g{i}.w gw {args}')
        lines.append(f'g{i}.r gr 1 {hx(raw)}')
        chk.count(key=('geom', c['nv'], c['nf'], tuple(c['coords'][:6]), c['stamp'][:8], c['vkind']) if c['nv'] + c['nf'] else None,
                  tag=f"geometry:nv={min(c['nv'], 4)}{'+' if c['nv'] > 4 else ''}",
                  sample={'kind': 'geometry', 'nv': c['nv'], 'nf': c['nf'], 'stamp': c['stamp'][:20], 'vinfo': c['vkind']} if i in (20, 77) else None)
        chk.tagc('geometry:vinfo=' + ['none', 'empty', 'full'][c['vkind']])
        chk.tagc('geometry:coords_layout=' + c.get('clay', 'C'))
    got = run_model(PROP, lines)
    for i, (c, o) in enumerate(zip(cases, obs)):
        dis = []
        if got.get(f'g{i}.w') != 'ok ' + hx(o['raw']):
            dis.append(('write_geometry bytes', got.get(f'g{i}.w', '')[:200], hx(o['raw'])[:200]))
        exp = f"ok stamp={hx(o['stamp'].encode())} {c['nv']} {c['nf']} coords={zl(o['coords'])} faces={zl(o['faces'])} vi="
        mr = got.get(f'g{i}.r', '<missing>')
        if not mr.startswith(exp):
            dis.append(('read_geometry', mr[:300], exp[:300]))
        else:
            mvi = mr[len(exp):]
            if not o['vi']:
                if mvi != '-':
                    dis.append(('read_geometry volume info', mvi[:200], 'empty'))
            else:
                dis += cmp_vinfo(mvi, o['vi'])
        # ---- property predicate on the implementation
        pred = None
        want_faces = [int(x) for x in np.array(c['faces'], dtype=c['idt']).astype('>i4')]
        in_range = all(-2 ** 31 <= x < 2 ** 31 for x in c['faces'])
        if o['shape'] != ((c['nv'], 3), (c['nf'], 3)):
            pred = f"shapes {o['shape']}"
        elif not same_f32(o['coords'], c['coords']):
            pred = 'vertex coordinates differ (single precision)'
        elif in_range and o['faces'] != want_faces:
            pred = 'faces differ'
        elif o['stamp'] != c['stamp']:
            pred = f"create stamp {o['stamp']!r} != {c['stamp']!r}"
        elif not o['plain_same']:
            pred = 'read_geometry without metadata returns something else'
        elif c['vi']:
            pred = vinfo_pred(c['vi'], o['vi'])
        elif o['vi']:
            pred = 'volume info appeared from nowhere'
        finish_case(chk, 'geometry', c, dis, pred, got.get(f'g{i}.w', '')[:200], o)


def same_f32(a, b):
    if len(a) != len(b):
        return False
    for x, y in zip(a, b):
        nx = (x & 0x7f800000) == 0x7f800000 and (x & 0x7fffff)
        ny = (y & 0x7f800000) == 0x7f800000 and (y & 0x7fffff)
        if nx or ny:
            if not (nx and ny):
                return False
        elif x != y:
            return False
    return True


def cmp_vinfo(mvi, vi):
    """model's tokens (from the implementation's file) against what the implementation parsed"""
    try:
        parts = dict(p.split('=', 1) for p in mvi.split(' '))
        head = unzl(parts['head'])
        nums = [[bytes.fromhex(t[1:]).decode() for t in g.split(',')] if g else [] for g in parts['nums'].split('/')]
        ok = (head == [int(x) for x in vi['head']] and bytes.fromhex(parts['valid'][1:]).decode() == vi['valid']
              and bytes.fromhex(parts['filename'][1:]).decode() == vi['filename']
              and [int(t) for t in nums[0]] == [int(x) for x in vi['volume']]
              and all([float(t) for t in nums[1 + j]] == [float(x) for x in vi[k]]
                      for j, k in enumerate(('voxelsize', 'xras', 'yras', 'zras', 'cras'))))
    except Exception as e:   # noqa
        return [('read_geometry volume info', mvi[:200], repr(e))]
    return [] if ok else [('read_geometry volume info', mvi[:300], repr(dict(vi))[:300])]


def vinfo_pred(w, r):
    if not r:
        return 'volume info lost'
    try:
        if [int(x) for x in r['head']] != [int(x) for x in w['head']]:
            return 'volume info head differs'
        if r['valid'] != w['valid'] or r['filename'] != w['filename']:
            return 'volume info strings differ'
        if [int(x) for x in r['volume']] != [int(x) for x in w['volume']]:
            return 'volume info volume differs'
        for k in ('voxelsize', 'xras', 'yras', 'zras', 'cras'):
            # the footer is text with 10 significant digits: that is the format, not a loss of the library
            if [float(x) for x in r[k]] != [float(fmt10g(x)) for x in w[k]]:
                return f'volume info {k} differs beyond the 10 significant digits of the text footer'
    except KeyError as e:
        return f'volume info key {e} missing'
    return None


def finish_case(chk, kind, case, dis, pred, mout, o, known=None):
    case = dict(case, kind=kind)
    if pred:
        if known:
            chk.known(*known)
        else:
            report(chk, 'property_violation', case=case, predicate=pred, model_output=mout,
                   impl_output={k: (v.hex()[:400] if isinstance(v, bytes) else repr(v)[:400]) for k, v in o.items()})
    if dis:
        chk.disagreements += 1
        if not pred:
            report(chk, 'correspondence', case=case, model_output=str(dis[0][1])[:400], impl_output=str(dis[0][2])[:400],
                   found_input=False, predicate='model and implementation disagree at ' + dis[0][0] +
                   '; the property predicate holds on this case',
                   theorem='correspondence C19/Model.v <-> nibabel/freesurfer')


def report(chk, kind, **kw):
    n = sum(1 for k, _, _ in chk.violations if k == kind)
    if n < 12:
        chk.violation(kind, **kw)
    else:
        chk.tagc('unreported_' + kind)


# --------------------------------------------------------------------------- morphometry
MORPH_BAD_SHAPES = [(), (2, 2), (2, 1, 1, 1), (1, 1, 2), (2, 0), (1, 2, 1), (0, 0), (3, 1, 2)]


def gen_morph(chk):
    rng = chk.rng
    cases = []
    k = 0
    for n in range(0, 6):
        for sh in ((n,), (n, 1), (1, n), (n, 1, 1)):
            cases.append(dict(shape=sh, values=[SPECIAL_F32[(k + i) % len(SPECIAL_F32)] for i in range(n)], fnum=[0, 7, 2 ** 31 - 1, -2 ** 31][k % 4], f64=False, lay=LAYOUTS[k % 5]))
            k += 1
    for sh in MORPH_BAD_SHAPES:
        cases.append(dict(shape=sh, values=[0x3f800000] * int(np.prod(sh)), fnum=0, f64=False))
    for fnum in (2 ** 31, -2 ** 31 - 1):
        cases.append(dict(shape=(2,), values=[1, 2], fnum=fnum, f64=False))
    for _ in range(chk.n(1500, 12000)):
        n = rng.choice([0, 1, 2, 3, 7, 20, 64])
        sh = rng.choice([(n,), (n, 1), (1, n), (n, 1, 1)])
        cases.append(dict(shape=sh, values=rand_f32(rng, n), fnum=rng.choice([0, 0, n * 2, rng.randrange(-5, 10 ** 6)]),
                          f64=rng.random() < 0.3, lay=rng.choice(LAYOUTS)))
    return cases


def run_morph(chk, path, cases=None):
    from nibabel.freesurfer import io as fio
    cases = gen_morph(chk) if cases is None else cases
    lines, obs = [], []
    for i, c in enumerate(cases):
        vals = bits_to_f32(c['values'], c['shape'])
        if c['f64']:
            with np.errstate(all='ignore'):
                vals = vals.astype(np.float64)
        vals = with_layout(vals, c.get('lay', 'C'))
        o = {}
        try:
            with warnings.catch_warnings():
                warnings.simplefilter('ignore')
                fio.write_morph_data(path, vals, fnum=c['fnum'])
            o['raw'] = open(path, 'rb').read()
            r = fio.read_morph_data(path)
            o['read'] = [int(x) for x in np.asarray(r).astype('>f4').view('>u4')]
            o['rshape'] = r.shape
            o['rdtype'] = str(r.dtype)
        except ValueError as e:
            o['err'] = type(e).__name__
            chk.refusal('morph:ValueError')
        obs.append(o)
        lines.append(f"m{i}.w mw {zl(c['shape'])} {zl(c['values'])} {c['fnum']}")
        lines.append(f"m{i}.s mshape {zl(c['shape'])}")
        if 'raw' in o:
            lines.append(f"m{i}.r mr {hx(o['raw'])}")
        n = int(np.prod(c['shape']))
        chk.count(key=('morph', c['shape'], tuple(c['values'][:4]), c['fnum']), tag=f"morph:shape_rank={len(c['shape'])}",
                  sample={'kind': 'morph', 'shape': c['shape'], 'fnum': c['fnum']} if i == 9 else None)
        chk.tagc('morph:n=0' if n == 0 else 'morph:n>0')
    got = run_model(PROP, lines)
    for i, (c, o) in enumerate(zip(cases, obs)):
        dis, pred = [], None
        mw = got.get(f'm{i}.w', '<missing>')
        if 'err' in o:
            if not mw.startswith('err '):
                dis.append(('write_morph_data refusal', mw[:100], o['err']))
            acc = len(c['shape']) > 0 and tuple(c['shape']) in ((n_ := int(np.prod(c['shape'])),), (n_, 1), (1, n_), (n_, 1, 1))
            if acc and -2 ** 31 <= c['fnum'] < 2 ** 31:
                pred = 'an accepted shape was refused: ' + o['err']
        else:
            if mw != 'ok ' + hx(o['raw']):
                dis.append(('write_morph_data bytes', mw[:200], hx(o['raw'])[:200]))
            if got.get(f'm{i}.r') != 'ok ' + zl(o['read']):
                dis.append(('read_morph_data', got.get(f'm{i}.r', '')[:200], zl(o['read'])[:200]))
            n = int(np.prod(c['shape']))
            if o['rshape'] != (n,):
                pred = f"read shape {o['rshape']}"
            elif not same_f32(o['read'], c['values']):
                pred = 'morphometry values differ'
        finish_case(chk, 'morph', c, dis, pred, mw[:200], o)


# --------------------------------------------------------------------------- annotation
DTYPES = {'int64': '-', 'int32': '32:1', 'uint8': '8:0', 'int8': '8:1', 'int16': '16:1', 'uint16': '16:0', 'uint32': '32:0'}
NARROW = ['uint8', 'int8', 'int16', 'uint16']


def exact_pack(row):
    return int(row[0]) + int(row[1]) * 256 + int(row[2]) * 65536


def gen_annot(chk):
    rng = chk.rng
    cases = []

    def table(n, black=False, top=256):
        while True:
            rows = [[rng.randrange(top) for _ in range(4)] for _ in range(n)]
            if black:
                rows[rng.randrange(n)][:3] = [0, 0, 0]
            packs = [exact_pack(r) for r in rows]
            if len(set(packs)) == n and (black or 0 not in packs):
                return rows
    # str names whose UTF-8 encoding is 2 or more bytes longer than the character count, too
    names_pool = ['unknown', 'bankssts', 'G_and_S_frontomargin', 'é', '', 'n' * 300, 'a b', 'éü', '中文', 'gyrus précentral', 'x\x00y']
    k = 0
    for n in range(1, 6):
        for nl in (1, 2, 5):
            for fill in (True, False):
                rows = table(n)
                labels = [((i * 3 + k) % (n + 1)) - 1 for i in range(nl)]
                cases.append(dict(rows=rows, labels=labels, names=[names_pool[(k + j) % 10] for j in range(n)], fill=fill,
                                  cols=5 if (not fill or k % 2) else 4, dtype='int64' if k % 3 else 'int32', probe=None))
                k += 1
    # the case that leaves the quantifier on purpose (S-C19a)
    cases.append(dict(rows=[[0, 0, 0, 0], [10, 20, 30, 0], [1, 0, 0, 255]], labels=[0, 1, 2, -1, 0], names=['black', 'b', 'c'],
                      fill=True, cols=4, dtype='int64', probe='black'))
    # narrow integer colour tables (the repaired S-C19b): they must simply round-trip
    cases.append(dict(rows=[[10, 20, 30, 0], [10, 40, 50, 0], [200, 1, 2, 0]], labels=[0, 1, 2, -1, 1], names=['a', 'b', 'c'],
                      fill=True, cols=4, dtype='uint8', probe=None))
    cases.append(dict(rows=[[10, 20, 30, 0], [10, 40, 50, 0], [200, 1, 200, 0]], labels=[0, 1, 2, -1, 1], names=['a', 'b', 'c'],
                      fill=True, cols=4, dtype='int16', probe=None))
    for dt in NARROW + ['uint32']:
        for n in (1, 3, 6):
            cases.append(dict(rows=table(n, top=128 if dt == 'int8' else 256), labels=[(i % (n + 1)) - 1 for i in range(2 * n + 1)],
                              names=['n%d' % j for j in range(n)], fill=True, cols=4, dtype=dt, probe=None))
    # multi-byte names, given as str and as bytes in the same table
    cases.append(dict(rows=table(4), labels=[0, 1, 2, 3, -1], names=['éü', '中文', 'abc', 'ÄÖÜäöü'], as_bytes=[False, False, True, True],
                      fill=True, cols=4, dtype='int64', probe=None))
    # refusals
    cases.append(dict(rows=table(3), labels=[], names=['a', 'b', 'c'], fill=True, cols=4, dtype='int64', probe=None))
    cases.append(dict(rows=table(3), labels=[0, 3], names=['a', 'b', 'c'], fill=True, cols=4, dtype='int64', probe=None))
    cases.append(dict(rows=table(3), labels=[0, -4], names=['a', 'b', 'c'], fill=True, cols=4, dtype='int64', probe=None))
    for _ in range(chk.n(2000, 16000)):
        n = rng.choice([1, 2, 3, 5, 9, 36])
        fill = rng.random() < 0.7
        dt = rng.choice(['int64', 'int64', 'int32'])
        if fill and rng.random() < 0.35:
            dt = rng.choice(NARROW + ['uint32'])      # 4 columns only: a packed value does not fit a narrow type
        narrow = dt in NARROW
        cases.append(dict(rows=table(n, top=128 if dt == 'int8' else 256),
                          labels=[rng.randrange(-1, n) for _ in range(rng.choice([1, 2, 5, 17, 40]))],
                          names=[rng.choice(names_pool[:10]) for _ in range(n)], fill=fill,
                          cols=5 if not fill else (4 if narrow else rng.choice([4, 5])), dtype=dt, probe=None))
    return cases


def run_annot(chk, path, cases=None):
    from nibabel.freesurfer import io as fio
    cases = gen_annot(chk) if cases is None else cases
    lines, obs = [], []
    for i, c in enumerate(cases):
        rows = [list(r) for r in c['rows']]
        if c['cols'] == 5:
            # fill_ctab=True ignores the 5th column (give junk); fill_ctab=False needs the right one
            rows = [r + [exact_pack(r) if not c['fill'] else 12345] for r in rows]
        lay = c.get('lay') or LAYOUTS[i % 5]
        ctab = with_layout(np.array(rows, dtype=c['dtype']), lay)
        labels = with_layout(np.array(c['labels'], dtype=int), LAYOUTS[(i // 5) % 5] if not c.get('lay') else lay)
        o = {}
        try:
            with warnings.catch_warnings():
                warnings.simplefilter('ignore')
                flags = c.get('as_bytes') or [(i + j) % 3 == 0 for j in range(len(c['names']))]
                api_names = [nm.encode() if b else nm for nm, b in zip(c['names'], flags)]
                fio.write_annot(path, labels, ctab, api_names, fill_ctab=c['fill'])
            o['raw'] = open(path, 'rb').read()
            try:
                rl, rc, rn = fio.read_annot(path)
                ol, _, _ = fio.read_annot(path, orig_ids=True)
                o['labels'] = [int(x) for x in rl]
                o['ctab'] = [[int(x) for x in r] for r in rc]
                o['names'] = [bytes(x) for x in rn]
                o['orig'] = [int(x) for x in ol]
            except Exception as e:   # noqa  (any exception on reading back a written file is an outcome, by type)
                o['rerr'] = type(e).__name__
        except Exception as e:   # noqa
            o['err'] = type(e).__name__
            chk.refusal('annot:' + type(e).__name__)
        obs.append(o)
        mrows = '/'.join(zl(r) for r in rows)
        mnames = ','.join(hx(n.encode()) for n in c['names']) or '-'
        lines.append(f"a{i}.w aw {DTYPES[c['dtype']]} {zl(c['labels'])} {mrows} {mnames} {1 if c['fill'] else 0}")
        if 'raw' in o:
            lines.append(f"a{i}.r ar 0 {hx(o['raw'])}")
            lines.append(f"a{i}.o ar 1 {hx(o['raw'])}")
        chk.count(key=('annot', tuple(map(tuple, c['rows'])), tuple(c['labels']), c['fill'], c['cols'], c['dtype'], tuple(c['names'])),
                  tag=f"annot:fill_ctab={c['fill']}",
                  sample={'kind': 'annot', 'n_labels': len(c['rows']), 'vnum': len(c['labels']), 'fill_ctab': c['fill']} if i == 5 else None)
        chk.tagc('annot:has_unlabeled' if -1 in c['labels'] else 'annot:all_labeled')
        chk.tagc('annot:ctab_dtype=' + c['dtype'])
    got = run_model(PROP, lines)

    def fmt_read(labels, ctab, names):
        return ('ok labels=' + zl(labels) + ' ctab=' + ('/'.join(zl(r) for r in ctab) or '-') + ' names=' +
                (','.join(hx(n) for n in names) or '-'))
    for i, (c, o) in enumerate(zip(cases, obs)):
        dis, pred, known = [], None, None
        mw = got.get(f'a{i}.w', '<missing>')
        n = len(c['rows'])
        if 'err' in o:
            if not mw.startswith('err '):
                dis.append(('write_annot refusal', mw[:100], o['err']))
            if c['labels'] and all(-1 <= x < n for x in c['labels']):
                pred = 'write_annot refused labels inside the table: ' + o['err']
        else:
            if mw != 'ok ' + hx(o['raw']):
                dis.append(('write_annot bytes', mw[:300], hx(o['raw'])[:300]))
            if 'rerr' in o:
                if not got.get(f'a{i}.r', '').startswith('err '):
                    dis.append(('read_annot error', got.get(f'a{i}.r', '')[:100], o['rerr']))
                pred = f"read_annot raised {o['rerr']} on a file written by write_annot"
            else:
                if got.get(f'a{i}.r') != fmt_read(o['labels'], o['ctab'], o['names']):
                    dis.append(('read_annot', got.get(f'a{i}.r', '')[:300], fmt_read(o['labels'], o['ctab'], o['names'])[:300]))
                if got.get(f'a{i}.o') != fmt_read(o['orig'], o['ctab'], o['names']):
                    dis.append(('read_annot orig_ids', got.get(f'a{i}.o', '')[:300], fmt_read(o['orig'], o['ctab'], o['names'])[:300]))
                want_ctab = [list(r[:4]) + [exact_pack(r)] for r in c['rows']]
                want_names = [nm.encode().rstrip(b'\0') for nm in c['names']]
                if o['labels'] != c['labels']:
                    pred = f"labels read back {o['labels'][:12]} != {c['labels'][:12]}"
                elif o['ctab'] != want_ctab:
                    pred = 'colour table differs'
                elif o['names'] != want_names:
                    pred = 'names differ'
            if pred:
                packs = [exact_pack(r) for r in c['rows']]
                if 'labels read back' in pred and all(
                        (a == b) or (a >= 0 and packs[a] == 0 and b == -1) for a, b in zip(c['labels'], o.get('labels', []))):
                    known = S_C19A
        finish_case(chk, 'annot', c, dis, pred, mw[:200], o, known=known)


# --------------------------------------------------------------------------- MGH
MGH_DTYPES = [np.uint8, np.int16, np.int32, np.float32]


def gen_mgh(chk):
    rng = chk.rng
    cases = []
    k = 0
    for shape in [(3,), (2, 3), (2, 3, 4), (2, 3, 4, 5), (1, 1, 1), (1, 1, 1, 2), (2, 1, 3, 7), (5, 1), (2, 3, 4, 1), (2, 3, 4, 5, 6)]:
        for dt in MGH_DTYPES:
            cases.append(dict(shape=shape, dt=np.dtype(dt).name, zooms=[1.0 + k % 3, 2.5, 0.75], tr=[0.0, 2.0, 1234.5][k % 3],
                              foot=[SPECIAL_F32[(k + j) % len(SPECIAL_F32)] for j in range(4)], mgz=k % 4 == 1, seed=k, hist=None))
            k += 1
    # histories in which the affine changes AFTER the repetition time was set (4-D, tr != 0)
    for hist in ('affine-inplace', 'header-reuse', 'loaded-header-reuse'):
        for dt in MGH_DTYPES:
            for tr in (2.0, 1234.5):
                cases.append(dict(shape=(2, 3, 4, 3), dt=np.dtype(dt).name, zooms=[1.5, 2.5, 0.75], tr=tr,
                                  foot=[SPECIAL_F32[(k + j) % len(SPECIAL_F32)] for j in range(4)], mgz=k % 4 == 1, seed=k, hist=hist))
                k += 1
    for _ in range(chk.n(700, 6000)):
        nd = rng.choice([1, 2, 3, 3, 4, 4])
        shape = tuple(rng.randrange(1, 5) for _ in range(nd))
        if nd == 4 and shape[3] == 1:
            shape = shape[:3] + (rng.randrange(2, 5),)
        cases.append(dict(shape=shape, dt=np.dtype(rng.choice(MGH_DTYPES)).name,
                          zooms=[rng.choice([1.0, 0.5, 2.0, rng.uniform(0.1, 5)]) for _ in range(3)],
                          tr=rng.choice([0.0, 1.0, 2000.0, rng.uniform(0, 5000)]), foot=rand_f32(rng, 4, special=0.2),
                          mgz=rng.random() < 0.2, seed=rng.randrange(10 ** 6),
                          hist=rng.choice([None, None, 'affine-inplace', 'header-reuse', 'loaded-header-reuse']) if nd >= 3 else None))
    return cases


def run_mgh(chk, path, cases=None):
    import gzip
    from nibabel.freesurfer.mghformat import MGHImage
    from nibabel.spatialimages import HeaderDataError
    cases = gen_mgh(chk) if cases is None else cases
    lines, obs = [], []
    for i, c in enumerate(cases):
        rs = np.random.RandomState(c['seed'])
        dt = np.dtype(c['dt'])
        n = int(np.prod(c['shape']))
        data = (rs.randint(0, 250, size=n).astype(dt) if dt.kind != 'f' else
                bits_to_f32(rand_f32(random.Random(c['seed']), n, special=0.1), (n,))).reshape(c['shape'])
        aff = np.diag(c['zooms'] + [1.0])
        aff[:3, 3] = [-3, 5, 7]
        o = {}
        try:
            with warnings.catch_warnings():
                warnings.simplefilter('ignore')
                img = MGHImage(data, aff)
                h = img.header
                if len(c['shape']) == 4 and c['shape'][3] > 1:
                    h.set_zooms(tuple(h.get_zooms()[:3]) + (c['tr'],))
                ftr = np.array(c['foot'], dtype='>u4').view('>f4')
                for name, v in zip(('flip_angle', 'te', 'ti', 'fov'), ftr):
                    h[name] = v
                o['zooms_before'] = f32bits(np.array(h.get_zooms(), dtype=np.float32))
                hist = c.get('hist')
                if hist:
                    # the affine changes after TR was set: another origin and a flipped axis (same voxel sizes)
                    aff2 = aff.copy()
                    aff2[:3, 3] = [11, -2, 4.5]
                    aff2[:3, 0] *= -1
                    if hist == 'affine-inplace':
                        img.affine[...] = aff2
                    elif hist == 'header-reuse':
                        img = MGHImage(data, aff2, header=img.header)
                    else:
                        img = MGHImage(data, aff2, header=MGHImage.from_bytes(img.to_bytes()).header)
                    h = img.header
                if c['mgz']:
                    p = path + '.mgz'
                    img.to_filename(p)
                    raw = gzip.open(p, 'rb').read()
                    img2 = MGHImage.from_filename(p)
                else:
                    raw = img.to_bytes()
                    img2 = MGHImage.from_bytes(raw)
                sa = h                        # public mapping access to the header fields
                o['ints'] = [int(sa['version'])] + [int(x) for x in sa['dims']] + [int(sa['type']), int(sa['dof'])]
                o['good'] = int(sa['goodRASFlag'])
                o['floats'] = f32bits(np.concatenate([sa['delta'].astype('<f4'), sa['Mdc'].astype('<f4').reshape(-1), sa['Pxyz_c'].astype('<f4')]))
                o['footer'] = f32bits(np.array([sa[k].astype('<f4') for k in ('tr', 'flip_angle', 'te', 'ti', 'fov')]))
                o['data'] = np.asarray(data).astype(dt.newbyteorder('>')).tobytes(order='F')
                o['raw'] = raw
                h2 = img2.header
                s2 = h2
                o['r_ints'] = [int(s2['version'])] + [int(x) for x in s2['dims']] + [int(s2['type']), int(s2['dof'])]
                o['r_good'] = int(s2['goodRASFlag'])
                o['r_floats'] = f32bits(np.concatenate([s2['delta'].astype('<f4'), s2['Mdc'].astype('<f4').reshape(-1), s2['Pxyz_c'].astype('<f4')]))
                o['r_footer'] = f32bits(np.array([s2[k].astype('<f4') for k in ('tr', 'flip_angle', 'te', 'ti', 'fov')]))
                o['r_shape'] = [int(x) for x in img2.shape]
                o['r_zooms'] = f32bits(np.array(h2.get_zooms(), dtype=np.float32))
                rd = np.asarray(img2.dataobj)
                o['r_dtype'] = rd.dtype.name
                o['r_data'] = rd.astype(rd.dtype.newbyteorder('>')).tobytes(order='F')
        except (HeaderDataError, ValueError) as e:
            o = {'err': f'{type(e).__name__}: {e}'[:100]}
            chk.refusal('mgh:' + type(e).__name__)
        obs.append(o)
        lines.append(f"h{i}.s shape {zl(c['shape'])}")
        if 'raw' in o:
            lines.append(f"h{i}.w hw {zl(o['ints'])} {o['good']} {zl(o['floats'])} {zl(o['footer'])} {hx(o['data'])}")
            lines.append(f"h{i}.r hr {hx(o['raw'])}")
        chk.count(key=('mgh', c['shape'], c['dt'], c['seed']), tag=f"mgh:ndim={len(c['shape'])}",
                  sample={'kind': 'mgh', 'shape': c['shape'], 'dtype': c['dt'], 'tr': c['tr']} if i == 13 else None)
        chk.tagc('mgh:' + c['dt'])
        chk.tagc('mgh:history=' + str(c.get('hist')))
    got = run_model(PROP, lines)
    for i, (c, o) in enumerate(zip(cases, obs)):
        dis, pred, known = [], None, None
        ms = got.get(f'h{i}.s', '<missing>')
        mw = got.get(f'h{i}.w', '')
        shape = list(c['shape'])
        if 'err' in o:
            # more than 4 dims (ValueError) or a 4-D shape ending in 1 (HeaderDataError: header says 3-D)
            refusal_expected = len(shape) > 4 or (len(shape) == 4 and shape[3] == 1)
            if len(shape) > 4 and not ms.startswith('err '):
                dis.append(('set_data_shape refusal', ms, o['err']))
            if not refusal_expected:
                pred = 'a 1-4 dimensional volume was refused: ' + o['err']
        else:
            exp_s = f"ok dims={zl(o['ints'][1:5])} shape={zl(o['r_shape'])} ndims={3 + (o['ints'][4] > 1)}"
            if ms != exp_s:
                dis.append(('set/get_data_shape', ms, exp_s))
            if mw != 'ok ' + hx(o['raw']):
                dis.append(('MGH file bytes', mw[:300], hx(o['raw'])[:300]))
            exp_r = (f"ok ints={zl(o['r_ints'])} good={o['r_good']} floats={zl(o['r_floats'])} footer={zl(o['r_footer'])} "
                     f"shape={zl(o['r_shape'])} zooms={zl(o['r_zooms'])} data={hx(o['r_data'])}")
            if got.get(f'h{i}.r') != exp_r:
                dis.append(('MGH from_bytes', got.get(f'h{i}.r', '')[:400], exp_r[:400]))
            if o['r_shape'] != shape:
                pred = f"shape {shape} reloads as {o['r_shape']}"
                if len(shape) < 3 and o['r_shape'] == shape + [1] * (3 - len(shape)) and o['r_data'] == o['data']:
                    known = S_C01A
            elif o['r_data'] != o['data'] or o['r_dtype'] != c['dt']:
                pred = 'data or dtype differ'
            elif len(o['r_zooms']) != (4 if len(shape) == 4 else 3):
                pred = f"{len(o['r_zooms'])} zooms for a {len(shape)}-D volume"
            elif not same_f32(o['r_zooms'], o['zooms_before']):
                pred = 'voxel sizes / TR differ'
            elif len(shape) == 4 and not same_f32(o['r_zooms'][3:], f32bits([c['tr']])):
                pred = 'TR differs'
            elif not same_f32(o['r_footer'], o['footer']) or not same_f32(o['footer'][1:], c['foot']):
                pred = 'footer fields differ'
            elif not np.allclose(bits_to_f32(o['r_zooms'][:3], (3,)), c['zooms'], rtol=1e-6):
                pred = 'voxel sizes are not those of the affine'
        finish_case(chk, 'mgh', c, dis, pred, mw[:200], {k: v for k, v in o.items() if k not in ('raw', 'data', 'r_data')}, known=known)


# --------------------------------------------------------------------------- MGH: saving onto a file that is still mapped
INPLACE_HIST = ['self', 'asanyarray-new-image', 'get_fdata-new-image', 'other-object-maps']


def inplace_cases(chk):
    """seed independent: file kind x dtype x 3-D/4-D x history, small (one page) and larger volumes alternating"""
    out = []
    for fk in ('mgh-mmap', 'mgh-nommap', 'mgz'):
        for dt in MGH_DTYPES:
            for nd in (3, 4):
                for hist in INPLACE_HIST:
                    if hist == 'get_fdata-new-image' and np.dtype(dt).kind != 'f':
                        continue          # get_fdata of an integer file is a fresh float array, not a map
                    big = len(out) % 2 == 0
                    shape = ((24, 24, 16) if big else (4, 3, 5)) + ((2,) if nd == 4 else ())
                    out.append(dict(inplace=1, id=len(out), fk=fk, dt=np.dtype(dt).name, shape=shape, hist=hist,
                                    vseed=chk.rng.randrange(10 ** 6)))
    return out


def inplace_one(c, root):
    """Runs in the child.  Returns 'ok' or what is wrong with the file after the save."""
    from nibabel.freesurfer.mghformat import MGHImage
    import nibabel as nib
    d = os.path.join(root, 'ip.%d' % c['id'])
    os.makedirs(d)
    p = os.path.join(d, 'vol.mgz' if c['fk'] == 'mgz' else 'vol.mgh')
    mm = c['fk'] != 'mgh-nommap'
    rs = np.random.RandomState(c['vseed'])
    data = rs.randint(1, 100, size=tuple(c['shape'])).astype(c['dt'])
    aff = np.array([[-2., 0, 0, 10.], [0, 0, 1.5, -20.], [0, -3., 0, 30.], [0, 0, 0, 1.]])
    with warnings.catch_warnings():
        warnings.simplefilter('ignore')
        MGHImage(data, aff).to_filename(p)
        hist = c['hist']
        if hist == 'self':
            img = MGHImage.from_filename(p, mmap=mm)
            expected = data
            saver = img
        elif hist == 'asanyarray-new-image':
            img = MGHImage.from_filename(p, mmap=mm)
            arr = np.asanyarray(img.dataobj)
            saver = MGHImage(arr, img.affine, img.header)
            expected = data
        elif hist == 'get_fdata-new-image':
            img = MGHImage.from_filename(p, mmap=mm)
            arr = img.get_fdata(dtype=np.float32)
            saver = MGHImage(arr, img.affine, img.header)
            expected = data
        else:
            other = MGHImage.from_filename(p, mmap=mm)
            held = np.asanyarray(other.dataobj)          # another object maps the file; it is not read afterwards
            expected = (data + 1).astype(c['dt'])
            saver = MGHImage(expected.copy(), aff)
        try:
            nib.save(saver, p)
        except Exception as e:   # noqa   (a refusal is acceptable; a wrong file is not)
            return f'refused {type(e).__name__}'
        del saver
        back = MGHImage.from_filename(p, mmap=False)
        got = np.asarray(back.dataobj)
    if got.shape != expected.shape:
        return f'shape {got.shape} after the save, the saving image held {expected.shape}'
    if not np.array_equal(got, expected):
        return (f'{int(np.count_nonzero(got != expected))}/{expected.size} voxels differ from what the saving image held '
                f'(file now starts {got.ravel()[:4].tolist()}, held {expected.ravel()[:4].tolist()})')
    if got.dtype.newbyteorder('=') != np.dtype(c['dt']):
        return f'dtype {got.dtype}'
    return 'ok'


def inplace_child(job_path):
    job = json.load(open(job_path))
    ensure_impl_path()
    for c in job['cases']:
        print('B %d' % c['id'], flush=True)
        try:
            v = inplace_one(c, job['root'])
        except Exception as e:   # noqa
            v = f'raised {type(e).__name__}: {e}'[:200]
        print('V %d %s' % (c['id'], v), flush=True)


def run_inplace_children(chk, cases):
    import subprocess
    import common
    verdicts, todo, rounds = {}, list(cases), 0
    root = os.path.join(chk.workdir, 'inplace.d')
    os.makedirs(root, exist_ok=True)
    while todo and rounds < len(cases) + 1:
        rounds += 1
        sub = os.path.join(root, 'r%d' % rounds)
        os.makedirs(sub)
        jp = os.path.join(sub, 'job.json')
        json.dump({'root': sub, 'cases': todo}, open(jp, 'w'))
        try:
            pr = subprocess.run([common.PY, os.path.abspath(__file__), '--inplace-child', jp], env=common.impl_env(),
                                capture_output=True, text=True, timeout=300, cwd=sub)
            rc, out, err = pr.returncode, pr.stdout, pr.stderr
        except subprocess.TimeoutExpired as e:
            rc, out, err = 'timeout', (e.stdout.decode() if isinstance(e.stdout, bytes) else (e.stdout or '')), ''
        begun = None
        for ln in out.splitlines():
            if ln.startswith('B '):
                begun = int(ln[2:])
            elif ln.startswith('V '):
                _, i, v = ln.split(' ', 2)
                verdicts[int(i)] = v
                begun = None
        if begun is not None:
            verdicts[begun] = f'the process died (exit status {rc}) while saving onto the mapped file'
        elif rc != 0 and not any(c['id'] in verdicts for c in todo):
            for c in todo:
                verdicts[c['id']] = f'child could not run (exit status {rc}): {err[-200:]}'
        todo = [c for c in todo if c['id'] not in verdicts]
    return verdicts


def run_mgh_inplace(chk, only=None):
    cases = inplace_cases(chk) if only is None else only
    verdicts = run_inplace_children(chk, cases)
    # the model's side: a map of the target's data region, with the copy unmap_if_target decides on
    probe = 'x hsave 1 1 [1,2,1,1,1,0,0] 1 [1,2,3,4,5,6,7,8,9,10,11,12,13,14,15] [5,4,3,2,1] x0102'
    got = run_model(PROP, [probe, probe.replace('hsave 1 1', 'hsave 1 0').replace('x hsave', 'y hsave')])
    model_ok = got.get('x', '').startswith('ok ') and got.get('y') == 'err alias'
    for c in cases:
        v = verdicts.get(c['id'], 'no verdict')
        chk.count(key=('mgh-inplace', c['fk'], c['dt'], len(c['shape']), c['hist']), tag='mgh_inplace:' + c['hist'])
        if v.startswith('refused'):
            chk.refusal('mgh_inplace:' + v)
        elif v != 'ok':
            report(chk, 'property_violation', case=dict(c, kind='mgh-inplace'), predicate=v,
                   model_output='copy-before-truncate: ' + got.get('x', '')[:40] + ' / without: ' + str(got.get('y')))
    if not model_ok:
        chk.disagreements += 1
        report(chk, 'correspondence', case={'kind': 'mgh-inplace-model'}, model_output=str(got), found_input=False,
               predicate='model of saving onto a mapped file: expected ok with the copy and err alias without',
               theorem='C19_mgh_save_onto_mapped_file / C19_mgh_save_without_copy_refuted')


# --------------------------------------------------------------------------- label files (no model: np.loadtxt)
def run_label(chk, path):
    """read_label is np.loadtxt on text; the library has no writer.  Checked directly: a label file
    in FreeSurfer's layout reads back to the vertex ids and scalars it lists."""
    from nibabel.freesurfer import io as fio
    rng = chk.rng
    for i in range(chk.n(40, 400)):
        n = rng.choice([1, 2, 5, 30])
        ids = [rng.randrange(0, 200000) for _ in range(n)]
        sc = [round(rng.uniform(-5, 5), 6) for _ in range(n)]
        with open(path, 'w') as f:
            f.write('#!ascii label  , from subject fsaverage vox2ras=TkReg\n%d\n' % n)
            for a, s in zip(ids, sc):
                f.write('%d  %.3f  %.3f  %.3f %.6f\n' % (a, rng.uniform(-70, 70), rng.uniform(-70, 70), rng.uniform(-70, 70), s))
        with warnings.catch_warnings():
            warnings.simplefilter('ignore')
            l, s = fio.read_label(path, read_scalars=True)
            l2 = fio.read_label(path)
        chk.count(key=('label', tuple(ids[:4]), n), tag='label')
        ok = [int(x) for x in np.atleast_1d(l)] == ids and [float(x) for x in np.atleast_1d(s)] == sc and np.array_equal(l, l2)
        if not ok:
            report(chk, 'property_violation', case={'kind': 'label', 'ids': ids, 'scalars': sc},
                   predicate='read_label returns other vertex ids / scalars than the file lists')


# --------------------------------------------------------------------------- vm cross-check
def vm(chk):
    lines = ['0 mw [3,1] [1065353216,0,4290772992] 7', '1 mw [2,2] [1,2,3,4] 0',
             '2 aw - [0,1,-1] [10,20,30,0]/[10,40,50,0] x61,x62 1', '3 aw 8:0 [0,1] [10,20,30,0]/[10,40,50,0] x61,x62 1',
             '4 gw x6869 1 1 [1065353216,0,2139095040] [0,0,0]', '5 hw [1,2,1,1,1,0,0] 1 [1,2,3,4,5,6,7,8,9,10,11,12,13,14,15] [5,4,3,2,1] x0102']
    got = run_model(PROP, lines)

    def cl(b):
        return '[' + ';'.join(str(x) for x in b) + ']'

    def hexl(r):
        return cl(bytes.fromhex(r[4:]))
    pairs = [(f'match write_morph [3;1] [1065353216;0;4290772992] 7 with Ok b => list_eqb b {hexl(got["0"])} | _ => false end', 'mw'),
             ('match write_morph [2;2] [1;2;3;4] 0 with Err ErrValue => true | _ => false end' if got['1'] == 'err value' else 'false', 'mw bad'),
             (f'match write_annot None [0;1;-1] [[10;20;30;0];[10;40;50;0]] [[97];[98]] true with Ok b => list_eqb b {hexl(got["2"])} | _ => false end', 'aw'),
             (f'match write_annot (Some (8, false)) [0;1] [[10;20;30;0];[10;40;50;0]] [[97];[98]] true with Ok b => list_eqb b {hexl(got["3"])} | _ => false end', 'aw uint8 table'),
             (f'list_eqb (write_geometry [104;105] 1 1 [1065353216;0;2139095040] [0;0;0] None) {hexl(got["4"])}', 'gw'),
             (f'list_eqb (mgh_write (mkM [1;2;1;1;1;0;0] 1 [1;2;3;4;5;6;7;8;9;10;11;12;13;14;15] [5;4;3;2;1]) [1;2]) {hexl(got["5"])}', 'hw')]
    # readers on the model's own small files
    for key, rd, what in (('0', 'match read_morph {b} with Ok v => list_eqb v [1065353216;0;4290772992] | _ => false end', 'mr'),
                          ('2', 'match read_annot false {b} with Ok a => list_eqb (alabels a) [0;1;-1] | _ => false end', 'ar'),
                          ('4', 'match read_geometry true {b} with Ok g => list_eqb (gcoords g) [1065353216;0;2139095040] && list_eqb (gstamp g) [104;105] | _ => false end', 'gr'),
                          ('5', 'match mgh_read {b} with Ok (m, d) => list_eqb d [1;2] && list_eqb (hfooter m) [5;4;3;2;1] | _ => false end', 'hr')):
        pairs.append((rd.format(b=hexl(got[key])), what))
    imports = ('From Coq Require Import ZArith List Bool. Import ListNotations. Open Scope Z_scope.\n'
               'From NV Require Import Base.Bytes C19.Model.\n')
    ncase, bad = vm_crosscheck(PROP, imports, pairs)
    chk.vm = {'cases': ncase, 'disagreements': len(bad)}
    if bad:
        chk.disagreements += 1
        chk.violation('correspondence', case={'vm_crosscheck': [pairs[b][1] if isinstance(b, int) and b < len(pairs) else b for b in bad]},
                      predicate='extracted model disagrees with vm_compute evaluation of the model', found_input=False,
                      theorem='extraction cross-check')


UNPROVED = [
    'C19_annot_roundtrip needs "packed colour values non-zero" (refuted without: C19_annot_black_refuted = S-C19a); it '
    'holds for every integer dtype of the colour table (C19_pack_rgb_any_dtype; S-C19b is repaired, its probe runs each time)',
    'MGH: 1-D/2-D shapes come back padded to 3-D (C19_mgh_lowdim_refuted = S-C01a); the relation between the affine and the '
    'header delta/Mdc/Pxyz_c (voxel_sizes, float32 casts) and the data conversion (array_to_file, C01) are not modelled - '
    'C19_mgh_shape_zooms is about the byte layout of header, data chunk and footer and about shape/zoom bookkeeping',
    'volume-info numeric values are proved to round-trip as text tokens; "%.10g" formatting and float() parsing are '
    'NumPy/CPython (values agree to 10 significant digits, checked by the harness)',
    'saving onto a file the saved array is mapped from: C19_mgh_save_onto_mapped_file is a small model (a buffer is in memory '
    'or a map of a file region; the writer truncates the target before reading the array) of the contract of unmap_if_target; '
    'that np.memmap / the OS behave like that model (zeros or SIGBUS past a truncated end) is an assumption, the code is tied '
    'to it by the in-place histories run in a child process',
    'label files: read_label is numpy.loadtxt (no writer in the library): no model, direct check only',
    'legacy read-only formats (quad surfaces, old-style curv, old-style colour tables) and write_annot(fill_ctab=False) '
    'with an inconsistent fifth column (the writer warns) are outside the theorems',
]


def run(chk: Check):
    ensure_impl_path()
    chk.rule = ('geometry: every (n vertices, n faces) in 0..3 x 0..3 + random meshes up to 17 vertices, coordinates = float32 '
                'bit patterns incl. +-0, subnormals, max, inf, quiet NaN payloads, float32/float64 input in C / Fortran / transposed-view / strided / negative-stride memory layouts (also for morph values, labels and colour tables), faces int32/int64 '
                'incl. out-of-range ids, 6 stamps (empty, unicode, 300 chars), volume_info none/empty/full; morph: the four '
                'accepted shapes x n in 0..5 + rejected shapes + fnum bounds + random; annot: 1..36 colours with pairwise '
                'distinct non-zero packed values, labels in {-1}+[0,n), fill_ctab both ways, 4/5 columns, long/empty/multi-byte UTF-8 (given as str or bytes) '
                'names, colour tables of dtype int64/int32/uint32 and the narrow uint8/int8/int16/uint16, plus one black-colour case (S-C19a) and three refusals; MGH: 1-5 '
                'dims x 4 dtypes x zooms/TR/footer bit patterns, .mgz for a fifth, histories in which the affine changes after TR was '
                'set (in place, header reuse, reuse of a loaded header), and in a child process saves onto the file the image '
                'was loaded from / a new image holding np.asanyarray(dataobj) or get_fdata() of it / a file another object maps '
                '(.mgh mmap on and off, .mgz, 4 dtypes, 3-D/4-D, one-page and multi-page volumes); label files: direct read check. Distinct by '
                'the full input')
    chk.assumptions = ['float casts (float64 -> float32, float32 -> float64), "%.10g" formatting and float()/int() parsing, utf-8 '
                       'encode/decode of valid text are NumPy/CPython: the model moves bit patterns and text tokens',
                       'files are complete (truncation is C08); legacy read-only formats (quad surfaces, old curv, old-style '
                       'colour tables) are not modelled',
                       'volume-info text is ASCII-whitespace clean: str.strip()/split() on the decoded line act as on bytes']
    chk.build()
    chk.run_probes()
    if not chk.model_ok:
        return
    chk.extra['unproved_statements'] = UNPROVED
    d = chk.workdir
    run_geometry(chk, os.path.join(d, 'lh.geom'))
    run_morph(chk, os.path.join(d, 'lh.curv'))
    run_annot(chk, os.path.join(d, 'lh.annot'))
    run_mgh(chk, os.path.join(d, 'vol'))
    run_mgh_inplace(chk)
    run_label(chk, os.path.join(d, 'lh.label'))
    vm(chk)


def replay(chk, obj):
    import shutil
    ensure_impl_path()
    try:
        c = obj.get('case')
        if obj.get('inputs') and obj['inputs'].get('probe_fn'):
            import defect_probes
            r = defect_probes.PROBES[obj['inputs']['probe_fn']]()
            print('defect present' if r else 'defect absent')
            return 1 if r else 0
        if not isinstance(c, dict) or 'kind' not in c:
            print('nothing to replay:', obj.get('predicate'))
            return 1
        kind = c.pop('kind')
        if kind == 'mgh-inplace':
            chk.build()
            c['shape'] = tuple(c['shape'])
            v = run_inplace_children(chk, [c]).get(c['id'], 'no verdict')
            print('property holds on this case' if v == 'ok' else 'fails again: ' + v)
            return 0 if v == 'ok' else 1
        if kind == 'label':
            print('label cases are re-run by ./check C19 with VERIF_SEED=%s' % obj.get('seed'))
            return 1
        for k in ('shape',):
            if k in c:
                c[k] = tuple(c[k])
        chk.build()
        fn = {'geometry': run_geometry, 'morph': run_morph, 'annot': run_annot, 'mgh': run_mgh}[kind]
        fn(chk, os.path.join(chk.workdir, 'replay'), cases=[c])
        for fid, what in chk.known_hits.items():
            print('known finding reproduced:', fid, what)
        bad = [p for k, p, _ in chk.violations]
        for pth in bad:
            o2 = json.load(open(pth))
            print('fails again:', o2['kind'], '-', o2['predicate'])
            os.remove(pth)
        if not bad and not chk.known_hits:
            print('property holds on this case')
        return 1 if (bad or chk.known_hits) else 0
    finally:
        shutil.rmtree(chk.workdir, ignore_errors=True)


if __name__ == '__main__':
    import sys
    if len(sys.argv) == 3 and sys.argv[1] == '--inplace-child':
        inplace_child(sys.argv[2])
